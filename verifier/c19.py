"""C19 -- PSD and signal utilities (thin partial claim)."""
from __future__ import annotations

import ast

from . import e2_formula as F
from .core import AnchorError, Unsupported
from .e1_srcmodel import dotted, walk_no_nested, parent, ancestors, utext
from .e2_eval import Evaluator, is_unknown, need

PSD = "pyyeti/psd.py"
DSP = "pyyeti/dsp.py"


def r1_area(ctx):
    fn = ctx.src.func(PSD, "area")
    loops = [n for n in fn.body if isinstance(n, ast.For)]
    if len(loops) != 1:
        raise AnchorError("area: segment loop")
    outer = loops[0]
    ok = ast.unparse(outer.iter).replace(" ", "") == "range(Freq.size-1)"
    ctx.check(ok, "area: every one of the Freq.size - 1 segments is visited", outer, ast.unparse(outer.iter))
    inner = [n for n in outer.body if isinstance(n, ast.For)]
    ok = len(inner) == 1 and ast.unparse(inner[0].iter).replace(" ", "") == "range(PSD.shape[1])"
    ctx.check(ok, "area: every PSD column is visited", inner[0] if inner else outer)
    if not inner:
        return
    body = inner[0].body
    f1, p1, L, s0 = F.sym("f1"), F.sym("p1"), F.sym("L"), F.sym("s0")

    def sub(node, ev):
        t = utext(node)
        return {"Freq[i]": f1, "Freq[i+1]": f1 * F.exp(L), "PSD[i,j]": p1, "PSD[i+1,j]": p1 * F.exp(s0 * L)}.get(t, NotImplemented)

    vals = {}
    test = None
    for arm in (True, False):
        def cond(t_, ev, arm=arm):
            return arm
        ev = Evaluator(env={}, src=ctx.src, subscript=sub, cond=cond,
                       call=lambda node, ev: (F.fn("abs", need(ev.ev(node.args[0]))) if dotted(node.func) == "abs" else NotImplemented))
        for st in outer.body:
            if isinstance(st, ast.Assign):
                ev.stmt(st)
        for st in body:
            if isinstance(st, ast.If):
                test = st
            if isinstance(st, ast.AugAssign):
                continue
            ev.stmt(st)
        vals[arm] = (ev.env.get("intarea"), ev.env.get("s"))
    sp, s_ = vals[True]
    gen, _ = vals[False]
    ok = s_ is not None and not is_unknown(s_) and s_.equals(s0)
    ctx.check(ok, "area: s = log(p2/p1)/log(f2/f1) is the log-log slope of the segment", body[0], None if ok else repr(s_))
    if gen is None or is_unknown(gen) or sp is None or is_unknown(sp):
        ctx.error("area: segment formulas", fn, f"{gen} {sp}")
        return
    # exact integral of p1 (f/f1)^s over [f1, f2], f2 = f1 e^L :  p1 f1 (e^{(s+1) L} - 1)/(s + 1)
    exact = p1 * f1 * (F.exp((s0 + 1) * L) - 1) / (s0 + 1)
    ok = gen.equals(exact)
    ctx.check(ok, "area: the general formula (f2 p2 - f1 p1)/(s + 1) is the exact integral of the log-log interpolant over the segment", test or fn,
              None if ok else {"code": repr(gen), "integral": repr(exact)})
    eps = F.sym("eps")
    ser = F.series(gen.subs({"s0": eps - 1}), "eps", 0)
    ok = ser.val >= 0 and ser.coef(0).equals(sp)
    ctx.check(ok, "area: the special-case formula p1 f1 log(f2/f1) is the s -> -1 limit of the general one", test or fn,
              None if ok else {"limit": repr(ser.coef(0)) if ser.val >= 0 else "singular", "special": repr(sp)})
    # the special case is selected by a test centred on the singularity of the general formula
    if test is None:
        ctx.error("area: special-case test", fn)
        return
    den = None
    for st in test.orelse:
        if isinstance(st, ast.Assign) and isinstance(st.value, ast.BinOp) and isinstance(st.value.op, ast.Div):
            den = st.value.right
    t = test.test
    ok = den is not None and isinstance(t, ast.Compare) and len(t.ops) == 1 and isinstance(t.ops[0], (ast.Lt, ast.LtE)) \
        and isinstance(t.left, ast.Call) and dotted(t.left.func) in ("abs", "np.abs") and ast.unparse(t.left.args[0]) == ast.unparse(den)
    ctx.check(ok, "area: the limit formula is selected by |d| < eps where d is exactly the denominator of the general formula (window centred on the "
                  "singular slope s = -1, i.e. -10 log10(2) dB/octave, and only there)", test,
              None if ok else {"test": ast.unparse(t), "denominator": ast.unparse(den) if den is not None else None,
                               "consequence": "slopes near but not at the singular one (e.g. exactly -3 dB/octave) would be integrated with the limit formula"})
    if ok:
        try:
            c = float(ast.literal_eval(t.comparators[0]))
        except Exception:  # noqa
            c = None
        ok = c is not None and 0 < c <= 1e-4
        ctx.check(ok, "area: the window is narrow (relative error of the limit formula is eps * log(f2/f1) / 2)", test, c)
    acc = [st for st in body if isinstance(st, ast.AugAssign)]
    ok = len(acc) == 1 and isinstance(acc[0].op, ast.Add) and ast.unparse(acc[0].target).replace(" ", "") == "_area[j]" and ast.unparse(acc[0].value) == "intarea"
    ctx.check(ok, "area: segment areas are accumulated per column (additivity over segments)", acc[0] if acc else fn)


def r2_interp(ctx):
    """decided on values: each arm of `linear` is evaluated on symbols; spelling (if/else order, early return, temporaries) is immaterial"""
    from .sem import Sem, split_call, place, and_binop
    fn = ctx.src.func(PSD, "interp")
    SIG = ["x", "y", "kind", "axis", "copy", "bounds_error", "fill_value", "assume_sorted"]
    res = {}
    for lin in (True, False):
        def cond(test, ev, lin=lin):
            if isinstance(test, ast.Name) and test.id == "linear":
                return lin
            return None
        S = Sem(ctx, fn, cond=cond, binop=and_binop, pinned={"Freq": F.sym("Freq"), "PSD": F.sym("PSD")})
        # spec is unpacked into Freq / PSD before the arms: pin them so both arms speak about the same symbols
        mk = S.calls("interp1d")
        use = S.calls("ifunc")
        res[lin] = (S, mk, use)
    # ---- log-log arm
    S, mk, use = res[False]
    ok = len(mk) == 1 and len(use) == 1
    a = place(mk[0][1], mk[0][2], SIG) if ok else {}
    ok = ok and S.same(a.get("x"), "np.log(Freq)") and S.same(a.get("y"), "np.log(PSD)") and len(use[0][1]) == 1 and S.same(use[0][1][0], "np.log(freq)")
    ctx.check(ok, "interp (log-log): both axes of the specification and the query frequencies are taken to log", mk[0][3] if mk else fn,
              None if ok else {k: repr(v) for k, v in a.items()})
    ret = S.ret()
    cells = S.cells("psdfull")
    inr = "(freq >= Freq[0]) & (freq <= Freq[-1])"
    ok = ret is not None and S.same(ret, "psdfull") and len(cells) == 1 and S.same(cells[0][0], inr) and S.same(cells[0][1], f"np.exp(psdfull[{inr}])") \
        and S.same(S.init("psdfull"), use[0] and S.ev.ev(use[0][3]))
    ctx.check(ok, "interp (log-log): exp() is applied to exactly the in-range results (out-of-range stays at the fill value 0)", cells[0][2] if cells else fn,
              None if ok else {"stores": [(repr(c[0]), repr(c[1])) for c in cells], "returned": repr(ret)})
    ok = S.same(a.get("fill_value"), "0") and S.same(a.get("bounds_error"), "False")
    ctx.check(ok, "interp (log-log): out-of-range queries give 0, not an error", mk[0][3] if mk else fn, nontrivial=False)
    # ---- linear arm
    S, mk, use = res[True]
    ok = len(mk) == 1 and len(use) == 1
    a = place(mk[0][1], mk[0][2], SIG) if ok else {}
    retv = S.ret()
    if retv is not None and S.same(retv, "psdfull") and S.init("psdfull") is not None:
        retv = S.init("psdfull")          # a buffer name: its value is what it was created from (no stores in this arm, checked below)
    ok = ok and S.same(a.get("x"), "Freq") and S.same(a.get("y"), "PSD") and S.same(use[0][1][0], "freq") and S.same(retv, S.ev.ev(use[0][3])) \
        and not S.cells("psdfull") and not [c for c in S.ev.calls if c[0] in ("np.log", "np.exp", "math.log", "math.exp", "np.log10")]
    ctx.check(ok, "interp (linear): no log/exp on either side", mk[0][3] if mk else fn, None if ok else {k: repr(v) for k, v in a.items()})


def la_x(S, lf_):
    from .sem import place
    return place(lf_[0][1], lf_[0][2], ["b", "a", "x", "axis"]).get("x")


def _slice_chain(expr):
    """x[..., a:b:c][..., d::e] -> (base name, [(start, step), ...]) innermost first"""
    chain = []
    n = expr
    while isinstance(n, ast.Subscript):
        sl = n.slice
        if isinstance(sl, ast.Tuple) and len(sl.elts) == 2 and isinstance(sl.elts[0], ast.Constant) and sl.elts[0].value is Ellipsis:
            sl = sl.elts[1]
        if not isinstance(sl, ast.Slice) or sl.upper is not None:
            return None
        chain.insert(0, (sl.lower, sl.step))
        n = n.value
    if not isinstance(n, ast.Name):
        return None
    return n.id, chain


def r3_resample(ctx):
    fn = ctx.src.func(DSP, "resample")
    M, q, p, pts = F.sym("M"), F.sym("q"), F.sym("p"), F.sym("pts")
    # names bound to slices of the filter output
    env_slices = {}   # name -> (start, step) relative to the lfilter output
    start = {"updata": (F.const(0), F.const(1))}
    lf = [st for st in walk_no_nested(fn) if isinstance(st, ast.Assign) and isinstance(st.value, ast.Call) and dotted(st.value.func) == "signal.lfilter"]
    if len(lf) != 1 or ast.unparse(lf[0].targets[0]) != "updata":
        raise AnchorError("resample: `updata = signal.lfilter(...)`")
    from . import op4_model as OM

    def ev_int(node):
        e = Evaluator(env={"M": M, "q": q, "p": p}, binop=OM.int_binop({}))
        return e.ev(node)

    results = {}
    for st in walk_no_nested(fn):
        if st.__class__ is ast.Assign and st.lineno > lf[0].lineno and isinstance(st.targets[0], ast.Name):
            tgt = st.targets[0].id
            v = st.value
            add_m = False
            if isinstance(v, ast.BinOp) and isinstance(v.op, ast.Add) and ast.unparse(v.right) == "m":
                v = v.left
                add_m = True
            if isinstance(v, ast.Name) and v.id in start:
                sc = (v.id, [])
            else:
                sc = _slice_chain(v)
            if sc is None or sc[0] not in start:
                continue
            s0, k0 = start[sc[0]]
            for lo, stp in sc[1]:
                lo_v = ev_int(lo) if lo is not None else F.const(0)
                st_v = ev_int(stp) if stp is not None else F.const(1)
                if is_unknown(lo_v) or is_unknown(st_v):
                    s0 = None
                    break
                s0 = s0 + k0 * lo_v
                k0 = k0 * st_v
            if s0 is None:
                ctx.error("resample: slice arithmetic", st, ast.unparse(st))
                continue
            if tgt == "RData":
                doms = [(ast.unparse(a.test).replace(" ", ""), any(st is y for x in a.body for y in ast.walk(x))) for a in ancestors(st) if isinstance(a, ast.If)]
                arm = "q > 1" if ("q>1", True) in doms else "q == 1"
                results[arm] = (s0, k0, add_m, st)
            else:
                start[tgt] = (s0, k0)
    for arm, want_step in (("q > 1", q), ("q == 1", F.const(1))):
        if arm not in results:
            ctx.fail(f"resample ({arm}): result taken from the filter output", fn, sorted(results))
            continue
        s0, k0, add_m, st = results[arm]
        ok = s0.equals(M)
        ctx.check(ok, f"resample ({arm}): the first retained sample of the filter output is index M (front padding M//2 + FIR delay M/2), for every p/q", st,
                  None if ok else {"first index": repr(s0), "expected": "M",
                                   "consequence": "q * (M // q) != M whenever q does not divide M = 2 pts max(p, q): the output is shifted by a fraction of a sample"})
        ok = k0.equals(want_step)
        ctx.check(ok, f"resample ({arm}): every {'q-th' if arm == 'q > 1' else ''} sample is kept after the lag is removed", st, None if ok else repr(k0))
        ctx.check(add_m, f"resample ({arm}): the mean removed before filtering is added back", st)
    # ---- the remaining clauses are decided on values (function evaluated on symbols; arms p > 1 and q > 1)
    from .sem import Sem, place, and_binop
    ib = OM.int_binop({})

    def binop(node, a, b, ev):
        r = ib(node, a, b, ev)
        return r if r is not NotImplemented else and_binop(node, a, b, ev)

    def cond(test, ev):
        t = utext(test)
        return {"p>1": True, "q>1": True, "tisNone": True, "getfir": False, "axis==-1": True}.get(t)

    def zeros_call(node, ev):
        # np.zeros(shape) with `shape` a list that is edited in place: the value is zeros(<the entries of shape stored so far>)
        if dotted(node.func) == "np.zeros" and len(node.args) == 1 and isinstance(node.args[0], ast.Name) and node.args[0].id in getattr(ev, "buffers", ()):
            snap = {}
            for nm, ix, val, st in ev.cells:
                if nm == node.args[0].id and not is_unknown(ix) and not is_unknown(val):
                    snap[repr(ix)] = (ix, val)
            parts = []
            for k in sorted(snap):
                parts += [snap[k][0], snap[k][1]]
            return F.fn("zeros", node.args[0].id, *parts)
        return NotImplemented

    S0 = Sem(ctx, fn, run=False, binop=binop)
    red_p, red_q = S0.E("p // math.gcd(p, q)"), S0.E("q // math.gcd(p, q)")
    S = Sem(ctx, fn, cond=cond, binop=binop, call=zeros_call)
    ok = S.same(S.env("p"), red_p) and S.same(S.env("q"), red_q)
    ctx.check(ok, "resample: the ratio is reduced by gcd(p, q) before anything is derived from it", fn, None if ok else {"p": repr(S.env("p")), "q": repr(S.env("q"))})
    ok = S.same(S.env("M"), "2 * pts * max(p, q)")
    ctx.check(ok, "resample: M = 2 pts max(p, q) (even: M/2 is the FIR delay in samples)", fn, None if ok else repr(S.env("M")))
    ok = S.same(S.env("n"), "int(np.ceil(ln * p / q))") and S.same(S.env("ln"), "np.atleast_1d(data).shape[axis]")
    ctx.check(ok, "resample: the documented output length is ceil(ln p / q) with ln the input length along `axis`", fn, None if ok else repr(S.env("n")))
    # padding: the array handed to lfilter is (z, stuffed, z) with z = M // 2 zeros along the last axis
    cat = S.calls("np.concatenate")
    lf_ = S.calls("signal.lfilter")
    ok = len(cat) == 1 and len(lf_) == 1
    if ok:
        parts = cat[0][1][0] if cat[0][1] else None
        ax = place(cat[0][1][1:], cat[0][2], ["axis"]).get("axis")
        ok = isinstance(parts, tuple) and len(parts) == 3 and S.same(parts[0], parts[2]) and S.same(ax, "-1")
        ok = ok and S.same(parts[0], F.fn("zeros", "shape", S.E("-1"), S.E("M // 2"))) and S.same(la_x(S, lf_), "updata1") and S.same(S.init("updata1"), S.ev.ev(cat[0][3]))
        la = place(lf_[0][1], lf_[0][2], ["b", "a", "x", "axis"])
        ok = ok and S.same(la.get("b"), "p * signal.windows.kaiser(M + 1, beta) * (2 * (min(1 / q, 1 / p) / 2) * np.sinc(2 * (min(1 / q, 1 / p) / 2) * (np.arange(M + 1) - M / 2)))") \
            and S.same(la.get("a"), "1") and S.same(la.get("axis"), "-1")
    dbg = None if ok or not (cat and lf_) else {"concatenate": repr(cat[0][1]), "lfilter": {k: repr(v)[:200] for k, v in place(lf_[0][1], lf_[0][2], ["b", "a", "x", "axis"]).items()}}
    ctx.check(ok, "resample: M // 2 zeros are added at both ends of the stuffed signal before the FIR (gain p, Kaiser-windowed sinc with cut-off min(1/p, 1/q)/2 "
                  "centred at M/2) is applied along the last axis - so M samples of lag are removed and ln*p remain", cat[0][3] if cat else fn, dbg)
    cells = S.cells("updata1")
    ok = len(cells) == 1 and S.same(cells[0][0], S.E("updata1[..., ::p]") and S.ev._index_value(ast.parse("x[..., ::p]", mode="eval").body.slice)) \
        and S.same(cells[0][1], "np.atleast_1d(data) - np.mean(np.atleast_1d(data), axis=-1, keepdims=True)")
    ini = S.init("updata1")
    ctx.check(ok, "resample: zero stuffing places the (mean-removed) samples every p-th slot of a zero array (original samples are kept when upsampling)",
              cells[0][2] if cells else fn, None if ok else [(repr(c[0]), repr(c[1])) for c in cells])


def r4_rescale(ctx):
    """psd.rescale conserves the mean-square content of every output band by construction: it integrates the input PSD band by band into a
    cumulative mean-square curve over the input band EDGES, interpolates that curve at the output band edges and divides the difference by the
    output band width.  Decided on values: the cumulative curve is built from (upper - lower edge) * PSD and tabulated at exactly those edges;
    both interpolations use that table; mean square = upper - lower; PSD = mean square / (the same) band width; with `extendends` the outermost
    output edges are clamped to the outermost input band edges (not to the centre frequencies - half a band would be lost) and restored
    afterwards with the mean square recomputed from the PSD."""
    from .sem import Sem, place
    fn = ctx.src.func(PSD, "rescale")

    def cond(test, ev):
        t = utext(test)
        table = {"freqisNone": True, "frangeisNone": True, "extendends": True, "oned": False, "np.all(Df==Df[0])": True,
                 "P.ndim==1": False, "P.shape[0]==1": False, "FL[0]<FLin[0]": True, "FU[-1]>FUin[-1]": True}
        return table.get(t)

    def call(node, ev):
        d = dotted(node.func) or ""
        if d == "get_freq_oct":
            return (F.sym("Wctr"), F.sym("FL"), F.sym("FU"))
        if d == "_set_frange":
            return F.sym("frange")
        return NotImplemented

    S = Sem(ctx, fn, cond=cond, call=call, env={"F": F.sym("F"), "P": F.sym("P")}, loop_once=True)
    E = S.E
    # input band edges (uniform spacing arm) and widths
    ok = S.same(S.env("FLin"), "F - np.diff(F)[0] / 2") and S.same(S.env("FUin"), "F + np.diff(F)[0] / 2")
    ctx.check(ok, "rescale (uniform input spacing): input band edges are centre -/+ half the spacing", fn, None if ok else [repr(S.env("FLin")), repr(S.env("FUin"))])
    FLin, FUin = S.env("FLin"), S.env("FUin")
    if any(x is None or is_unknown(x) for x in (FLin, FUin)):
        ctx.error("rescale: input band edges", fn)
        return
    ca, Fa = S.env("ca"), S.env("Fa")
    want_ca = E("np.vstack((np.zeros((1, cols)), np.cumsum((FUin - FLin).reshape(-1, 1) * P, axis=0)))")
    ok = S.same(ca, want_ca) and S.same(Fa, "np.hstack((FLin[0], FUin))")
    ctx.check(ok, "rescale: the cumulative mean square is sum((upper - lower edge) * PSD) starting from 0 and is tabulated at the input band edges "
                  "[first lower edge, every upper edge]", fn, None if ok else {"ca": repr(ca), "Fa": repr(Fa)})
    # clamping of the outermost output edges
    cl = {(repr(ix)): (val, st) for ix, val, st in S.cells("FL")}
    cu = {(repr(ix)): (val, st) for ix, val, st in S.cells("FU")}
    fl_cells = S.cells("FL")
    fu_cells = S.cells("FU")
    ok = len(fl_cells) == 2 and len(fu_cells) == 2 and S.same(fl_cells[0][0], "0") and S.same(fl_cells[0][1], "FLin[0]") \
        and S.same(fu_cells[0][0], "-1") and S.same(fu_cells[0][1], "FUin[-1]")
    ctx.check(ok, "rescale (extendends): an output band reaching beyond the data is clamped to the outermost input band EDGE (lower edge of the first "
                  "band, upper edge of the last) while the mean square is computed", fl_cells[0][2] if fl_cells else fn,
              None if ok else {"FL stores": [(repr(i), repr(v)) for i, v, _ in fl_cells], "FU stores": [(repr(i), repr(v)) for i, v, _ in fu_cells]})
    ok = len(fl_cells) == 2 and len(fu_cells) == 2 and S.same(fl_cells[1][0], "0") and S.same(fl_cells[1][1], S.env("fl")) and S.same(S.env("fl"), "FL[0]") \
        and S.same(fu_cells[1][0], "-1") and S.same(fu_cells[1][1], S.env("fu")) and S.same(S.env("fu"), "FU[-1]")
    ctx.check(ok, "rescale (extendends): the nominal outer edges are saved before and restored after the clamp", fl_cells[1][2] if len(fl_cells) > 1 else fn)
    # interpolation of the cumulative curve at the output edges
    ip = S.calls("np.interp")
    ok = len(ip) == 2
    if ok:
        a, b = place(ip[0][1], ip[0][2], ["x", "xp", "fp"]), place(ip[1][1], ip[1][2], ["x", "xp", "fp"])
        ok = S.same(a["x"], "FL") and S.same(b["x"], "FU") and S.same(a["xp"], Fa) and S.same(b["xp"], Fa) and S.same(a["fp"], b["fp"]) \
            and S.same(a["fp"], F.fn("idx", need(ca), S.ev._index_value(ast.parse("x[:, i]", mode="eval").body.slice)))
    ctx.check(ok, "rescale: the same cumulative curve, over the same edge table, is interpolated at the lower and at the upper output edges", ip[0][3] if ip else fn)
    cal_c, cau_c = S.cells("cal"), S.cells("cau")
    ok = len(cal_c) == 1 and len(cau_c) == 1 and len(ip) == 2 and S.same(cal_c[0][1], S.ev.ev(ip[0][3])) and S.same(cau_c[0][1], S.ev.ev(ip[1][3]))
    ctx.check(ok, "rescale: cal holds the curve at the lower edges, cau at the upper edges", cal_c[0][2] if cal_c else fn)
    ns = S.ret()
    # psdoct (before the edges are restored) = (cau - cal) / (FU - FL); afterwards ms = psdoct * (FU - FL)
    ok = isinstance(ns, tuple) and len(ns) == 4 and S.same(ns[0], "(cau - cal) * (1 / (FU - FL).reshape(-1, 1))") \
        and S.same(ns[3], "((cau - cal) * (1 / (FU - FL).reshape(-1, 1))) * (FU - FL).reshape(-1, 1)") and S.same(ns[2], F.fn("call:np.sum", need(ns[3]), F.fn("kw:axis", F.const(0)))) \
        and S.same(ns[1], "Wctr")
    ctx.check(ok, "rescale: band PSD = (curve at upper edge - curve at lower edge) / band width; the reported mean square is PSD * nominal band width and its "
                  "sum is the returned total", S.ret_node(), None if ok else [repr(x)[:200] for x in (ns if isinstance(ns, tuple) else [ns])])


RULES = [
    ("C19-R1", r1_area, 8),
    ("C19-R2", r2_interp, 4),
    ("C19-R3", r3_resample, 11),
    ("C19-R4", r4_rescale, 7),
]
LEVEL = "other"
EXPLANATION = ("Static: psd.area's general formula is the exact integral of the log-log interpolant (symbolic identity), the special case is its s -> -1 limit and is "
               "selected by a window centred on the general formula's own denominator, all segments/columns are accumulated; psd.interp's log/exp pairing; "
               "dsp.resample's lag removal / decimation index arithmetic (first kept index = M for every p/q).")
MANIFEST = {
    "text": "Thin partial claim decided statically: (R1) psd.area segment formulas (exact integral, limit, selector centred on the singularity, full coverage and "
            "accumulation); (R2) psd.interp log/exp pairing and in-range mask; (R3) dsp.resample keeps samples M + q k of the filter output, pads M/2 both sides, "
            "restores the mean, reduces p/q by gcd; (R4) psd.rescale's band mean squares are differences of one cumulative curve tabulated at the input band "
            "edges, divided by the same band widths, with the outer edges clamped to input band edges and restored. Not decided: resample's interpolation accuracy, "
            "fixtime's nearest-sample semantics, get_freq_oct band tables (value-level).",
    "note": "Trusted: CPython ast; verifier/e2_formula.py (exp/log, series); scipy interp1d / lfilter semantics.",
    "technique": "static formula extraction with exact symbolic integral/limit check; slice-composition index arithmetic",
}
