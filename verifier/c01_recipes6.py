"""C01 break / neutral recipes of pass 6 (C01-R14, the elastic regime switch is scale-free).  The breaks replace the damping-ratio quantity w2/wo2 of
the under / critical / over switch by a quantity that changes under a pure time rescale of the mode (round-6 seed L and siblings); the neutrals spell the
same scale-free quantity differently.  Imported by recipes_c01.py."""

U = "pyyeti/ode/_utilities.py"
RAT = "        rat = w2[pvel] / wo2[pvel]\n"
SW = ("        pvundr[pvel] = rat >= 1.0e-8\n"
      "        pvcrit[pvel] = abs(rat) < 1.0e-8\n"
      "        pvover[pvel] = rat <= -1e-8\n")
R14 = ["C01-R14"]

RECIPES6 = [
    ("C01", "break", R14, U, RAT, "        rat = w2[pvel]\n", "round-6 seed L: the regime switch looks at w2 instead of w2/wo2 (absolute instead of relative)"),
    ("C01", "break", R14, U, RAT, "        rat = w2[pvel] / 39.47841760435743\n", "sibling of seed L: the switch looks at the squared damped frequency in Hz (still absolute)"),
    ("C01", "break", R14, U, RAT, "        rat = w2[pvel] / wo2[pvel] ** 2\n", "sibling of seed L: one power of wo2 too many (degree -2 in the time unit)"),
    ("C01", "break", R14, U, RAT + SW,
     "        rat = w2[pvel] / wo2[pvel]\n        w2el = w2[pvel]\n        pvundr[pvel] = rat >= 1.0e-8\n"
     "        pvcrit[pvel] = abs(w2el) < 1.0e-8\n        pvover[pvel] = (rat <= -1e-8) & ~pvcrit[pvel]\n        pvundr[pvel] &= ~pvcrit[pvel]\n",
     "sibling of seed L: only the critical band is absolute, the two others give way to it"),
    ("C01", "neutral", [], U, RAT, "        w2el = w2[pvel]\n        rat = w2el / wo2[pvel]\n", "numerator through a temporary"),
    ("C01", "neutral", [], U, RAT, "        rat = 1.0 / (wo2[pvel] / w2[pvel])\n" if False else "        rat = (w2 / wo2)[pvel]\n", "ratio formed before the selection"),
]
