"""C16-R8: form_extreme must not modify the events it envelopes (ownership of the SRS envelope arrays).

Two halves, both decided on values:

* init_extreme_cat is executed on symbols (c16_interp, heap with aliasing) and the storage its result's `srs.ext` refers to is classified against
  the first event's `oldcat.srs.ext`: FRESH (copy.deepcopy, or a dict built on the path whose values are copies), SHARED (the same dict, dict(),
  copy.copy, `.copy()` of the dict, OrderedDict(): new container, same arrays) or UNKNOWN.
* every function of the form_extreme family (the method, its nested helpers and the same-module functions they call) is scanned for *in-place
  writes* (`out=` keyword or positional, np.copyto / np.putmask / np.place / np.put, `.fill` / `.sort` / ..., subscript stores, augmented
  assignments) whose target, after following local bindings by value, is an array held in a `<category>.srs.ext` dict.  The category is the
  incoming event (reached from the function's results dict: a violation whatever init_extreme_cat does), the envelope (an entry of a container
  created here / the result of init_extreme_cat: a violation iff its arrays may be the first event's, i.e. init SHARED or a store
  `env.srs.ext[Q] = <event array>` without a copy), or unknown (undecided, exit 2).

Each half alone is harmless (shallow copy + rebinding `_ext[Q] = np.fmax(_ext[Q], S)`; deep copy + `out=_ext[Q]`): only the combination writes
the envelope into the first event's own `srs.ext[Q]`, after which that category's SRS envelope is no longer the maximum over its cases.
"""
from __future__ import annotations

import ast

from .c16_interp import Interp, show
from .c16_ext import Agg, good_paths, params, raise_anchor, RES

SHALLOW = ("dict", "copy.copy", ".copy", "OrderedDict", "collections.OrderedDict", "types.MappingProxyType")
ARRAY_COPY = (".copy", "np.copy", "np.array", "copy.deepcopy", "copy.copy", ".astype")
BIN_UFUNCS = {"fmax", "fmin", "maximum", "minimum", "add", "subtract", "multiply", "divide", "true_divide", "power", "hypot", "copysign", "where_"}
UN_UFUNCS = {"abs", "absolute", "negative", "sqrt", "square", "fabs", "nan_to_num_", "positive", "sign", "exp", "log"}
FIRST_ARG_WRITERS = {"copyto", "putmask", "place", "put", "fill_diagonal", "put_along_axis"}
WRITING_METHODS = {"fill", "sort", "put", "itemset", "partition", "resize", "byteswap", "setfield", "clip_"}
FRESH_NP = {"fmax", "fmin", "maximum", "minimum", "where", "copy", "array", "add", "subtract", "multiply", "divide", "abs", "absolute", "nanmax", "nanmin",
            "max", "min", "amax", "amin", "zeros", "zeros_like", "empty", "empty_like", "full", "full_like", "ones", "ones_like", "stack", "vstack",
            "hstack", "concatenate", "negative", "sqrt", "square"}


# ------------------------------------------------------------------------------------------------ init_extreme_cat: whose arrays?
def _init_class(ctx, A):
    fn = ctx.src.func(RES, "DR_Results.init_extreme_cat")
    pr = params(fn, True)
    if len(pr) < 2:
        raise_anchor("init_extreme_cat(self, cases, oldcat, ...)")
    oldcat = pr[1]
    I = Interp(ctx, RES, "DR_Results.init_extreme_cat")
    paths = good_paths(ctx, I)
    OSRS = ("attr", ("s", oldcat), "srs")
    SRC = ("attr", OSRS, "ext")

    def arr_class(P, v):
        o = P.obj(v)
        nv = P.norm(v)
        if o is not None and o.origin and o.origin[0] == "call":
            if o.origin[1] in ARRAY_COPY and o.origin[1] != "copy.copy" or (o.origin[1] == "copy.copy" and o.kind == "arr"):
                return "FRESH"
            return "UNKNOWN"
        if nv[0] == "call" and nv[1] in ARRAY_COPY:
            return "FRESH"
        if nv[0] == "op":
            return "FRESH"
        if nv[0] in ("idx", "elem", "ld") and SRC in _sub(nv):
            return "SHARED"
        return "UNKNOWN"

    def dict_class(P, v):
        nv = P.norm(v)
        o = P.obj(v)
        if nv == SRC:
            return "SHARED"
        og = o.origin if o is not None else nv
        if og and og[0] == "call":
            if og[1] == "copy.deepcopy":
                return "FRESH"
            if og[1] in SHALLOW and og[2] and P.norm(og[2][0]) == SRC and (o is None or not o.items):
                return "SHARED"
        if o is not None and o.kind == "dict" and o.items and getattr(o, "closed", True):
            cl = {arr_class(P, x) for x in o.items.values()}
            if cl == {"FRESH"}:
                return "FRESH"
            if "SHARED" in cl:
                return "SHARED"
        return "UNKNOWN"

    out = set()
    for P in paths:
        o = P.obj(P.ret)
        if o is None:
            out.add("UNKNOWN")
            continue
        s = o.fields.get("srs")
        if s is None:
            continue                    # a category without spectra
        so = P.obj(s)
        if so is None:
            out.add("SHARED" if P.norm(s) == OSRS else "UNKNOWN")
            continue
        if "ext" in so.fields:
            out.add(dict_class(P, so.fields["ext"]))
        elif so.origin and so.origin[0] == "call" and so.origin[1] == "copy.deepcopy":
            out.add("FRESH")
        elif so.origin and so.origin[0] == "call" and so.origin[1] == "copy.copy" and so.origin[2] and P.norm(so.origin[2][0]) == OSRS:
            out.add("SHARED")
        else:
            out.add("UNKNOWN")
    A.req("init_extreme_cat: the rule is bound to a path that creates the SRS envelope of the extreme category", True if out else None, fn, nontrivial=False)
    if "SHARED" in out:
        return "SHARED", fn
    if out == {"FRESH"}:
        return "FRESH", fn
    return "UNKNOWN", fn


def _sub(t, out=None):
    out = set() if out is None else out
    if isinstance(t, tuple) and t:
        out.add(t)
        for x in t[1:]:
            if isinstance(x, tuple):
                _sub(x, out)
    return out


# ------------------------------------------------------------------------------------------------ the form_extreme family
def _dotted(n):
    parts = []
    while isinstance(n, ast.Attribute):
        parts.append(n.attr)
        n = n.value
    if isinstance(n, ast.Name):
        parts.append(n.id)
        return ".".join(reversed(parts))
    return None


def _own_nodes(fn):
    """nodes of a function body without the bodies of nested definitions"""
    stack = list(fn.body)
    while stack:
        n = stack.pop()
        yield n
        if isinstance(n, (ast.FunctionDef, ast.AsyncFunctionDef, ast.Lambda, ast.ClassDef)):
            continue
        stack.extend(ast.iter_child_nodes(n))


class Scope:
    """local bindings of one function, by value: a name stands for the expression(s) it was bound to"""

    def __init__(self, fn, sites=None):
        self.fn = fn
        self.sites = sites if sites is not None else []       # (caller scope, call node): parameters stand for the callers' argument values
        a = fn.args
        self.params = [x.arg for x in a.posonlyargs + a.args + a.kwonlyargs]
        self.binds = {}
        for n in _own_nodes(fn):
            if isinstance(n, ast.Assign):
                for tg in n.targets:
                    self._bind(tg, n.value)
            elif isinstance(n, ast.AnnAssign) and n.value is not None:
                self._bind(n.target, n.value)
            elif isinstance(n, ast.NamedExpr):
                self._bind(n.target, n.value)
            elif isinstance(n, (ast.For, ast.comprehension)):
                self._bind_iter(n.target, n.iter)
            elif isinstance(n, ast.withitem) and n.optional_vars is not None:
                self._bind(n.optional_vars, n.context_expr)
            elif isinstance(n, ast.AugAssign) and isinstance(n.target, ast.Name):
                pass                    # arrays: in place, the name keeps its storage

    def _add(self, name, term):
        self.binds.setdefault(name, []).append(term)

    def _bind(self, tg, value):
        if isinstance(tg, ast.Name):
            self._add(tg.id, ("expr", value))
        elif isinstance(tg, (ast.Tuple, ast.List)):
            if isinstance(value, (ast.Tuple, ast.List)) and len(value.elts) == len(tg.elts) and not any(isinstance(x, ast.Starred) for x in tg.elts + value.elts):
                for t_, v_ in zip(tg.elts, value.elts):
                    self._bind(t_, v_)
            else:
                for t_ in tg.elts:
                    t_ = t_.value if isinstance(t_, ast.Starred) else t_
                    if isinstance(t_, ast.Name):
                        self._add(t_.id, ("part", value))
                    elif isinstance(t_, (ast.Tuple, ast.List)):
                        self._bind(t_, value)

    def _bind_iter(self, tg, it):
        # for k, v in X.items() / for v in X.values() / for k, v in zip(..) / enumerate
        if isinstance(it, ast.Call) and isinstance(it.func, ast.Attribute) and it.func.attr in ("items", "values") and not it.args:
            if it.func.attr == "values" and isinstance(tg, ast.Name):
                self._add(tg.id, ("val", it.func.value))
                return
            if it.func.attr == "items" and isinstance(tg, (ast.Tuple, ast.List)) and len(tg.elts) == 2:
                for x in ast.walk(tg.elts[0]):
                    if isinstance(x, ast.Name) and isinstance(x.ctx, ast.Store):
                        self._add(x.id, ("key",))
                if isinstance(tg.elts[1], ast.Name):
                    self._add(tg.elts[1].id, ("val", it.func.value))
                    return
                tg = tg.elts[1]
        for x in ast.walk(tg):
            if isinstance(x, ast.Name) and isinstance(x.ctx, ast.Store):
                self._add(x.id, ("part", it))

    def term(self, n, depth=0):
        """access path of an expression: ('param', p) | ('new', callee) | ('attr', t, name) | ('idx', t) | ('val', t) | ('multi', ts) | ('?',)"""
        if depth > 12:
            return ("?",)
        if isinstance(n, ast.NamedExpr):
            return self.term(n.value, depth + 1)
        if isinstance(n, ast.Name):
            bs = self.binds.get(n.id)
            if not bs:
                if n.id in self.params and self.sites:
                    ts = []
                    for cs, call in self.sites:
                        ps = list(self.params)
                        if isinstance(call.func, ast.Attribute) and ps and ps[0] in ("self", "cls"):
                            ps = ps[1:]
                        a = None
                        if n.id in ps and ps.index(n.id) < len(call.args) and not any(isinstance(x, ast.Starred) for x in call.args):
                            a = call.args[ps.index(n.id)]
                        for kw in call.keywords:
                            if kw.arg == n.id:
                                a = kw.value
                        t = cs.term(a, depth + 2) if a is not None else ("?",)
                        if t not in ts:
                            ts.append(t)
                    return ts[0] if len(ts) == 1 else ("multi", tuple(ts))
                return ("param", n.id) if n.id in self.params else ("free", n.id)
            ts = []
            for b in bs:
                if b[0] == "expr":
                    t = self.term(b[1], depth + 1)
                elif b[0] == "val":
                    t = ("val", self.term(b[1], depth + 1))
                elif b[0] == "part":
                    t = ("part", self.term(b[1], depth + 1))
                else:
                    t = ("key",)
                if t not in ts:
                    ts.append(t)
            if n.id in self.params:
                ts.append(("param", n.id))
            return ts[0] if len(ts) == 1 else ("multi", tuple(ts))
        if isinstance(n, ast.Attribute):
            return ("attr", self.term(n.value, depth + 1), n.attr)
        if isinstance(n, ast.Subscript):
            return ("idx", self.term(n.value, depth + 1))
        if isinstance(n, ast.Call):
            d = _dotted(n.func)
            if d == "getattr" and len(n.args) >= 2 and isinstance(n.args[1], ast.Constant) and isinstance(n.args[1].value, str):
                return ("attr", self.term(n.args[0], depth + 1), n.args[1].value)
            if isinstance(n.func, ast.Attribute) and n.func.attr in ("get", "pop", "setdefault") and n.args:
                return ("idx", self.term(n.func.value, depth + 1))
            if d in ("np.asarray", "np.asanyarray", "np.atleast_1d", "np.atleast_2d", "np.squeeze", "np.ravel", "np.reshape", "np.transpose") and n.args:
                return self.term(n.args[0], depth + 1)              # may return its argument or a view of it
            if isinstance(n.func, ast.Attribute) and n.func.attr in ("view", "reshape", "ravel", "squeeze", "transpose") :
                return self.term(n.func.value, depth + 1)
            return ("new", d or "?", tuple(self.term(a, depth + 1) for a in n.args[:3]))
        if isinstance(n, ast.IfExp):
            return ("multi", (self.term(n.body, depth + 1), self.term(n.orelse, depth + 1)))
        if isinstance(n, (ast.BinOp, ast.UnaryOp, ast.Compare, ast.BoolOp)):
            return ("new", "arith", ())
        return ("?",)


def _alts(t):
    if t[0] == "multi":
        for x in t[1]:
            yield from _alts(x)
    elif t[0] in ("attr",):
        for x in _alts(t[1]):
            yield ("attr", x, t[2])
    elif t[0] in ("idx", "val", "part"):
        for x in _alts(t[1]):
            yield (t[0], x)
    else:
        yield t


def _env_array(t):
    """t is an array held in a `<category>.srs.ext` dict (or a part of one): returns the category term, else None"""
    while t[0] in ("idx", "val"):
        d = t[1]
        if d[0] == "attr" and d[2] == "ext" and d[1][0] == "attr" and d[1][2] == "srs":
            return d[1][1]
        t = d
    return None


def _env_dict(t):
    if t[0] == "attr" and t[2] == "ext" and t[1][0] == "attr" and t[1][2] == "srs":
        return t[1][1]
    return None


def _root_class(cat, results_params):
    """'event' | 'envelope' | 'unknown' for the category a `.srs.ext` dict belongs to"""
    t = cat
    through_container = False
    while True:
        if t[0] in ("idx", "val", "part"):
            through_container = True
            t = t[1]
        elif t[0] == "attr":
            t = t[1]
        else:
            break
    if t[0] == "new":
        if t[1].split(".")[-1] == "init_extreme_cat":
            return "envelope"
        if through_container and t[1].split(".")[-1] in ("DR_Results", "dict", "OrderedDict") and not t[2]:
            return "envelope"           # an entry of a results container created here: what init_extreme_cat made (or a row-expanded copy of it)
        return "unknown"
    if t[0] == "param" and t[1] in results_params and through_container:
        return "event"
    return "unknown"


def _writes(fn, S):
    """(node, target expression, how) of every in-place write made directly in fn"""
    for n in _own_nodes(fn):
        if isinstance(n, ast.Call):
            for kw in n.keywords:
                if kw.arg == "out" and not (isinstance(kw.value, ast.Constant) and kw.value.value is None):
                    for x in (kw.value.elts if isinstance(kw.value, ast.Tuple) else [kw.value]):
                        yield n, x, "out="
            d = _dotted(n.func) or ""
            last = d.split(".")[-1]
            if d.startswith(("np.", "numpy.")):
                if last in BIN_UFUNCS and len(n.args) >= 3:
                    yield n, n.args[2], "positional out"
                if last in UN_UFUNCS and len(n.args) >= 2:
                    yield n, n.args[1], "positional out"
                if last in FIRST_ARG_WRITERS and n.args:
                    yield n, n.args[0], f"np.{last}"
                if last == "at" and n.args:
                    yield n, n.args[0], d
            if isinstance(n.func, ast.Attribute) and n.func.attr in WRITING_METHODS:
                yield n, n.func.value, f".{n.func.attr}()"
        elif isinstance(n, ast.Assign):
            for tg in n.targets:
                for x in (tg.elts if isinstance(tg, (ast.Tuple, ast.List)) else [tg]):
                    if isinstance(x, ast.Subscript):
                        yield n, x.value, "subscript store"
        elif isinstance(n, ast.AugAssign):
            if isinstance(n.target, ast.Subscript):
                yield n, n.target, "augmented assignment"
                yield n, n.target.value, "augmented subscript store"
            elif isinstance(n.target, (ast.Name, ast.Attribute)):
                yield n, n.target, "augmented assignment"


def _family(ctx, top):
    """form_extreme, its nested functions and the same-module functions / methods they call by name (transitively)"""
    mod = ctx.src.mod(RES)
    fam, todo, seen = [], [top], set()
    sites = {}
    nested = {id(top)}
    while todo:
        f = todo.pop()
        if id(f) in seen:
            continue
        seen.add(id(f))
        fam.append(f)
        for n in _own_nodes(f):
            if isinstance(n, ast.Call) and isinstance(n.func, ast.Name):
                sites.setdefault(n.func.id, []).append((f, n))
            elif isinstance(n, ast.Call) and isinstance(n.func, ast.Attribute) and isinstance(n.func.value, ast.Name):
                sites.setdefault(n.func.attr, []).append((f, n))
        for n in ast.walk(f):
            if isinstance(n, (ast.FunctionDef, ast.AsyncFunctionDef)) and n is not f:
                todo.append(n)
                nested.add(id(n))
            elif isinstance(n, ast.Call):
                nm = n.func.attr if isinstance(n.func, ast.Attribute) else (n.func.id if isinstance(n.func, ast.Name) else None)
                if nm is None or nm in ("init_extreme_cat", "form_extreme"):
                    continue
                for q in (nm, f"DR_Results.{nm}"):
                    g = mod.funcs.get(q)
                    if g is not None and (isinstance(n.func, ast.Name) or q != nm):
                        if isinstance(n.func, ast.Attribute) and not (isinstance(n.func.value, ast.Name)):
                            continue
                        if q.startswith("DR_Results.") and nm in ("delete_extreme", "items", "values", "keys", "get", "pop", "copy", "update"):
                            continue
                        todo.append(g)
    # scopes: the nested helpers of form_extreme keep their parameters as roots (they receive the results tree or a level of it); functions of the
    # module that were reached through a call stand on the argument values of their call sites
    scopes = {}
    for f in fam:
        scopes[id(f)] = Scope(f)
    for f in fam:
        if id(f) not in nested:
            scopes[id(f)].sites = [(scopes[id(c)], call) for c, call in sites.get(f.name, []) if id(c) in scopes and c is not f]
    return [scopes[id(f)] for f in fam]


def r8_events_untouched(ctx):
    A = Agg(ctx)
    init, ifn = _init_class(ctx, A)
    top = ctx.src.func(RES, "DR_Results.form_extreme")
    fam = _family(ctx, top)
    k_evt = "form_extreme: no in-place write goes into an SRS envelope array of an incoming event (the events that are enveloped stay as they are)"
    k_env = ("form_extreme: an in-place write into the extreme category's srs.ext[Q] needs storage of its own (init_extreme_cat makes fresh copies and "
             "no store puts an event's array there): otherwise the envelope is written into the first event's own SRS envelope")
    k_bound = "form_extreme: the SRS envelope update of the extreme category is found (a store or in-place write into <category>.srs.ext[Q])"
    nupd = 0
    rebinding = []          # (node, class of the value stored into an envelope dict)
    inplace = []            # (node, how, root classes, text)
    rp_all = set()
    for S in fam:
        rp_all |= set(S.params)
    for S in fam:
        f = S.fn
        # the results dict of this function: a parameter that is iterated / indexed to reach categories; for the nested helpers of form_extreme it
        # is any parameter (they receive the results tree or a level of it), for `self`-methods `self`
        rp = rp_all
        for n, tgt, how in _writes(f, S):
            t = S.term(tgt)
            for alt in _alts(t):
                cat = _env_array(alt)
                if cat is None:
                    continue
                inplace.append((n, how, _root_class(cat, rp), ast.unparse(n)[:120]))
        for n in _own_nodes(f):
            if isinstance(n, ast.Assign):
                for tg in n.targets:
                    if not isinstance(tg, ast.Subscript):
                        continue
                    for alt in _alts(S.term(tg.value)):
                        cat = _env_dict(alt)
                        if cat is None:
                            continue
                        rc = _root_class(cat, rp)
                        vcl = set()
                        for va in _alts(S.term(n.value)):
                            if va[0] == "new":
                                nm = va[1].split(".")[-1]
                                mutating_self = any(kw.arg == "out" for kw in getattr(n.value, "keywords", []))
                                if mutating_self:
                                    vcl.add("same")
                                elif va[1] == "arith" or (va[1].startswith(("np.", "numpy.")) and nm in FRESH_NP) or nm in ("copy", "deepcopy"):
                                    vcl.add("fresh")
                                else:
                                    vcl.add("unknown")
                            elif _env_array(va) is not None:
                                vcl.add("shared-" + _root_class(_env_array(va), rp))
                            else:
                                vcl.add("unknown")
                        rebinding.append((n, rc, vcl, ast.unparse(n)[:120]))
    nupd = len(rebinding) + len(inplace)
    A.req(k_bound, True if nupd else None, top, "no update of a `.srs.ext[Q]` entry found in form_extreme, its helpers or the functions they call", nontrivial=False)
    env_shared = None
    why = None
    if init == "SHARED":
        env_shared, why = True, "init_extreme_cat hands the first event's own arrays to the extreme category (new container, same arrays)"
    for n, rc, vcl, txt in rebinding:
        if rc in ("envelope", "unknown") and "shared-event" in vcl:
            env_shared, why = True, f"`{txt}` puts an event's array into the extreme category without a copy"
    if env_shared is None:
        if init == "FRESH" and all(rc == "event" or not (vcl - {"fresh", "same"}) for n, rc, vcl, txt in rebinding):
            env_shared = False
    A.req(k_evt, True, top)
    A.req(k_env, True, ifn)
    for n, rc, vcl, txt in rebinding:
        if rc == "event":
            A.req(k_evt, False, n, f"`{txt}` replaces an entry of an event's srs.ext")
    for n, how, rc, txt in inplace:
        if rc == "event":
            A.req(k_evt, False, n, f"{how}: `{txt}` writes into the event's own array")
        elif rc == "envelope":
            A.req(k_env, (False if env_shared else None) if env_shared is not False else True, n,
                  f"{how}: `{txt}`; {why}" if env_shared else f"{how}: `{txt}`: whose storage the extreme category's srs.ext[Q] is could not be followed "
                  f"(init_extreme_cat: {init})")
        else:
            A.req(k_env, None, n, f"{how}: `{txt}`: the category that owns this srs.ext could not be followed to the envelope or to an event")
    A.flush(top)
