"""Concrete-shape symbolic interpreter for the C14 rules (helper of verifier/c14.py, used by verifier/c14_geo.py).

The C14 rules no longer look at *how* a function is written.  They run it: `Interp` executes the Python source of a function of
pyyeti/nastran/n2p.py on inputs whose **shapes are concrete and whose entries are formulas** (verifier/e2_formula.py) and hands the
returned value to the rule, which compares it with the geometric meaning.  Nothing of pyyeti / numpy is imported or executed; the
interpreter below is a model of the Python statements and of the numpy / pandas operations the anchored functions (and their plausible
re-implementations) use:

  * `Arr` - an n-d array of formulas with numpy's *view* semantics: basic indexing, `.T`, `reshape`, iteration over rows share storage with
    their base, so a store through an alias, a slice of a slice, a column view, `out=` or an in-place operator reaches the array it reaches in
    numpy; advanced (integer / boolean array) indexing copies; broadcasting, `@` / dot / matmul (stacks of matrices too), einsum, reductions,
    stacking / block / tile / kron / cross, sorting of constants;
  * Python values: tuples, lists (`LVal`), dicts (`DVal`), slices, `np.s_`, closures / lambdas / nested, module-level and recursive functions
    (`FuncVal`: defaults, keywords, star arguments, nonlocal), generators (run to their end when called), functools.partial / reduce, plain
    classes (methods, properties, class attributes), SimpleNamespace, bound methods, module constants, import aliases, local imports;
  * statements: assignment (tuple / star unpacking, chained subscripts, augmented in place), if / for / while (with else) / break / continue /
    return / raise / try / with / def / class / match / del / walrus / conditional expressions / comprehensions, `itertools.count`;
  * `Table` - the USET DataFrame with its (id, dof) MultiIndex: `.iloc`, `.loc`, `[...]`, `.index.get_level_values`, `.index.get_loc`,
    `.values` / `.to_numpy()`, `.shape`;
  * **run-time errors are values of the analysis**: an index out of range, a boolean mask of the wrong length, shapes that do not broadcast,
    a float where Python wants an integer (`FRat`: float literals and true divisions of constants), `None` used as an array, a local read
    before it is bound, an undefined name, a wrong number of values to unpack raise `PyError` - the rule reports them as a violation when the
    regime is shown to be reachable (`Run.sure`);
  * what is **not** modelled never becomes a verdict: an unknown call is an opaque application `call:name(args)` (recorded in `calls`; the rules
    refuse to judge a result that contains one), a keyword argument a model does not implement keeps the call opaque (never dropped), an
    opaque call that could modify a tracked array / list / dict, an unknown method of a tracked object, and every construct outside the list
    above raise `Unsupported` (ANALYSIS-ERROR, exit 2).

`explore` runs a function once per *regime*: a test that neither folds to a constant nor is decided by the rule's `truth` callback
splits the run in two (decisions are keyed by the *value* of the test, so the same question gets the same answer everywhere).

Known limits (exit 2, or - for the first - a possible wrong value): generators, map / zip / filter are evaluated eagerly (sound when the
producer only reads, or writes what the consumer does not touch in between); pandas beyond the operations listed; complex numbers; linear
solves / inverses; decorators other than functools caches; dataclasses / namedtuples / metaclasses; `global`; sorting of symbolic values;
a bare number compared with a list (`0 != [0, 0, 0]`) splits the regime: Python and numpy scalars answer differently."""
from __future__ import annotations

import ast
import itertools
import math
import os
from fractions import Fraction

from . import e2_formula as F
from . import c14_sem as G
from .core import Unsupported
from .e2_eval import Unknown, is_unknown, const_from_node

NONE, TRUE, FALSE = G.NONE, G.TRUE, G.FALSE
ELLIPSIS = F.sym("Ellipsis")
is_rat = G.is_rat
MAX_DEPTH = 14


# ------------------------------------------------------------------------------------------------------------------ values
class LVal:
    """a Python list (mutable, identity)"""
    __slots__ = ("items",)

    def __init__(self, items=()):
        self.items = list(items)

    def __repr__(self):
        return "L" + repr(self.items)


class DVal:
    """a Python dict with formula / string / tuple keys (insertion ordered)"""
    __slots__ = ("keys", "vals")

    def __init__(self):
        self.keys, self.vals = [], []

    def find(self, k):
        """index of the key, -1 when it is certainly absent, None when that cannot be decided"""
        sure = True
        for n, a in enumerate(self.keys):
            r = key_equal(a, k)
            if r is True:
                return n
            if r is None:
                sure = False
        return -1 if sure else None

    def set(self, k, v):
        n = self.find(k)
        if n is None:
            raise Unsupported("dict store under a key that cannot be compared with the present keys")
        if n >= 0:
            self.vals[n] = v
        else:
            self.keys.append(k)
            self.vals.append(v)


def key_equal(a, b):
    """three-valued equality of two dict keys / labels"""
    if isinstance(a, tuple) or isinstance(b, tuple):
        if not (isinstance(a, tuple) and isinstance(b, tuple)) or len(a) != len(b):
            return False
        rs = [key_equal(x, y) for x, y in zip(a, b)]
        if any(r is False for r in rs):
            return False
        return True if all(r is True for r in rs) else None
    if not is_rat(a) or not is_rat(b):
        return None
    if G.same(a, b):
        return True
    if literal_like(a) and literal_like(b):
        return False
    return None


def str_of(v):
    """python str behind the symbol of a string literal, else None"""
    d = G.single_atom(v) if is_rat(v) else None
    if d is not None and d[0] == "s" and len(d[1]) >= 2 and d[1][0] in "'\"" and d[1][-1] == d[1][0]:
        return ast.literal_eval(d[1])
    return None


def literal_like(v):
    return G.const_of(v) is not None or str_of(v) is not None or G.same(v, NONE) or G.same(v, TRUE) or G.same(v, FALSE)


def mkstr(s):
    return F.sym(repr(s))


class FuncVal:
    __slots__ = ("node", "closure", "defaults", "kwdefaults", "name")

    def __init__(self, node, closure, defaults, kwdefaults, name):
        self.node, self.closure, self.defaults, self.kwdefaults, self.name = node, closure, defaults, kwdefaults, name

    def __repr__(self):
        return f"<function {self.name}>"


class Builtin:
    """a library function / public function of the module named by its canonical dotted name"""
    __slots__ = ("name",)

    def __init__(self, name):
        self.name = name

    def __repr__(self):
        return f"<builtin {self.name}>"


class ModuleVal:
    __slots__ = ("name",)

    def __init__(self, name):
        self.name = name


class Bound:
    __slots__ = ("obj", "name")

    def __init__(self, obj, name):
        self.obj, self.name = obj, name


class PartialVal:
    """functools.partial(f, *args, **kwargs)"""
    __slots__ = ("func", "args", "kwargs")

    def __init__(self, func, args, kwargs):
        self.func, self.args, self.kwargs = func, args, kwargs


class NSVal:
    """types.SimpleNamespace: a bag of attributes"""
    __slots__ = ("attrs",)

    def __init__(self):
        self.attrs = {}


class ClassVal:
    """a plain class: methods and class attributes"""
    __slots__ = ("name", "attrs", "bases")

    def __init__(self, name, attrs, bases):
        self.name, self.attrs, self.bases = name, attrs, bases

    def find(self, name):
        if name in self.attrs:
            return self.attrs[name]
        for b in self.bases:
            r = b.find(name) if isinstance(b, ClassVal) else None
            if r is not None:
                return r
        return None


class InstVal:
    __slots__ = ("cls", "attrs")

    def __init__(self, cls):
        self.cls, self.attrs = cls, {}


class Wrapped:
    """staticmethod / classmethod / property around a function"""
    __slots__ = ("kind", "func")

    def __init__(self, kind, func):
        self.kind, self.func = kind, func


class IndexExpr:
    """np.s_ / np.index_exp: subscripting it gives the index itself"""
    __slots__ = ("kind",)

    def __init__(self, kind):
        self.kind = kind


class CountVal:
    """itertools.count(start, step)"""
    __slots__ = ("start", "step")

    def __init__(self, start, step):
        self.start, self.step = start, step


class Indexer:
    __slots__ = ("table", "kind")

    def __init__(self, table, kind):
        self.table, self.kind = table, kind


class IndexVal:
    """the (id, dof) MultiIndex of a Table"""
    __slots__ = ("ids", "dofs")

    def __init__(self, ids, dofs):
        self.ids, self.dofs = list(ids), list(dofs)


class Frame:
    __slots__ = ("env", "parent", "outer_names", "yields", "comp", "locals_")

    def __init__(self, parent=None, comp=False):
        self.locals_ = frozenset()     # names the function binds somewhere (Python: local from the start of the function)
        self.env = {}
        self.parent = parent
        self.outer_names = set()       # names declared nonlocal
        self.yields = None             # values yielded so far (generator functions are run to their end when they are called)
        self.comp = comp               # the scope of a comprehension


class _Return(Exception):
    def __init__(self, value):
        self.value = value


class _Break(Exception):
    pass


class _Continue(Exception):
    pass


class Raised(Exception):
    """the interpreted code executed a `raise`"""


class PyError(Exception):
    """the interpreted code does something Python / numpy answers with an exception on every input of the evaluated shape (an index out of
    range, a boolean mask of the wrong length, shapes that do not broadcast, a wrong number of values to unpack, ...)"""

    def __init__(self, kind, msg):
        super().__init__(f"{kind}: {msg}")
        self.kind = kind


# ------------------------------------------------------------------------------------------------------------------ arrays
def _strides(shape):
    st, k = [], 1
    for n in reversed(shape):
        st.append(k)
        k *= n
    return tuple(reversed(st))


def _prod(shape):
    k = 1
    for n in shape:
        k *= n
    return k


class Arr:
    """n-d array of formulas: `buf` is the storage (shared between an array and its views), `off` the storage offsets of the elements in
    C order, `shape` the shape"""
    __slots__ = ("buf", "off", "shape")

    def __init__(self, buf, off, shape):
        self.buf, self.off, self.shape = buf, list(off), tuple(shape)
        if len(self.off) != _prod(self.shape):
            raise Unsupported("array shape")

    @staticmethod
    def new(vals, shape):
        vals = list(vals)
        return Arr(vals, range(len(vals)), shape)

    @property
    def ndim(self):
        return len(self.shape)

    @property
    def size(self):
        return len(self.off)

    def flat(self):
        b = self.buf
        return [b[o] for o in self.off]

    def copy(self):
        return Arr.new(self.flat(), self.shape)

    def nested(self):
        vals = self.flat()

        def rec(shape, lo):
            if not shape:
                return vals[lo]
            step = _prod(shape[1:])
            return tuple(rec(shape[1:], lo + k * step) for k in range(shape[0]))
        return rec(self.shape, 0)

    def reshape(self, shape):
        shape = list(shape)
        if shape.count(-1) == 1:
            k = shape.index(-1)
            rest = _prod([n for n in shape if n != -1])
            if rest == 0 or self.size % rest:
                raise Unsupported("reshape")
            shape[k] = self.size // rest
        if any(n < 0 for n in shape) or _prod(shape) != self.size:
            raise PyError("ValueError", f"cannot reshape array of size {self.size} into shape {tuple(shape)}")
        shape = tuple(shape)
        ds = {b - a for a, b in zip(self.off, self.off[1:])}
        if shape == self.shape or len(ds) <= 1 or _squeezed(shape) == _squeezed(self.shape):
            return Arr(self.buf, self.off, shape)           # numpy returns a view
        return Arr.new(self.flat(), shape)

    def transpose(self, axes=None):
        nd = self.ndim
        axes = tuple(reversed(range(nd))) if axes is None else tuple(a % nd for a in axes)
        if sorted(axes) != list(range(nd)):
            raise Unsupported("transpose axes")
        st = _strides(self.shape)
        nshape = tuple(self.shape[a] for a in axes)
        off = []
        for ix in itertools.product(*[range(n) for n in nshape]):
            off.append(self.off[sum(i * st[a] for i, a in zip(ix, axes))])
        return Arr(self.buf, off, nshape)

    def rows(self):
        """iteration along the first axis: scalars or views"""
        if self.ndim == 0:
            raise Unsupported("iteration over a 0-d array")
        if self.ndim == 1:
            return self.flat()
        step = _prod(self.shape[1:])
        return [Arr(self.buf, self.off[k * step:(k + 1) * step], self.shape[1:]) for k in range(self.shape[0])]

    # ---------------------------------------------------------------- indexing
    def positions(self, key):
        pos, shp, basic = resolve_index(self.shape, key)
        return [self.off[p] for p in pos], shp, basic

    def get(self, key):
        offs, shp, basic = self.positions(key)
        if shp == ():
            return self.buf[offs[0]]
        if basic:
            return Arr(self.buf, offs, shp)
        return Arr.new([self.buf[o] for o in offs], shp)

    def set(self, key, value):
        offs, shp, _ = self.positions(key)
        vals = bflat(value, shp)
        for o, v in zip(offs, vals):
            self.buf[o] = v

    def __repr__(self):
        return "Arr" + repr(self.nested())


def _squeezed(shape):
    return tuple(n for n in shape if n != 1)


def is_boolish(v):
    return is_rat(v) and (G.same(v, TRUE) or G.same(v, FALSE))


def as_arr(x):
    """array of a nested Python value (tuples / lists / arrays / scalars); ragged input is Unsupported"""
    if isinstance(x, Arr):
        return x
    if isinstance(x, Table):
        return x.data
    if isinstance(x, LVal):
        x = tuple(x.items)
    if isinstance(x, tuple):
        items = [as_arr(i) for i in x]
        if not items:
            return Arr.new([], (0,))
        sh = items[0].shape
        if any(i.shape != sh for i in items):
            raise Unsupported("ragged array")
        vals = []
        for i in items:
            vals.extend(i.flat())
        return Arr.new(vals, (len(items),) + sh)
    if is_rat(x) or is_unknown(x):
        return Arr.new([x], ())
    raise Unsupported(f"array of a {type(x).__name__}")


def unbox(a):
    return a.buf[a.off[0]] if isinstance(a, Arr) and a.shape == () else a


def bshape(s1, s2):
    out = []
    for a, b in itertools.zip_longest(reversed(s1), reversed(s2), fillvalue=1):
        if a == b or b == 1:
            out.append(a)
        elif a == 1:
            out.append(b)
        else:
            raise PyError("ValueError", f"operands could not be broadcast together with shapes {tuple(s1)} {tuple(s2)}")
    return tuple(reversed(out))


def bflat(value, shape):
    """the values of `value` broadcast to `shape`, C order"""
    a = as_arr(value)
    if a.shape == tuple(shape):
        return a.flat()
    if bshape(a.shape, shape) != tuple(shape):
        raise PyError("ValueError", f"could not broadcast input array from shape {a.shape} into shape {tuple(shape)}")
    vals = a.flat()
    if a.size == 1:
        return vals * _prod(shape)
    pad = (1,) * (len(shape) - a.ndim) + a.shape
    st = _strides(pad)
    out = []
    for ix in itertools.product(*[range(n) for n in shape]):
        out.append(vals[sum((i if p != 1 else 0) * s for i, p, s in zip(ix, pad, st))])
    return out


def resolve_index(shape, key):
    """numpy indexing -> (logical flat positions in C order of the result, result shape, basic indexing?)"""
    items = list(key) if isinstance(key, tuple) else [key]
    ents = []                    # ('int', i) | ('slice', lo, hi, st) | ('adv', Arr of ints) | ('new',) | ('ell',)
    for k in items:
        if isinstance(k, (LVal, tuple)):
            k = as_arr(k)
        if isinstance(k, Arr):
            vals = k.flat()
            if k.size and all(is_boolish(v) for v in vals):
                hits = [ix for ix, v in zip(itertools.product(*[range(n) for n in k.shape]), vals) if G.same(v, TRUE)]
                for ax in range(k.ndim):
                    ents.append(("adv", Arr.new([F.const(h[ax]) for h in hits], (len(hits),)), k.shape[ax]))
                continue
            ks = [G.int_of(v) if is_rat(v) else None for v in vals]
            if any(x is None for x in ks):
                if any(is_rat(v) and G.fold_bool(v) is None and G.int_of(v) is None for v in vals):
                    raise Unsupported("index array with undecided entries")
                raise Unsupported("index array that is not integer")
            ents.append(("adv", k, None))
            continue
        if is_rat(k):
            if G.same(k, NONE):
                ents.append(("new",))
                continue
            if G.same(k, ELLIPSIS):
                ents.append(("ell",))
                continue
            s = G.as_slice(k)
            if s is not None:
                parts = []
                for p in s:
                    if p is None:
                        parts.append(None)
                    else:
                        if isinstance(p, FRat):
                            raise PyError("TypeError", "slice indices must be integers")
                        q = G.int_of(p)
                        if q is None:
                            raise Unsupported("slice bound that is not an integer constant")
                        parts.append(q)
                ents.append(("slice",) + tuple(parts))
                continue
            if isinstance(k, FRat):
                raise PyError("IndexError", "only integers, slices, ellipsis, newaxis and integer or boolean arrays are valid indices")
            q = G.int_of(k)
            if q is None:
                raise Unsupported("index that is not an integer constant")
            ents.append(("int", q))
            continue
        raise Unsupported(f"index of type {type(k).__name__}")
    used = sum(1 for e in ents if e[0] in ("int", "slice", "adv"))
    if used > len(shape):
        raise PyError("IndexError", f"too many indices for array: array is {len(shape)}-dimensional, but {used} were indexed")
    if any(e[0] == "ell" for e in ents):
        k = next(i for i, e in enumerate(ents) if e[0] == "ell")
        ents[k:k + 1] = [("slice", None, None, None)] * (len(shape) - used)
        if any(e[0] == "ell" for e in ents):
            raise Unsupported("two ellipses")
    else:
        ents += [("slice", None, None, None)] * (len(shape) - used)
    has_adv = any(e[0] == "adv" for e in ents)
    # bind every entry to its axis
    ax = 0
    bound = []
    for e in ents:
        if e[0] == "new":
            bound.append(("new",))
            continue
        n = shape[ax]
        if e[0] == "int":
            i = e[1]
            if not -n <= i < n:
                raise PyError("IndexError", f"index {i} is out of bounds for axis {ax} with size {n}")
            i %= n
            bound.append(("adv", ax, (), [i]) if has_adv else ("int", ax, i))
        elif e[0] == "slice":
            bound.append(("slice", ax, range(*slice(e[1], e[2], e[3]).indices(n))))
        else:
            if e[2] is not None and e[2] != n:
                raise PyError("IndexError", f"boolean index did not match indexed array along axis {ax}; size of axis is {n} but size of "
                                            f"corresponding boolean axis is {e[2]}")
            ks = [G.int_of(v) for v in e[1].flat()]
            if any(not -n <= i < n for i in ks):
                raise PyError("IndexError", f"index {[i for i in ks if not -n <= i < n][0]} is out of bounds for axis {ax} with size {n}")
            bound.append(("adv", ax, e[1].shape, [i % n for i in ks]))
        ax += 1
    st = _strides(shape)
    if not has_adv:
        dims, out_shape, base = [], [], 0
        for b in bound:
            if b[0] == "int":
                base += b[2] * st[b[1]]
            elif b[0] == "slice":
                dims.append([i * st[b[1]] for i in b[2]])
                out_shape.append(len(b[2]))
            else:
                dims.append([0])
                out_shape.append(1)
        pos = [base + sum(c) for c in itertools.product(*dims)]
        return pos, tuple(out_shape), True
    advs = [b for b in bound if b[0] == "adv"]
    B = ()
    for b in advs:
        B = bshape(B, b[2])
    adv_vals = [bflat(Arr.new([F.const(i) for i in b[3]], b[2]), B) for b in advs]
    adv_vals = [[G.int_of(v) for v in vs] for vs in adv_vals]
    where = [i for i, b in enumerate(bound) if b[0] == "adv"]
    adjacent = where[-1] - where[0] + 1 == len(where)
    pre = [b for b in bound[:where[0]] if b[0] != "adv"] if adjacent else []
    post = [b for i, b in enumerate(bound) if b[0] != "adv" and (i > where[0] if adjacent else True)]

    def dims_of(bs):
        ds, shp = [], []
        for b in bs:
            if b[0] == "slice":
                ds.append([i * st[b[1]] for i in b[2]])
                shp.append(len(b[2]))
            else:
                ds.append([0])
                shp.append(1)
        return ds, shp
    d1, s1 = dims_of(pre)
    d2, s2 = dims_of(post)
    nB = _prod(B)
    advpos = [sum(adv_vals[j][k] * st[advs[j][1]] for j in range(len(advs))) for k in range(nB)]
    pos = []
    for c1 in itertools.product(*d1):
        for k in range(nB):
            for c2 in itertools.product(*d2):
                pos.append(sum(c1) + advpos[k] + sum(c2))
    return pos, tuple(s1) + tuple(B) + tuple(s2), False


# ------------------------------------------------------------------------------------------------------------ scalar algebra
def s_add(a, b):
    return a + b


def s_sub(a, b):
    return a - b


def s_mul(a, b):
    return a * b


class FRat(F.Rat):
    """a constant that is a Python / numpy *float* (a float literal or the result of a true division of constants): usable everywhere as
    a number, but not where Python insists on an integer (range, shapes, indices, slice bounds).  Arithmetic gives plain formulas again
    (the mark is lost, never invented)."""
    __slots__ = ()


def as_float(v):
    return FRat(v.n, v.d) if is_rat(v) and v.is_const() and not isinstance(v, FRat) else v


def no_float(v):
    return F.Rat(v.n, v.d) if isinstance(v, FRat) else v


def s_div(a, b):
    if b.is_zero():
        raise Unsupported("division by zero")
    return as_float(a / b)


def s_pow(a, b):
    return a ** b


def s_floordiv(a, b):
    ca, cb = G.const_of(a), G.const_of(b)
    if ca is not None and cb is not None and cb != 0:
        return F.const(ca // cb)
    return F.fn("floordiv", a, b)


def s_mod(a, b):
    ca, cb = G.const_of(a), G.const_of(b)
    if ca is not None and cb is not None and cb != 0:
        return F.const(ca % cb)
    return F.fn("mod", a, b)


def s_abs(x):
    c = G.const_of(x)
    if c is not None:
        return F.const(abs(c))
    p = G.fn_parts(x)
    if p is not None and p[0] == "abs":
        return x
    return F.fn("abs", x)


def s_not(x):
    b = G.fold_bool(x)
    if b is not None:
        return FALSE if b else TRUE
    p = G.fn_parts(x)
    if p is not None and p[0] == "not":
        q = G.fn_parts(p[1][0])
        if q is not None and (q[0].startswith("cmp:") or q[0] in ("not", "bool:And", "bool:Or", "any", "all")):
            return p[1][0]
    return F.fn("not", x)


def lift1(f, v):
    """apply a scalar function element-wise"""
    if isinstance(v, (tuple, LVal)):
        v = as_arr(v)
    if isinstance(v, Arr):
        return Arr.new([_safe1(f, x) for x in v.flat()], v.shape)
    return _safe1(f, v)


def _safe1(f, x):
    if is_unknown(x):
        return x
    if not is_rat(x):
        return Unknown(f"operand of type {type(x).__name__}")
    try:
        return f(x)
    except Unsupported as e:
        return Unknown(str(e))


def _safe2(f, x, y):
    if is_unknown(x):
        return x
    if is_unknown(y):
        return y
    if not is_rat(x) or not is_rat(y):
        return Unknown("operand that is not a number")
    try:
        return f(x, y)
    except Unsupported as e:
        return Unknown(str(e))


def lift2(f, a, b):
    """apply a scalar binary function with numpy broadcasting"""
    if isinstance(a, (Arr, tuple, LVal, Table)) or isinstance(b, (Arr, tuple, LVal, Table)):
        x, y = as_arr(a), as_arr(b)
        shp = bshape(x.shape, y.shape)
        xs, ys = bflat(x, shp), bflat(y, shp)
        return unbox(Arr.new([_safe2(f, p, q) for p, q in zip(xs, ys)], shp))
    return _safe2(f, a, b)


def matmul(a, b):
    if is_unknown(a) or is_unknown(b):
        return a if is_unknown(a) else b
    if not isinstance(a, (Arr, tuple, LVal, Table)) or not isinstance(b, (Arr, tuple, LVal, Table)):
        if is_rat(a) and is_rat(b) and (a.is_const() or b.is_const()):
            return a * b
        return Unknown("matrix product with an operand that is not an array")
    x, y = as_arr(a), as_arr(b)
    if x.ndim == 0 or y.ndim == 0:
        raise PyError("ValueError", "matmul: input operand does not have enough dimensions")
    if x.ndim > 2 or y.ndim > 2:
        # stacks of matrices: the leading axes broadcast, the last two are multiplied
        x2 = x if x.ndim >= 2 else x.reshape((1, x.size))
        y2 = y if y.ndim >= 2 else y.reshape((y.size, 1))
        lead = bshape(x2.shape[:-2], y2.shape[:-2])
        nx, ny = x2.shape[-2:], y2.shape[-2:]
        xs = bflat(x2, lead + nx)
        ys = bflat(y2, lead + ny)
        out, kx, ky = [], nx[0] * nx[1], ny[0] * ny[1]
        for k in range(_prod(lead)):
            r = matmul(Arr.new(xs[k * kx:(k + 1) * kx], nx), Arr.new(ys[k * ky:(k + 1) * ky], ny))
            out.extend(as_arr(r).flat())
        res = Arr.new(out, lead + (nx[0], ny[1]))
        if x.ndim == 1:
            res = res.reshape(lead + (ny[1],))
        elif y.ndim == 1:
            res = res.reshape(lead + (nx[0],))
        return res
    X = x.nested() if x.ndim == 2 else (x.nested(),)
    Y = y.nested() if y.ndim == 2 else tuple((v,) for v in y.nested())
    if len(X[0]) != len(Y) if X else True:
        raise PyError("ValueError", f"matmul: shapes {x.shape} and {y.shape} do not match")
    out = []
    for r in X:
        for c in range(len(Y[0])):
            tot = F.const(0)
            for k in range(len(Y)):
                p, q = r[k], Y[k][c]
                if is_unknown(tot):
                    break
                if is_unknown(p) or is_unknown(q):
                    tot = p if is_unknown(p) else q
                    break
                tot = tot + p * q
            out.append(tot)
    shp = ((x.shape[0],) if x.ndim == 2 else ()) + ((y.shape[1],) if y.ndim == 2 else ())
    return unbox(Arr.new(out, shp))


def reduce_axis(a, axis, f):
    """f(list of values) along one axis (or over everything for axis None)"""
    a = as_arr(a)
    if axis is None:
        return f(a.flat())
    axis %= a.ndim
    moved = a.transpose([k for k in range(a.ndim) if k != axis] + [axis])
    n = a.shape[axis]
    vals = moved.flat()
    out = [f(vals[k:k + n]) for k in range(0, len(vals), n)] if n else [f([]) for _ in range(_prod(moved.shape[:-1]))]
    return unbox(Arr.new(out, moved.shape[:-1]))


def v_sum(vals):
    tot = F.const(0)
    for v in vals:
        if is_unknown(v):
            return v
        if is_rat(v) and (G.same(v, TRUE) or G.same(v, FALSE)):
            v = F.const(1 if G.same(v, TRUE) else 0)          # a sum of truth values counts them
        tot = tot + v
    return tot


def v_any(vals):
    rs = [G.fold_bool(v) if is_rat(v) else None for v in vals]
    if any(r is True for r in rs):
        return TRUE
    if all(r is False for r in rs):
        return FALSE
    rest = [v for v, r in zip(vals, rs) if r is None]
    if any(not is_rat(v) for v in rest):
        return Unknown("any() of unknown values")
    return F.fn("any", F.fn("tuple", *rest))


def v_all(vals):
    rs = [G.fold_bool(v) if is_rat(v) else None for v in vals]
    if any(r is False for r in rs):
        return FALSE
    if all(r is True for r in rs):
        return TRUE
    rest = [v for v, r in zip(vals, rs) if r is None]
    if any(not is_rat(v) for v in rest):
        return Unknown("all() of unknown values")
    return F.fn("all", F.fn("tuple", *rest))


def v_extreme(which):
    def f(vals):
        if not vals:
            raise Unsupported("max / min of nothing")
        cs = [G.const_of(v) if is_rat(v) else None for v in vals]
        if all(c is not None for c in cs):
            return F.const(max(cs) if which == "max" else min(cs))
        if any(not is_rat(v) for v in vals):
            return Unknown("max / min of unknown values")
        if len(vals) == 1:
            return vals[0]
        return F.fn("call:" + which, *sorted(vals, key=lambda v: repr(G.vkey(v))))
    return f


def wrap(v):
    """a value as the argument of an opaque application"""
    if isinstance(v, Arr):
        return wrap(v.nested())
    if isinstance(v, Table):
        return wrap(v.data)
    if isinstance(v, LVal):
        return wrap(tuple(v.items))
    if isinstance(v, tuple):
        return F.fn("tuple", *[wrap(x) for x in v])
    if is_rat(v):
        return v
    if isinstance(v, FuncVal):
        return F.sym(f"<function {v.name}>")
    if isinstance(v, Builtin):
        return F.sym(f"<function {v.name}>")
    if is_unknown(v):
        raise Unsupported(v.why)
    raise Unsupported(f"value of type {type(v).__name__} inside an opaque application")


def to_nested(v):
    """rule-side view of a result: arrays / lists as nested tuples"""
    if isinstance(v, Arr):
        return v.nested()
    if isinstance(v, Table):
        return v.data.nested()
    if isinstance(v, LVal):
        return tuple(to_nested(x) for x in v.items)
    if isinstance(v, tuple):
        return tuple(to_nested(x) for x in v)
    return v


# ------------------------------------------------------------------------------------------------------------------- table
class Table:
    """the USET DataFrame: `data` (n, ncols) array, (id, dof) MultiIndex, column labels"""
    __slots__ = ("data", "ids", "dofs", "cols")

    def __init__(self, data, ids, dofs, cols=("nasset", "x", "y", "z")):
        self.data, self.ids, self.dofs, self.cols = data, list(ids), list(dofs), tuple(cols)
        if data.ndim != 2 or data.shape[0] != len(self.ids) or data.shape[1] != len(self.cols):
            raise Unsupported("table shape")

    def take(self, rows, cols=None):
        cols = list(range(len(self.cols))) if cols is None else cols
        key = (Arr.new([F.const(r) for r in rows], (len(rows), 1)), Arr.new([F.const(c) for c in cols], (1, len(cols))))
        offs, shp, _ = self.data.positions(key)
        return Table(Arr(self.data.buf, offs, shp), [self.ids[r] for r in rows], [self.dofs[r] for r in rows], [self.cols[c] for c in cols])

    def iloc(self, key):
        items = list(key) if isinstance(key, tuple) else [key]
        if len(items) > 2:
            raise Unsupported("iloc with more than two indices")
        rk = items[0]
        ck = items[1] if len(items) == 2 else G.slice_value(None, None, None)
        rows = _axis_select(len(self.ids), rk)
        cols = _axis_select(len(self.cols), ck)
        if isinstance(rows, int) and isinstance(cols, int):
            return self.data.get((F.const(rows), F.const(cols)))
        if isinstance(rows, int):
            return self.take([rows], cols).data.reshape((len(cols),))
        if isinstance(cols, int):
            return self.take(rows, [cols]).data.reshape((len(rows),))
        return self.take(rows, cols)

    def loc(self, key):
        if isinstance(key, tuple) and len(key) == 2 and _is_colkey(key[1]):
            rk, ck = key
        else:
            rk, ck = key, G.slice_value(None, None, None)
        rows = self._rows_by_label(rk)
        cols = self._cols_by_label(ck)
        if isinstance(rows, int) and isinstance(cols, int):
            return self.data.get((F.const(rows), F.const(cols)))
        if isinstance(rows, int):
            return self.take([rows], cols).data.reshape((len(cols),))
        if isinstance(cols, int):
            return self.take(rows, [cols]).data.reshape((len(rows),))
        return self.take(rows, cols)

    def _cols_by_label(self, ck):
        s = str_of(ck) if is_rat(ck) else None
        if s is not None:
            if s not in self.cols:
                raise Unsupported(f"column {s!r}")
            return self.cols.index(s)
        sl = G.as_slice(ck) if is_rat(ck) else None
        if sl is not None:
            if sl[2] is not None:
                raise Unsupported("label slice with a step")
            lo = 0 if sl[0] is None else self._col(sl[0])
            hi = len(self.cols) - 1 if sl[1] is None else self._col(sl[1])
            return list(range(lo, hi + 1))
        if isinstance(ck, (LVal, tuple)):
            return [self._col(x) for x in (ck.items if isinstance(ck, LVal) else ck)]
        raise Unsupported("column label")

    def _col(self, v):
        s = str_of(v)
        if s is None or s not in self.cols:
            raise Unsupported("column label")
        return self.cols.index(s)

    def _rows_by_label(self, rk):
        if is_rat(rk):
            sl = G.as_slice(rk)
            if sl is not None:
                if sl != (None, None, None):
                    raise Unsupported("row label slice")
                return list(range(len(self.ids)))
        if isinstance(rk, Arr):
            return _axis_select(len(self.ids), rk)
        if isinstance(rk, tuple) and len(rk) == 2:
            def match(label, want):
                if is_rat(want) and G.as_slice(want) == (None, None, None):
                    return True
                r = key_equal(label, want)
                if r is None:
                    raise Unsupported("index label that cannot be compared")
                return r
            hits = [n for n in range(len(self.ids)) if match(self.ids[n], rk[0]) and match(self.dofs[n], rk[1])]
            exact = not any(is_rat(w) and G.as_slice(w) is not None for w in rk)
            if exact:
                if len(hits) != 1:
                    raise PyError("KeyError", "row label that does not select exactly one row")
                return hits[0]
            return hits
        raise Unsupported("row label")


def _is_colkey(v):
    if isinstance(v, LVal):
        return all(is_rat(x) and str_of(x) is not None for x in v.items)
    if not is_rat(v):
        return False
    if str_of(v) is not None:
        return True
    sl = G.as_slice(v)
    return sl is not None and all(p is None or str_of(p) is not None for p in sl)


def _axis_select(n, k):
    """positional selection along one axis: int for a scalar index, list of ints otherwise"""
    pos, shp, _ = resolve_index((n,), k)
    if shp == ():
        return pos[0]
    if len(shp) != 1:
        raise Unsupported("two-dimensional positional index")
    return pos


# ------------------------------------------------------------------------------------------------------------- interpreter
class Shared:
    def __init__(self):
        self.asked = []        # (value of the test, node, decision)
        self.divs = []         # (numerator, denominator, node) of every evaluated scalar division
        self.div_results = []  # the quotient object of each entry of `divs` (None when the division itself failed)
        self.calls = []        # (name, [positional values], {keyword: value}, node) of calls that stayed opaque or were hooked
        self.cells = []        # (object value, index, stored value, node) of stores into opaque objects
        self.assumed = []      # (value of the test, decision) of every test that was answered by the regime split, not by its value
        self.discarded = []    # values computed for np.where and not selected (under a condition that is not a constant)
        self.tests = []        # (node, outcome) of every test in the order it was made, constant ones included (for reports only)
        self.counter = 0
        self.generic_loops = 0

    def fresh(self):
        self.counter += 1
        return self.counter


MODULE_ALIASES = {"numpy": "np", "scipy.linalg": "linalg", "numpy.linalg": "np.linalg", "la": "linalg", "pyyeti.locate": "locate",
                  "pyyeti.ytools": "ytools"}
CONST_NAMES = {"np.pi": F.sym("pi"), "math.pi": F.sym("pi"), "np.newaxis": NONE, "math.inf": F.sym("inf"), "np.inf": F.sym("inf")}
SUBMODULES = {"np.linalg", "scipy.linalg", "scipy", "np.random", "np.ma"}
IDENT_METHODS = {"astype", "copy", "to_numpy", "squeeze", "view", "__array__", "item", "conj", "conjugate", "tolist_none"}
IDENT_ATTRS = {"values", "real", "array", "flat_none"}


class ModuleScope:
    """module-level names of the interpreted file: functions, names bound once to an expression, import aliases"""

    def __init__(self, interp, mod):
        self.mod = mod
        self.frame = Frame(None)
        self.nodes = {}
        self.cache = {}
        self.public = set()
        self.bound = set()         # every name the module binds at its top level, however (a name outside it is a NameError)
        self.star = False
        stack = list(mod.tree.body)
        while stack:
            n = stack.pop()
            if isinstance(n, (ast.FunctionDef, ast.AsyncFunctionDef, ast.ClassDef)):
                self.bound.add(n.name)
                continue
            if isinstance(n, (ast.Import, ast.ImportFrom)):
                for a in n.names:
                    if a.name == "*":
                        self.star = True
                    self.bound.add((a.asname or a.name).split(".")[0])
                continue
            for ch in ast.walk(n):
                if isinstance(ch, ast.Name) and isinstance(ch.ctx, ast.Store):
                    self.bound.add(ch.id)
                elif isinstance(ch, (ast.Import, ast.ImportFrom)):
                    stack.append(ch)
                elif isinstance(ch, ast.ExceptHandler) and ch.name:
                    self.bound.add(ch.name)
                elif isinstance(ch, (ast.Global,)):
                    self.star = True
        for st in mod.tree.body:
            if isinstance(st, ast.FunctionDef):
                self.nodes.setdefault(st.name, []).append(("def", st))
            elif isinstance(st, ast.ClassDef):
                self.nodes.setdefault(st.name, []).append(("class", st))
            elif isinstance(st, ast.Assign) and len(st.targets) == 1 and isinstance(st.targets[0], ast.Name):
                self.nodes.setdefault(st.targets[0].id, []).append(("assign", st.value))
                if st.targets[0].id == "__all__" and isinstance(st.value, (ast.List, ast.Tuple)):
                    self.public |= {e.value for e in st.value.elts if isinstance(e, ast.Constant) and isinstance(e.value, str)}
            elif isinstance(st, ast.AnnAssign) and isinstance(st.target, ast.Name) and st.value is not None:
                self.nodes.setdefault(st.target.id, []).append(("assign", st.value))
            elif isinstance(st, ast.Import):
                for a in st.names:
                    self.nodes.setdefault((a.asname or a.name).split(".")[0], []).append(("module", a.name if a.asname else a.name.split(".")[0]))
            elif isinstance(st, ast.ImportFrom) and st.module:
                for a in st.names:
                    self.nodes.setdefault(a.asname or a.name, []).append(("from", st.module + "." + a.name))


def canon_module(name):
    for k, v in MODULE_ALIASES.items():
        if name == k or name.startswith(k + "."):
            return v + name[len(k):]
    return name


PY_BUILTINS = set(dir(__import__("builtins")))
HARMLESS_DECORATORS = {"lru_cache", "cache", "wraps", "staticmethod", "classmethod", "property", "njit", "jit"}
KNOWN_MODULES = {"np", "math", "linalg", "itertools", "copy", "warnings", "sys", "pd", "scipy", "locate", "ytools", "np.linalg", "pandas",
                 "functools", "operator", "types", "bisect"}


class Interp:
    def __init__(self, ctx, rel, truth=None, decisions=None, hook=None, stops=(), inline_public=(), shared=None):
        self.ctx, self.rel = ctx, rel
        self.truth = truth
        self.decisions = decisions
        self.hook = hook
        self.stops = set(stops)
        self.inline_public = set(inline_public)
        self.sh = shared or Shared()
        self.scope = ModuleScope(self, ctx.src.mod(rel))
        self.depth = 0
        self.raised = False
        self.ret = None

    # ---------------------------------------------------------------- names
    def lookup(self, name, fr):
        f = fr
        while f is not None:
            if name in f.env:
                return f.env[name]
            if name in f.locals_ and name not in f.outer_names:
                raise PyError("UnboundLocalError", f"local variable '{name}' referenced before assignment")
            f = f.parent
        return self.module_name(name)

    def module_name(self, name):
        sc = self.scope
        if name in sc.cache:
            v = sc.cache[name]
            if v is None:
                raise Unsupported(f"module constant {name} is defined in terms of itself")
            return v
        defs = sc.nodes.get(name)
        val = None
        if defs and len(defs) == 1:
            kind, what = defs[0]
            if kind == "def":
                if name in self.stops or (name in sc.public and name not in self.inline_public):
                    val = Builtin(name)
                else:
                    val = self.make_func(what, sc.frame)
            elif kind == "class":
                val = self.make_class(what, sc.frame)
            elif kind == "assign":
                sc.cache[name] = None
                val = self.eval(what, sc.frame)
            elif kind == "module":
                val = ModuleVal(canon_module(what))
            elif kind == "from":
                full = canon_module(what)
                val = ModuleVal(full) if full in KNOWN_MODULES or full.split(".")[-1] in ("linalg", "locate", "ytools") else self.member(full)
        elif defs and all(k == "def" for k, _ in defs):
            val = Builtin(name)
        if val is None:
            if name in LIB or name in PY_BUILTINS:
                val = Builtin(name)
            elif name not in sc.bound and not sc.star and not (name.startswith("__") and name.endswith("__")):
                raise PyError("NameError", f"name '{name}' is not defined")
            else:
                val = F.sym(name)
        sc.cache[name] = val
        return val

    def member(self, full):
        if full in CONST_NAMES:
            return CONST_NAMES[full]
        if full in SUBMODULES:
            return ModuleVal(canon_module(full))
        if full in ("np.s_", "np.index_exp", "np.r_", "np.c_"):
            return IndexExpr(full)
        return Builtin(full)

    def make_func(self, node, fr):
        for d in getattr(node, "decorator_list", []):
            nm = d.func if isinstance(d, ast.Call) else d
            nm = getattr(nm, "attr", getattr(nm, "id", None))
            if nm not in HARMLESS_DECORATORS:
                raise Unsupported(f"decorator `{_src(d)}` on {node.name}")
        a = node.args
        defaults = [self.eval(d, fr) for d in a.defaults]
        kwdefaults = [None if d is None else self.eval(d, fr) for d in a.kw_defaults]
        return FuncVal(node, fr, defaults, kwdefaults, getattr(node, "name", "<lambda>"))

    def assign_name(self, name, v, fr):
        if name in fr.outer_names:
            f = fr.parent
            while f is not None:
                if name in f.env:
                    f.env[name] = v
                    return
                f = f.parent
            raise Unsupported(f"nonlocal {name}")
        fr.env[name] = v

    # ---------------------------------------------------------------- decisions
    def pytruth(self, v):
        if isinstance(v, (tuple,)):
            return len(v) > 0
        if isinstance(v, LVal):
            return len(v.items) > 0
        if isinstance(v, DVal):
            return len(v.keys) > 0
        if isinstance(v, (FuncVal, Builtin, ModuleVal, Table, Bound, IndexVal, CountVal, PartialVal, NSVal, ClassVal, InstVal)):
            return True
        if isinstance(v, Arr):
            if v.size != 1:
                raise Unsupported("truth value of an array with more than one element")
            return None
        return None

    def decide(self, v, node, split=True):
        """truth of a value used as a test; an undecided atom of the test splits the regime (NeedDecision)"""
        if isinstance(v, Arr) and v.size == 1:
            v = v.flat()[0]
        if is_unknown(v):
            raise Unsupported(f"test `{_src(node)}`: {v.why}")
        if not is_rat(v):
            r = self.pytruth(v)
            if r is None:
                raise Unsupported(f"truth of `{_src(node)}`")
            return r
        pending = []

        def atom(x):
            r = G.fold_bool(x)
            if r is None and self.truth is not None:
                r = self.truth(x, node, self)
            if r is None:
                p = G.fn_parts(x)
                if p is not None and p[0] in ("not", "bool:And", "bool:Or"):
                    return None         # composed by truth_of
                if self.decisions is not None:
                    k = G.vkey(x)
                    if k in self.decisions:
                        r = self.decisions[k]
                        self.sh.assumed.append((x, r))
                    else:
                        pending.append((k, x))
            if r is not None:
                self.sh.asked.append((x, node, r))
            return r
        r = G.truth_of(v, atom)
        if r is not None:
            self.sh.tests.append((node, r))
            return r
        if not split or self.decisions is None:
            return None
        if pending:
            raise G.NeedDecision(pending[0][0], node)
        raise Unsupported(f"test `{_src(node)}` cannot be decided")

    # ---------------------------------------------------------------- expressions
    def eval(self, node, fr):
        m = getattr(self, "e_" + type(node).__name__, None)
        if m is None:
            raise Unsupported(f"expression {type(node).__name__}")
        return m(node, fr)

    def e_Constant(self, node, fr):
        v = node.value
        if v is None:
            return NONE
        if v is True:
            return TRUE
        if v is False:
            return FALSE
        if v is Ellipsis:
            return ELLIPSIS
        if isinstance(v, str):
            return mkstr(v)
        if isinstance(v, int):
            return F.const(const_from_node(node, self.ctx.src))
        if isinstance(v, float):
            return as_float(F.const(const_from_node(node, self.ctx.src)))
        if isinstance(v, complex):
            return F.I * F.const(Fraction(repr(v.imag)))
        raise Unsupported(f"constant {v!r}")

    def e_Name(self, node, fr):
        return self.lookup(node.id, fr)

    def e_Tuple(self, node, fr):
        return tuple(self.seq_items(node.elts, fr))

    def e_List(self, node, fr):
        return LVal(self.seq_items(node.elts, fr))

    def e_Set(self, node, fr):
        return LVal(self.seq_items(node.elts, fr))

    def seq_items(self, elts, fr):
        out = []
        for e in elts:
            if isinstance(e, ast.Starred):
                out.extend(self.iterate(self.eval(e.value, fr), e))
            else:
                out.append(self.eval(e, fr))
        return out

    def e_Dict(self, node, fr):
        d = DVal()
        for k, v in zip(node.keys, node.values):
            if k is None:
                src = self.eval(v, fr)
                if not isinstance(src, DVal):
                    raise Unsupported("** of a value that is not a dict")
                for a, b in zip(src.keys, src.vals):
                    d.set(a, b)
            else:
                d.set(self.eval(k, fr), self.eval(v, fr))
        return d

    def e_JoinedStr(self, node, fr):
        return F.fn("text", f"#{self.sh.fresh()}")

    def e_Lambda(self, node, fr):
        return self.make_func(node, fr)

    def e_NamedExpr(self, node, fr):
        v = self.eval(node.value, fr)
        tgt = fr
        while tgt.comp and tgt.parent is not None:
            tgt = tgt.parent           # a walrus inside a comprehension binds in the enclosing function
        self.assign(node.target, v, tgt, node)
        return v

    def e_IfExp(self, node, fr):
        c = self.decide(self.eval(node.test, fr), node.test)
        return self.eval(node.body if c else node.orelse, fr)

    def e_Starred(self, node, fr):
        raise Unsupported("starred expression")

    def _gen_frame(self, fr):
        while fr is not None and fr.comp:
            fr = fr.parent
        if fr is None or fr.yields is None:
            raise Unsupported("yield outside a generator function")
        return fr

    def e_Yield(self, node, fr):
        self._gen_frame(fr).yields.append(NONE if node.value is None else self.eval(node.value, fr))
        return NONE

    def e_YieldFrom(self, node, fr):
        self._gen_frame(fr).yields.extend(self.iterate(self.eval(node.value, fr), node))
        return NONE

    def e_Attribute(self, node, fr):
        return self.attr(self.eval(node.value, fr), node.attr, node)

    def attr(self, v, name, node):
        if isinstance(v, ModuleVal):
            return self.member(v.name + "." + name)
        if isinstance(v, Table):
            if name == "shape":
                return tuple(F.const(n) for n in v.data.shape)
            if name in ("values", "T"):
                return v.data if name == "values" else v.data.transpose()
            if name == "index":
                return IndexVal(v.ids, v.dofs)
            if name in ("iloc", "loc"):
                return Indexer(v, name)
            if name == "columns":
                return tuple(mkstr(c) for c in v.cols)
            if name in v.cols:
                return v.take(list(range(len(v.ids))), [v.cols.index(name)]).data.reshape((len(v.ids),))
            return Bound(v, name)
        if isinstance(v, (tuple, LVal)) and name in ("T", "shape", "ndim", "size"):
            v = as_arr(v)
        if isinstance(v, Arr):
            if name == "T":
                return v.transpose()
            if name == "shape":
                return tuple(F.const(n) for n in v.shape)
            if name == "ndim":
                return F.const(v.ndim)
            if name == "size":
                return F.const(v.size)
            if name in IDENT_ATTRS:
                return v
            if name == "flat":
                return v.reshape((v.size,))
            return Bound(v, name)
        if is_rat(v):
            if G.same(v, NONE):
                raise PyError("AttributeError", f"'NoneType' object has no attribute '{name}'")
            if name in IDENT_ATTRS or name == "T":
                return v
            if not _objectlike(v):
                if name == "shape":
                    return ()
                if name == "ndim":
                    return F.const(0)
                if name == "size":
                    return F.const(1)
            return F.fn("attr:" + name, v)
        if is_unknown(v):
            return v
        if isinstance(v, NSVal):
            if name not in v.attrs:
                raise PyError("AttributeError", name)
            return v.attrs[name]
        if isinstance(v, InstVal):
            return self.inst_attr(v, name, node)
        if isinstance(v, ClassVal):
            r = v.find(name)
            if r is None:
                raise PyError("AttributeError", f"type object '{v.name}' has no attribute '{name}'")
            if isinstance(r, Wrapped):
                return r.func if r.kind == "staticmethod" else PartialVal(r.func, [v], {})
            return r
        return Bound(v, name)

    def e_UnaryOp(self, node, fr):
        v = self.eval(node.operand, fr)
        if isinstance(node.op, ast.USub):
            return lift1(lambda x: -x, v)
        if isinstance(node.op, ast.UAdd):
            return v
        if isinstance(node.op, ast.Invert):
            return lift1(s_not, v)
        if isinstance(node.op, ast.Not):
            if is_rat(v):
                return s_not(v)
            r = self.decide(v, node.operand)
            return FALSE if r else TRUE
        raise Unsupported("unary operator")

    def e_BoolOp(self, node, fr):
        is_and = isinstance(node.op, ast.And)
        v = None
        for k, sub in enumerate(node.values):
            v = self.eval(sub, fr)
            if k == len(node.values) - 1:
                return v
            r = self.decide(v, sub)
            if r != is_and:
                return v
        return v

    def e_Compare(self, node, fr):
        left = self.eval(node.left, fr)
        result = None
        for op, cn in zip(node.ops, node.comparators):
            right = self.eval(cn, fr)
            r = self.compare(type(op).__name__, left, right, node)
            if result is None:
                result = r
            else:
                if not is_rat(result) or not is_rat(r):
                    raise Unsupported("chained comparison of arrays")
                a, b = G.fold_bool(result), G.fold_bool(r)
                if a is False or b is False:
                    result = FALSE
                elif a is True:
                    result = r
                elif b is True:
                    pass
                else:
                    result = F.fn("bool:And", result, r)
            left = right
        return result

    def compare(self, op, a, b, node):
        if is_unknown(a) or is_unknown(b):
            return a if is_unknown(a) else b
        if op in ("Is", "IsNot"):
            if is_rat(a) and is_rat(b):
                return G.compare(op, a, b)
            none_a, none_b = is_rat(a) and G.same(a, NONE), is_rat(b) and G.same(b, NONE)
            if none_a or none_b or (not is_rat(a) and not is_rat(b)):
                same = a is b
                return (TRUE if same else FALSE) if op == "Is" else (FALSE if same else TRUE)
            raise Unsupported("identity test of a formula and an object")
        if op in ("In", "NotIn"):
            if isinstance(b, DVal):
                items = b.keys
            elif isinstance(b, (tuple, LVal, Arr)):
                items = self.iterate(b, node)
            else:
                if is_rat(a) and is_rat(b):
                    return F.fn("cmp:In", a, b) if op == "In" else F.fn("not", F.fn("cmp:In", a, b))
                raise Unsupported("membership test")
            rs = [key_equal(x, a) for x in items]
            if any(r is True for r in rs):
                return TRUE if op == "In" else FALSE
            if all(r is False for r in rs):
                return FALSE if op == "In" else TRUE
            raise Unsupported("membership test that cannot be decided")
        if isinstance(a, (Arr, Table)) or isinstance(b, (Arr, Table)) or (isinstance(a, (tuple, LVal)) and isinstance(b, (tuple, LVal)) and False):
            return lift2(lambda x, y: G.compare(op, x, y), a, b)
        if isinstance(a, (tuple, LVal)) and isinstance(b, (tuple, LVal)) and op in ("Eq", "NotEq"):
            xs, ys = self.iterate(a, node), self.iterate(b, node)
            if len(xs) != len(ys):
                return FALSE if op == "Eq" else TRUE
            rs = [key_equal(x, y) if is_rat(x) and is_rat(y) else None for x, y in zip(xs, ys)]
            if any(r is False for r in rs):
                return FALSE if op == "Eq" else TRUE
            if all(r is True for r in rs):
                return TRUE if op == "Eq" else FALSE
            raise Unsupported("comparison of sequences that cannot be decided")
        if is_rat(a) and is_rat(b):
            return G.compare(op, a, b)
        num, seq = (a, b) if is_rat(a) else (b, a)
        if is_rat(num) and isinstance(seq, (tuple, LVal)) and not _objectlike(num) and str_of(num) is None:
            # a bare number against a list: a numpy scalar compares element-wise, a Python number is simply unequal - both callers exist,
            # so this is a question about the input (a regime split), not something to guess
            if self.decide(F.sym("<the number is a numpy scalar>"), node):
                return lift2(lambda x, y: G.compare(op, x, y), a, b)
            if op in ("Eq", "NotEq"):
                return FALSE if op == "Eq" else TRUE
            raise PyError("TypeError", f"'{op}' not supported between a number and a list")
        raise Unsupported(f"comparison of {type(a).__name__} and {type(b).__name__}")

    def e_BinOp(self, node, fr):
        a = self.eval(node.left, fr)
        b = self.eval(node.right, fr)
        return self.binop(node.op, a, b, node)

    def binop(self, op, a, b, node):
        if is_unknown(a) or is_unknown(b):
            return a if is_unknown(a) else b
        if (is_rat(a) and G.same(a, NONE)) or (is_rat(b) and G.same(b, NONE)):
            raise PyError("TypeError", f"unsupported operand type(s) for {type(op).__name__}: 'NoneType' (`{_src(node)}`)")
        if isinstance(op, ast.MatMult):
            return matmul(a, b)
        seq_a, seq_b = isinstance(a, (tuple, LVal)), isinstance(b, (tuple, LVal))
        if isinstance(op, ast.Add) and seq_a and seq_b:
            if type(a) is not type(b):
                raise Unsupported("concatenation of a list and a tuple")
            return a + b if isinstance(a, tuple) else LVal(a.items + b.items)
        if isinstance(op, ast.Mult) and (seq_a != seq_b) and is_rat(b if seq_a else a) and G.int_of(b if seq_a else a) is not None:
            s, n = (a, G.int_of(b)) if seq_a else (b, G.int_of(a))
            return s * n if isinstance(s, tuple) else LVal(s.items * n)
        if isinstance(op, ast.Mod) and is_rat(a) and str_of(a) is not None:
            return F.fn("text", f"#{self.sh.fresh()}")
        if isinstance(op, ast.Div):
            def div(x, y):
                self.sh.divs.append((x, y, node))
                self.sh.div_results.append(None)
                r = s_div(x, y)
                self.sh.div_results[-1] = r          # the quotient as an object: np.where may be seen to throw exactly this one away
                return r
            return lift2(div, a, b)
        f = {ast.Add: s_add, ast.Sub: s_sub, ast.Mult: s_mul, ast.Pow: s_pow, ast.FloorDiv: s_floordiv, ast.Mod: s_mod}.get(type(op))
        if f is None:
            if isinstance(op, (ast.BitAnd, ast.BitOr, ast.BitXor)):
                name = {ast.BitAnd: "bool:And", ast.BitOr: "bool:Or", ast.BitXor: "xor"}[type(op)]

                def bit(x, y):
                    p, q = G.fold_bool(x), G.fold_bool(y)
                    if p is not None and q is not None and (is_boolish(x) and is_boolish(y)):
                        r = (p and q) if name == "bool:And" else ((p or q) if name == "bool:Or" else (p != q))
                        return TRUE if r else FALSE
                    return F.fn(name, x, y)
                return lift2(bit, a, b)
            raise Unsupported(f"operator {type(op).__name__}")
        if not isinstance(a, (Arr, Table, tuple, LVal)) and not isinstance(b, (Arr, Table, tuple, LVal)) and not (is_rat(a) and is_rat(b)):
            raise Unsupported(f"operator {type(op).__name__} on {type(a).__name__} and {type(b).__name__}")
        return lift2(f, a, b)

    def e_Subscript(self, node, fr):
        base = self.eval(node.value, fr)
        key = self.eval_key(node.slice, fr)
        return self.getitem(base, key, node)

    def eval_key(self, sl, fr):
        if isinstance(sl, ast.Tuple):
            return tuple(self.eval_key(e, fr) for e in sl.elts)
        if isinstance(sl, ast.Slice):
            parts = []
            for p in (sl.lower, sl.upper, sl.step):
                if p is None:
                    parts.append(None)
                else:
                    v = self.eval(p, fr)
                    if isinstance(v, Arr) and v.size == 1:
                        v = v.flat()[0]
                    if not is_rat(v):
                        raise Unsupported("slice bound")
                    if isinstance(v, FRat):
                        raise PyError("TypeError", f"slice indices must be integers (`{_src(p)}`)")
                    parts.append(None if G.same(v, NONE) else v)
            return G.slice_value(*parts)
        return self.eval(sl, fr)

    def getitem(self, base, key, node):
        if is_unknown(base):
            return base
        if isinstance(base, Arr):
            return base.get(key)
        if isinstance(base, (tuple, LVal)):
            items = base if isinstance(base, tuple) else base.items
            if is_rat(key):
                s = G.as_slice(key)
                if s is not None:
                    ps = [None if p is None else G.int_of(p) for p in s]
                    if any(p is not None and q is None for p, q in zip(s, ps)):
                        raise Unsupported("slice of a sequence with a symbolic bound")
                    r = items[slice(*ps)]
                    return tuple(r) if isinstance(base, tuple) else LVal(r)
                k = G.int_of(key)
                if k is None:
                    raise Unsupported(f"index `{_src(node)}` of a sequence is not a constant")
                if not -len(items) <= k < len(items):
                    raise PyError("IndexError", f"sequence index out of range in `{_src(node)}`")
                return items[k]
            return as_arr(base).get(key)
        if isinstance(base, DVal):
            n = base.find(key)
            if n is None or n < 0:
                raise Unsupported(f"dict look-up `{_src(node)}`")
            return base.vals[n]
        if isinstance(base, Indexer):
            return base.table.iloc(key) if base.kind == "iloc" else base.table.loc(key)
        if isinstance(base, IndexExpr):
            if base.kind in ("np.s_", "np.index_exp"):
                return key
            parts = list(key) if isinstance(key, tuple) else [key]
            arrs = []
            for q in parts:
                sl = G.as_slice(q) if is_rat(q) else None
                if sl is not None:
                    ks = [None if x is None else G.int_of(x) for x in sl]
                    if ks[1] is None or any(x is not None and y is None for x, y in zip(sl, ks)):
                        raise Unsupported("np.r_ with a symbolic range")
                    arrs.append(as_arr(tuple(F.const(i) for i in range(ks[0] or 0, ks[1], ks[2] or 1))))
                else:
                    a_ = as_arr(q)
                    arrs.append(a_ if a_.ndim else a_.reshape((1,)))
            if base.kind == "np.r_":
                return _stack("concatenate")(self, [tuple(arrs)], {}, node)
            return _stack("column_stack")(self, [tuple(arrs)], {}, node)
        if isinstance(base, Table):
            s = str_of(key) if is_rat(key) else None
            if s is not None:
                return self.attr(base, s, node)
            if isinstance(key, Arr):
                return base.take(_axis_select(len(base.ids), key))
            if isinstance(key, LVal) and key.items and all(is_rat(k) and str_of(k) is not None for k in key.items):
                return base.take(list(range(len(base.ids))), base._cols_by_label(key))
            raise Unsupported("table subscript")
        if is_rat(base):
            if G.same(base, NONE):
                raise PyError("TypeError", f"'NoneType' object is not subscriptable (`{_src(node)}`)")
            return F.fn("idx", base, wrap(key))
        raise Unsupported(f"subscript of a {type(base).__name__}")

    def setitem(self, base, key, v, node):
        if isinstance(base, Arr):
            if isinstance(v, (LVal, tuple, Table)):
                v = as_arr(v)
            if not isinstance(v, Arr) and not is_rat(v) and not is_unknown(v):
                raise Unsupported("value stored into an array")
            base.set(key, v)
        elif isinstance(base, LVal):
            if is_rat(key) and G.int_of(key) is not None and -len(base.items) <= G.int_of(key) < len(base.items):
                base.items[G.int_of(key)] = v
            elif is_rat(key) and G.as_slice(key) is not None:
                ps = [None if p is None else G.int_of(p) for p in G.as_slice(key)]
                base.items[slice(*ps)] = self.iterate(v, node)
            else:
                raise Unsupported("list store")
        elif isinstance(base, DVal):
            base.set(key, v)
        elif is_rat(base):
            self.sh.cells.append((base, key, v, node))
        else:
            raise Unsupported(f"store into a {type(base).__name__}")

    # ---------------------------------------------------------------- comprehensions
    def _comp(self, node, fr, emit):
        sub = Frame(fr, comp=True)

        def rec(k):
            if k == len(node.generators):
                emit(sub)
                return
            g = node.generators[k]
            for x in self.iterate(self.eval(g.iter, sub), g.iter):
                self.assign(g.target, x, sub, g.target)
                if all(self.decide(self.eval(c, sub), c) for c in g.ifs):
                    rec(k + 1)
        rec(0)

    def e_ListComp(self, node, fr):
        out = []
        self._comp(node, fr, lambda sub: out.append(self.eval(node.elt, sub)))
        return LVal(out)

    e_GeneratorExp = e_ListComp
    e_SetComp = e_ListComp

    def e_DictComp(self, node, fr):
        d = DVal()
        self._comp(node, fr, lambda sub: d.set(self.eval(node.key, sub), self.eval(node.value, sub)))
        return d

    # ---------------------------------------------------------------- iteration
    def iterate(self, v, node, generic_ok=False):
        if isinstance(v, tuple):
            return list(v)
        if isinstance(v, LVal):
            return list(v.items)
        if isinstance(v, Arr):
            return v.rows()
        if isinstance(v, DVal):
            return list(v.keys)
        if isinstance(v, Table):
            return [mkstr(c) for c in v.cols]
        if isinstance(v, IndexVal):
            return [(a, b) for a, b in zip(v.ids, v.dofs)]
        if is_unknown(v):
            raise Unsupported(f"iteration over `{_src(node)}`: {v.why}")
        if generic_ok:
            return None
        raise Unsupported(f"iteration over `{_src(node)}` (not a sequence the evaluation knows)")

    # ---------------------------------------------------------------- calls
    def e_Call(self, node, fr):
        fn = node.func
        if isinstance(fn, ast.Attribute):
            obj = self.eval(fn.value, fr)
            if isinstance(obj, ModuleVal):
                f = self.member(obj.name + "." + fn.attr)
            elif isinstance(obj, (InstVal, ClassVal, NSVal)):
                f = self.attr(obj, fn.attr, fn)
            else:
                f = Bound(obj, fn.attr)
        else:
            f = self.eval(fn, fr)
        args = []
        for a in node.args:
            if isinstance(a, ast.Starred):
                args.extend(self.iterate(self.eval(a.value, fr), a))
            else:
                args.append(self.eval(a, fr))
        kwargs = {}
        for k in node.keywords:
            v = self.eval(k.value, fr)
            if k.arg is None:
                if not isinstance(v, DVal):
                    raise Unsupported("** of a value that is not a dict")
                for a, b in zip(v.keys, v.vals):
                    s = str_of(a)
                    if s is None:
                        raise Unsupported("** with a key that is not a string")
                    kwargs[s] = b
            else:
                kwargs[k.arg] = v
        return self.call(f, args, kwargs, node)

    def call(self, f, args, kwargs, node):
        if isinstance(f, FuncVal):
            return self.invoke(f, args, kwargs, node)
        if isinstance(f, Builtin):
            if self.hook is not None:
                r = self.hook(f.name, args, kwargs, node, self)
                if r is not NotImplemented:
                    return r
            impl = LIB.get(f.name)
            out = kwargs.get("out")
            if impl is not None and isinstance(out, Arr) and f.name.startswith("np.") and _kwargs_understood(f.name, {k: v for k, v in kwargs.items() if k != "out"}):
                # numpy's `out=`: the result is written into the given array (and returned)
                r = impl(self, args, {k: v for k, v in kwargs.items() if k != "out"}, node)
                if r is not NotImplemented:
                    vals = bflat(r, out.shape)
                    for o, v in zip(out.off, vals):
                        out.buf[o] = v
                    return out
            if impl is not None and _kwargs_understood(f.name, kwargs):
                r = impl(self, args, kwargs, node)
                if r is not NotImplemented:
                    return r
            return self.opaque_call(f.name, args, kwargs, node)
        if isinstance(f, Bound):
            return self.method(f.obj, f.name, args, kwargs, node)
        if isinstance(f, ClassVal):
            return self.instantiate(f, args, kwargs, node)
        if isinstance(f, PartialVal):
            kw = dict(f.kwargs)
            kw.update(kwargs)
            return self.call(f.func, list(f.args) + list(args), kw, node)
        if is_rat(f):
            if G.same(f, NONE) or f.is_const():
                raise PyError("TypeError", f"object is not callable (`{_src(node)}`)")
            d = G.single_atom(f)
            name = d[1] if d is not None and d[0] == "s" else f"<{f!r}>"
            if self.hook is not None:
                r = self.hook(name, args, kwargs, node, self)
                if r is not NotImplemented:
                    return r
            return self.opaque_call(name, args, kwargs, node)
        if is_unknown(f):
            return f
        raise Unsupported(f"call of a {type(f).__name__}")

    def opaque_call(self, name, args, kwargs, node, obj=None):
        # a call the evaluation has no model for is a value of its own - but only if it cannot have changed an object the evaluation tracks
        mutable = [v for v in list(args) + list(kwargs.values()) + ([obj] if obj is not None else [])
                   if isinstance(v, (Arr, LVal, DVal, InstVal, NSVal, Table))]
        if "out" in kwargs or name in MUTATORS or ".ndarray." in name or (mutable and not name.startswith(PURE_PREFIXES) and name not in PURE_NAMES):
            raise Unsupported(f"call of {name}, which is not modelled and may modify its argument")
        self.sh.calls.append((name, list(args), dict(kwargs), node))
        try:
            ws = ([wrap(obj)] if obj is not None else []) + [wrap(a) for a in args] + [F.fn("kw:" + k, wrap(v)) for k, v in kwargs.items()]
        except Unsupported:
            return F.fn("opaque", f"#{self.sh.fresh()}")
        return F.fn("call:" + name, *ws)

    def invoke(self, f, args, kwargs, node):
        if self.depth >= MAX_DEPTH:
            raise Unsupported(f"call depth (recursion?) at {f.name}")
        a = f.node.args
        fr = Frame(f.closure)
        fr.locals_ = _locals_of(f.node)
        params = [x.arg for x in a.posonlyargs + a.args]
        if len(args) > len(params) and not a.vararg:
            raise PyError("TypeError", f"too many arguments for {f.name}")
        for p, v in zip(params, args):
            fr.env[p] = v
        if a.vararg:
            fr.env[a.vararg.arg] = tuple(args[len(params):])
        kwonly = [x.arg for x in a.kwonlyargs]
        extra = DVal()
        for k, v in kwargs.items():
            if k in params or k in kwonly:
                if k in fr.env:
                    raise PyError("TypeError", f"argument {k} given twice to {f.name}")
                fr.env[k] = v
            elif a.kwarg:
                extra.set(mkstr(k), v)
            else:
                raise PyError("TypeError", f"unexpected keyword {k} for {f.name}")
        if a.kwarg:
            fr.env[a.kwarg.arg] = extra
        nd = len(f.defaults)
        for k, p in enumerate(params):
            if p not in fr.env:
                j = k - (len(params) - nd)
                if j < 0:
                    raise PyError("TypeError", f"missing argument {p} for {f.name}")
                fr.env[p] = f.defaults[j]
        for p, d in zip(kwonly, f.kwdefaults):
            if p not in fr.env:
                if d is None:
                    raise PyError("TypeError", f"missing keyword argument {p} for {f.name}")
                fr.env[p] = d
        if isinstance(f.node, ast.Lambda):
            self.depth += 1
            try:
                return self.eval(f.node.body, fr)
            finally:
                self.depth -= 1
        q = getattr(f.node, "_vqual", None)
        if q:
            self.ctx.src.funcs_consulted.add(f"{self.rel}:{q}")
        if _is_generator(f.node):
            fr.yields = []
        self.depth += 1
        try:
            self.run(f.node.body, fr)
        except _Return as r:
            if fr.yields is None:
                return r.value
        finally:
            self.depth -= 1
        if fr.yields is not None:
            return tuple(fr.yields)       # a generator: its values, produced eagerly (sound for generators that only read)
        return NONE

    def method(self, obj, name, args, kwargs, node):
        if is_unknown(obj):
            return obj
        if is_rat(obj) and G.same(obj, NONE):
            raise PyError("AttributeError", f"'NoneType' object has no attribute '{name}'")
        table = METHODS.get(type(obj))
        if isinstance(obj, tuple):
            table = METHODS[tuple]
        if kwargs and not _kwargs_understood("." + name, kwargs):
            raise Unsupported(f"method {name} with keyword(s) {sorted(kwargs)}")
        if table is not None and name in table:
            r = table[name](self, obj, args, kwargs, node)
            if r is not NotImplemented:
                return r
        if isinstance(obj, (tuple, LVal)) and name in METHODS[Arr]:
            r = METHODS[Arr][name](self, as_arr(obj), args, kwargs, node)
            if r is not NotImplemented:
                return r
        if is_rat(obj):
            if name in IDENT_METHODS and not args:
                return obj
            if name == "astype":
                return obj
            if self.hook is not None:
                r = self.hook("." + name, [obj] + list(args), kwargs, node, self)
                if r is not NotImplemented:
                    return r
            return self.opaque_call("." + name, args, kwargs, node, obj=obj)
        raise Unsupported(f"method {name} of a {type(obj).__name__}")

    # ---------------------------------------------------------------- statements
    def run(self, stmts, fr):
        for st in stmts:
            m = getattr(self, "s_" + type(st).__name__, None)
            if m is None:
                raise Unsupported(f"statement {type(st).__name__}")
            m(st, fr)

    def s_Expr(self, st, fr):
        if isinstance(st.value, ast.Constant):
            return
        self.eval(st.value, fr)

    def s_Pass(self, st, fr):
        pass

    s_Assert = s_Pass

    def s_Import(self, st, fr):
        for a in st.names:
            if a.asname:
                fr.env[a.asname] = ModuleVal(canon_module(a.name))
            else:
                fr.env[a.name.split(".")[0]] = ModuleVal(canon_module(a.name.split(".")[0]))

    def s_ImportFrom(self, st, fr):
        if not st.module or st.level:
            raise Unsupported("relative import inside a function")
        for a in st.names:
            if a.name == "*":
                raise Unsupported("star import inside a function")
            full = canon_module(st.module + "." + a.name)
            fr.env[a.asname or a.name] = ModuleVal(full) if full in KNOWN_MODULES else self.member(full)

    def s_Global(self, st, fr):
        raise Unsupported("global statement")

    def s_Nonlocal(self, st, fr):
        fr.outer_names |= set(st.names)

    def s_Delete(self, st, fr):
        for t in st.targets:
            if isinstance(t, ast.Name):
                fr.env.pop(t.id, None)
            else:
                raise Unsupported("del of an element")

    def s_Assign(self, st, fr):
        v = self.eval(st.value, fr)
        for t in st.targets:
            self.assign(t, v, fr, st)

    def s_AnnAssign(self, st, fr):
        if st.value is not None:
            self.assign(st.target, self.eval(st.value, fr), fr, st)

    def assign(self, t, v, fr, node):
        if isinstance(t, ast.Name):
            self.assign_name(t.id, v, fr)
        elif isinstance(t, (ast.Tuple, ast.List)):
            items = self.iterate(v, node) if not is_rat(v) else None
            if items is None:
                if any(isinstance(e, ast.Starred) for e in t.elts):
                    raise Unsupported("star unpacking of an opaque value")
                items = [F.fn("idx", v, F.const(k)) for k in range(len(t.elts))]
            stars = [k for k, e in enumerate(t.elts) if isinstance(e, ast.Starred)]
            if stars:
                k = stars[0]
                after = len(t.elts) - k - 1
                if len(items) < len(t.elts) - 1:
                    raise PyError("ValueError", "not enough values to unpack")
                parts = items[:k] + [LVal(items[k:len(items) - after])] + items[len(items) - after:]
                targets = [e.value if isinstance(e, ast.Starred) else e for e in t.elts]
            else:
                if len(items) != len(t.elts):
                    raise PyError("ValueError", f"unpacking {len(items)} values into {len(t.elts)} targets")
                parts, targets = items, t.elts
            for e, x in zip(targets, parts):
                self.assign(e, x, fr, node)
        elif isinstance(t, ast.Subscript):
            base = self.eval(t.value, fr)
            key = self.eval_key(t.slice, fr)
            self.setitem(base, key, v, node)
        elif isinstance(t, ast.Attribute):
            obj = self.eval(t.value, fr)
            if is_rat(obj):
                self.sh.cells.append((obj, mkstr("." + t.attr), v, node))
            elif isinstance(obj, (NSVal, InstVal)):
                obj.attrs[t.attr] = v
            else:
                raise Unsupported("attribute store")
        else:
            raise Unsupported(f"assignment target {type(t).__name__}")

    def s_AugAssign(self, st, fr):
        t = st.target
        if isinstance(t, ast.Name):
            cur = self.lookup(t.id, fr)
            v = self.eval(st.value, fr)
            if isinstance(cur, Arr):
                cur.set(G.slice_value(None, None, None) if cur.ndim else (), self.binop(st.op, cur, v, st))
                return                      # in place: every view / alias of the array sees it
            if isinstance(cur, LVal) and isinstance(st.op, ast.Add):
                cur.items.extend(self.iterate(v, st))
                return
            self.assign_name(t.id, self.binop(st.op, cur, v, st), fr)
        elif isinstance(t, ast.Subscript):
            base = self.eval(t.value, fr)
            key = self.eval_key(t.slice, fr)
            cur = self.getitem(base, key, t)
            v = self.eval(st.value, fr)
            self.setitem(base, key, self.binop(st.op, cur, v, st), st)
        elif isinstance(t, ast.Attribute):
            obj = self.eval(t.value, fr)
            cur = self.attr(obj, t.attr, t)
            v = self.eval(st.value, fr)
            if isinstance(cur, Arr):
                cur.set(G.slice_value(None, None, None) if cur.ndim else (), self.binop(st.op, cur, v, st))
            elif isinstance(obj, (NSVal, InstVal)):
                obj.attrs[t.attr] = self.binop(st.op, cur, v, st)
            else:
                raise Unsupported("augmented assignment to an attribute")
        else:
            raise Unsupported("augmented assignment target")

    def s_If(self, st, fr):
        c = self.decide(self.eval(st.test, fr), st.test)
        self.run(st.body if c else st.orelse, fr)

    def s_For(self, st, fr):
        it = self.eval(st.iter, fr)
        if isinstance(it, CountVal):
            k = it.start
            for _ in range(130):
                self.assign(st.target, k, fr, st)
                try:
                    self.run(st.body, fr)
                except _Break:
                    return
                except _Continue:
                    pass
                k = k + it.step
            raise Unsupported("loop over itertools.count that does not end within 130 iterations")
        items = self.iterate(it, st.iter, generic_ok=True)
        if items is None:
            self.sh.generic_loops += 1
            items = [F.sym(f"<elem {getattr(st, 'lineno', 0)}.{self.sh.fresh()}>")]
        broke = False
        for x in items:
            self.assign(st.target, x, fr, st)
            try:
                self.run(st.body, fr)
            except _Break:
                broke = True
                break
            except _Continue:
                continue
        if not broke:
            self.run(st.orelse, fr)

    def s_While(self, st, fr):
        for _ in range(400):
            if not self.decide(self.eval(st.test, fr), st.test):
                self.run(st.orelse, fr)
                return
            try:
                self.run(st.body, fr)
            except _Break:
                return
            except _Continue:
                continue
        raise Unsupported("while loop that does not end within 400 iterations")

    def s_Break(self, st, fr):
        raise _Break()

    def s_Continue(self, st, fr):
        raise _Continue()

    def s_Return(self, st, fr):
        raise _Return(NONE if st.value is None else self.eval(st.value, fr))

    def s_Raise(self, st, fr):
        raise Raised()

    def s_Try(self, st, fr):
        try:
            try:
                self.run(st.body, fr)
            except (Raised, PyError) as exc:
                hs = [h for h in st.handlers if _handles(h, exc)]
                if not hs:
                    raise
                h = hs[0]
                if h.name:
                    fr.env[h.name] = F.sym(f"<exception {self.sh.fresh()}>")
                self.run(h.body, fr)
            else:
                self.run(st.orelse, fr)
        finally:
            pass
        self.run(st.finalbody, fr)

    def s_Match(self, st, fr):
        subject = self.eval(st.subject, fr)
        for case in st.cases:
            if self.match(case.pattern, subject, fr, st) and (case.guard is None or self.decide(self.eval(case.guard, fr), case.guard)):
                self.run(case.body, fr)
                return

    def match(self, pat, v, fr, node):
        if isinstance(pat, ast.MatchValue):
            return self.decide(self.compare("Eq", v, self.eval(pat.value, fr), node), pat)
        if isinstance(pat, ast.MatchSingleton):
            c = NONE if pat.value is None else (TRUE if pat.value else FALSE)
            return self.decide(self.compare("Is", v, c, node), pat)
        if isinstance(pat, ast.MatchAs):
            if pat.pattern is not None and not self.match(pat.pattern, v, fr, node):
                return False
            if pat.name is not None:
                self.assign_name(pat.name, v, fr)
            return True
        if isinstance(pat, ast.MatchOr):
            return any(self.match(p, v, fr, node) for p in pat.patterns)
        if isinstance(pat, ast.MatchSequence):
            if not isinstance(v, (tuple, LVal, Arr)):
                if is_rat(v) and not _objectlike(v):
                    return False
                raise Unsupported("sequence pattern on a value that is not a sequence")
            items = self.iterate(v, node)
            stars = [k for k, p in enumerate(pat.patterns) if isinstance(p, ast.MatchStar)]
            if not stars:
                return len(items) == len(pat.patterns) and all(self.match(p, x, fr, node) for p, x in zip(pat.patterns, items))
            k = stars[0]
            after = len(pat.patterns) - k - 1
            if len(items) < len(pat.patterns) - 1:
                return False
            if not all(self.match(p, x, fr, node) for p, x in zip(pat.patterns[:k], items[:k])):
                return False
            if after and not all(self.match(p, x, fr, node) for p, x in zip(pat.patterns[k + 1:], items[len(items) - after:])):
                return False
            if pat.patterns[k].name is not None:
                self.assign_name(pat.patterns[k].name, LVal(items[k:len(items) - after]), fr)
            return True
        raise Unsupported(f"pattern {type(pat).__name__}")

    def s_With(self, st, fr):
        for it in st.items:
            v = self.eval(it.context_expr, fr)
            if it.optional_vars is not None:
                self.assign(it.optional_vars, v, fr, st)
        self.run(st.body, fr)

    def s_FunctionDef(self, st, fr):
        fr.env[st.name] = self.make_func(st, fr)

    def s_ClassDef(self, st, fr):
        fr.env[st.name] = self.make_class(st, fr)

    def make_class(self, st, fr):
        if st.keywords:
            raise Unsupported("class with a metaclass / keywords")
        bases = []
        for b in st.bases:
            v = self.eval(b, fr)
            if isinstance(v, ClassVal):
                bases.append(v)
            elif not (isinstance(v, Builtin) and v.name == "object"):
                raise Unsupported(f"base class `{_src(b)}`")
        if any(not (isinstance(d, ast.Name) and d.id in ("staticmethod", "classmethod", "property")) for x in st.body if isinstance(x, ast.FunctionDef)
               for d in x.decorator_list) or st.decorator_list:
            raise Unsupported("decorated class / method")
        body = Frame(fr)
        for x in st.body:
            if isinstance(x, ast.FunctionDef):
                f = self.make_func(x, fr)
                body.env[x.name] = Wrapped(x.decorator_list[0].id, f) if x.decorator_list else f
            else:
                self.run([x], body)
        return ClassVal(st.name, dict(body.env), bases)

    def instantiate(self, cls, args, kwargs, node):
        inst = InstVal(cls)
        init = cls.find("__init__")
        if init is not None:
            self.call(init, [inst] + list(args), kwargs, node)
        elif args or kwargs:
            raise PyError("TypeError", f"{cls.name}() takes no arguments")
        return inst

    def inst_attr(self, obj, name, node):
        if name in obj.attrs:
            return obj.attrs[name]
        v = obj.cls.find(name)
        if v is None:
            raise PyError("AttributeError", f"'{obj.cls.name}' object has no attribute '{name}'")
        if isinstance(v, FuncVal):
            return PartialVal(v, [obj], {})
        if isinstance(v, Wrapped):
            if v.kind == "staticmethod":
                return v.func
            if v.kind == "classmethod":
                return PartialVal(v.func, [obj.cls], {})
            return self.call(v.func, [obj], {}, node)
        return v


_GEN = {}
_LOCALS = {}


def _locals_of(fn):
    """names a function binds in its own scope (parameters, assignment / loop / with / except / import targets, nested defs)"""
    r = _LOCALS.get(id(fn))
    if r is not None and r[0] is fn:
        return r[1]
    names, outer = set(), set()
    a = fn.args
    for x in a.posonlyargs + a.args + a.kwonlyargs + ([a.vararg] if a.vararg else []) + ([a.kwarg] if a.kwarg else []):
        names.add(x.arg)

    def walk(n, comp=False):
        for ch in ast.iter_child_nodes(n):
            if isinstance(ch, (ast.FunctionDef, ast.AsyncFunctionDef, ast.ClassDef)):
                names.add(ch.name)
                continue
            if isinstance(ch, ast.Lambda):
                continue
            if isinstance(ch, (ast.ListComp, ast.SetComp, ast.DictComp, ast.GeneratorExp)):
                # targets of a comprehension live in its own scope; a walrus inside binds in the function
                for w in ast.walk(ch):
                    if isinstance(w, ast.NamedExpr) and isinstance(w.target, ast.Name):
                        names.add(w.target.id)
                continue
            if isinstance(ch, ast.Name) and isinstance(ch.ctx, (ast.Store, ast.Del)):
                names.add(ch.id)
            elif isinstance(ch, (ast.Import, ast.ImportFrom)):
                for al in ch.names:
                    names.add((al.asname or al.name).split(".")[0])
            elif isinstance(ch, ast.ExceptHandler) and ch.name:
                names.add(ch.name)
            elif isinstance(ch, (ast.Global, ast.Nonlocal)):
                outer.update(ch.names)
            elif isinstance(ch, (ast.MatchAs, ast.MatchStar)) and ch.name:
                names.add(ch.name)
            walk(ch)
    if not isinstance(fn, ast.Lambda):
        walk(fn)
    res = frozenset(names - outer)
    _LOCALS[id(fn)] = (fn, res)
    return res


def _is_generator(fn):
    r = _GEN.get(id(fn))
    if r is None or r[0] is not fn:
        def has_yield(n):
            for ch in ast.iter_child_nodes(n):
                if isinstance(ch, (ast.FunctionDef, ast.AsyncFunctionDef, ast.Lambda, ast.ClassDef)):
                    continue
                if isinstance(ch, (ast.Yield, ast.YieldFrom)) or has_yield(ch):
                    return True
            return False
        r = (fn, has_yield(fn))
        _GEN[id(fn)] = r
    return r[1]


def _handles(h, exc):
    if isinstance(exc, Raised) or h.type is None:
        return True
    names = {getattr(n, "id", getattr(n, "attr", None)) for n in (h.type.elts if isinstance(h.type, ast.Tuple) else [h.type])}
    return bool(names & {exc.kind, "Exception", "BaseException"}) or (exc.kind in ("IndexError", "KeyError") and "LookupError" in names)


MUTATORS = {"np.put", "np.place", "np.copyto", "np.putmask", "np.put_along_axis", "np.random.shuffle", "random.shuffle", "np.fill_diagonal",
            "np.add.at", "np.subtract.at", "np.multiply.at"}
PURE_PREFIXES = ("np.", "math.", "linalg.", "scipy.", "itertools.", "functools.", "operator.", "copy.", "locate.", "ytools.")
PURE_NAMES = PY_BUILTINS | {"warnings.warn"}


# keyword arguments the models below implement; a call with any other keyword is not modelled (it stays an opaque application) - a keyword
# must never be dropped silently (`out=`, `keepdims=`, `order="F"`, an integer `dtype=` change what the call does)
HANDLED_KW = {"axis", "shape", "newshape", "axes", "start", "step", "repeats", "fill_value", "reverse", "refpoint", "grids"}


# keywords understood by one model only: (a) implemented by it, or (b) documented not to change the mathematical result (LAPACK driver, finite
# checks, overwrite permissions, the rank cut-off of a least-squares solve of a matrix that is square and regular or exactly zero)
NAME_KW = {
    "np.allclose": {"rtol", "atol"}, "np.isclose": {"rtol", "atol"}, "math.isclose": {"rel_tol", "abs_tol"},
    "linalg.lstsq": {"cond", "rcond", "overwrite_a", "overwrite_b", "check_finite", "lapack_driver"}, "np.linalg.lstsq": {"rcond"},
    "linalg.solve": {"overwrite_a", "overwrite_b", "check_finite", "lower"}, "linalg.inv": {"overwrite_a", "check_finite"},
    "linalg.pinv": {"check_finite", "atol", "rtol", "rcond", "cond"}, "np.linalg.pinv": {"rcond", "rtol"},
    "linalg.det": {"overwrite_a", "check_finite"},
    "np.argsort": {"kind"}, "np.unique": {"return_index", "return_inverse", "return_counts"}, "np.searchsorted": {"side"},
}


def _kwargs_understood(name, kwargs):
    own = NAME_KW.get(name, ())
    for k, v in kwargs.items():
        if k in HANDLED_KW or k in own:
            continue
        if k == "dtype" and (isinstance(v, Builtin) and v.name in ("float", "np.float64", "np.float32", "np.double") or (is_rat(v) and G.same(v, NONE))):
            continue
        if k in ("copy", "subok"):
            continue
        if k == "order" and is_rat(v) and str_of(v) == "C":
            continue
        if k in ("key", "reverse") and name in ("sorted", ".sort"):
            continue
        if name in ("dict", "types.SimpleNamespace", "SimpleNamespace", "functools.partial"):
            continue
        return False
    return True


def _objectlike(v):
    """a formula that stands for an object the evaluation knows nothing about (a bare symbol or an opaque application)"""
    d = G.single_atom(v)
    return d is not None and (d[0] == "s" or (d[0] == "fn" and (d[1].startswith(("call:", "attr:", "idx")) or d[1] == "opaque")))


def _src(node):
    try:
        return ast.unparse(node)[:80]
    except Exception:  # noqa
        return type(node).__name__


# ----------------------------------------------------------------------------------------------------------------- library
def _arg(args, kwargs, k, name, default=None):
    if len(args) > k:
        return args[k]
    return kwargs.get(name, default)


def _int(v, what):
    if isinstance(v, Arr) and v.size == 1:
        v = v.flat()[0]
    if isinstance(v, FRat):
        raise PyError("TypeError", f"'float' object cannot be interpreted as an integer ({what})")
    k = G.int_of(v) if is_rat(v) else None
    if k is None:
        raise Unsupported(f"{what} is not an integer constant")
    return k


def _shape_arg(v):
    if isinstance(v, Arr) and v.ndim >= 2:
        raise PyError("TypeError", "a two-dimensional array cannot be interpreted as a shape")
    if isinstance(v, (tuple, LVal, Arr)):
        items = list(v) if isinstance(v, tuple) else (v.items if isinstance(v, LVal) else v.flat())
        return tuple(_int(x, "array shape") for x in items)
    return (_int(v, "array shape"),)


def _axis(kwargs, args=None, k=None):
    v = kwargs.get("axis")
    if v is None and args is not None and k is not None and len(args) > k:
        v = args[k]
    if v is None or (is_rat(v) and G.same(v, NONE)):
        return None
    return _int(v, "axis")


def _arrayish(v):
    return isinstance(v, (Arr, tuple, LVal, Table))


def L_array(ip, args, kwargs, node):
    v = args[0]
    if _arrayish(v):
        a = as_arr(v)
        return a.copy() if isinstance(v, Arr) else a
    return v


def L_asarray(ip, args, kwargs, node):
    v = args[0]
    return as_arr(v) if _arrayish(v) else v


def L_atleast_1d(ip, args, kwargs, node):
    v = args[0]
    if _arrayish(v):
        a = as_arr(v)
        return a if a.ndim else a.reshape((1,))
    if is_rat(v) and not _objectlike(v):
        return Arr.new([v], (1,))
    return NotImplemented


def L_atleast_2d(ip, args, kwargs, node):
    v = args[0]
    if _arrayish(v):
        a = as_arr(v)
        return a if a.ndim >= 2 else a.reshape((1, a.size))
    if is_rat(v) and not _objectlike(v):
        return Arr.new([v], (1, 1))
    return NotImplemented


def _filled(val):
    def f(ip, args, kwargs, node):
        shp = _arg(args, kwargs, 0, "shape")
        try:
            shp = _shape_arg(shp)
        except Unsupported:
            return NotImplemented
        return Arr.new([val] * _prod(shp), shp)
    return f


def _filled_like(val):
    def f(ip, args, kwargs, node):
        if not _arrayish(args[0]):
            return NotImplemented
        a = as_arr(args[0])
        return Arr.new([val] * a.size, a.shape)
    return f


def L_full(ip, args, kwargs, node):
    shp = _shape_arg(args[0])
    return Arr.new([_arg(args, kwargs, 1, "fill_value")] * _prod(shp), shp)


def L_eye(ip, args, kwargs, node):
    n = _int(args[0], "eye size")
    return Arr.new([F.const(int(i == j)) for i in range(n) for j in range(n)], (n, n))


def L_range(ip, args, kwargs, node):
    try:
        ks = [_int(a, "range bound") for a in args]
    except Unsupported:
        return NotImplemented
    return tuple(F.const(k) for k in range(*ks))


def L_arange(ip, args, kwargs, node):
    r = L_range(ip, [no_float(a) for a in args], kwargs, node)
    return r if r is NotImplemented else as_arr(r)


def L_shape(ip, args, kwargs, node):
    v = args[0]
    if _arrayish(v):
        return tuple(F.const(n) for n in as_arr(v).shape)
    if is_rat(v) and not _objectlike(v):
        return ()
    return NotImplemented


def L_size(ip, args, kwargs, node):
    v = args[0]
    ax = _arg(args, kwargs, 1, "axis")
    if _arrayish(v):
        a = as_arr(v)
        return F.const(a.size) if ax is None else F.const(a.shape[_int(ax, "axis")])
    if is_rat(v) and not _objectlike(v):
        return F.const(1)
    return NotImplemented


def L_ndim(ip, args, kwargs, node):
    v = args[0]
    if _arrayish(v):
        return F.const(as_arr(v).ndim)
    if is_rat(v) and not _objectlike(v):
        return F.const(0)
    return NotImplemented


def L_len(ip, args, kwargs, node):
    v = args[0]
    if isinstance(v, tuple):
        return F.const(len(v))
    if isinstance(v, LVal):
        return F.const(len(v.items))
    if isinstance(v, DVal):
        return F.const(len(v.keys))
    if isinstance(v, Arr):
        if not v.ndim:
            raise Unsupported("len() of a 0-d array")
        return F.const(v.shape[0])
    if isinstance(v, Table):
        return F.const(len(v.ids))
    return NotImplemented


def L_reshape(ip, args, kwargs, node):
    if not _arrayish(args[0]):
        return NotImplemented
    shp = _arg(args, kwargs, 1, "newshape", kwargs.get("shape"))
    return as_arr(args[0]).reshape(_shape_arg(shp))


def L_transpose(ip, args, kwargs, node):
    v = args[0]
    if _arrayish(v):
        ax = _arg(args, kwargs, 1, "axes")
        return as_arr(v).transpose(None if ax is None or (is_rat(ax) and G.same(ax, NONE)) else _shape_arg(ax))
    if is_rat(v):
        return v
    return NotImplemented


def L_dot(ip, args, kwargs, node):
    return matmul(args[0], args[1])


def L_cross(ip, args, kwargs, node):
    if kwargs or len(args) != 2:
        return NotImplemented
    a, b = as_arr(args[0]), as_arr(args[1])
    if not a.ndim or not b.ndim or a.shape[-1] != 3 or b.shape[-1] != 3:
        return NotImplemented
    lead = bshape(a.shape[:-1], b.shape[:-1])
    xs, ys = bflat(a, lead + (3,)), bflat(b, lead + (3,))
    out = []
    for k in range(0, len(xs), 3):
        x, y = xs[k:k + 3], ys[k:k + 3]
        out += [_c3(x[1], y[2], x[2], y[1]), _c3(x[2], y[0], x[0], y[2]), _c3(x[0], y[1], x[1], y[0])]
    return Arr.new(out, lead + (3,))


def _c3(a, b, c, d):
    for v in (a, b, c, d):
        if is_unknown(v):
            return v
    return a * b - c * d


def _stack(kind):
    def f(ip, args, kwargs, node):
        parts = ip.iterate(args[0], node)
        arrs = [as_arr(p) for p in parts]
        axis = _axis(kwargs, args, 1)
        if kind == "hstack":
            arrs = [a if a.ndim else a.reshape((1,)) for a in arrs]
            axis = 0 if arrs[0].ndim == 1 else 1
        elif kind == "vstack":
            arrs = [a if a.ndim >= 2 else a.reshape((1, a.size)) for a in arrs]
            axis = 0
        elif kind == "column_stack":
            arrs = [a if a.ndim >= 2 else a.reshape((a.size, 1)) for a in arrs]
            axis = 1
        elif kind == "stack":
            axis = 0 if axis is None else axis
            sh = arrs[0].shape
            axis %= len(sh) + 1
            arrs = [a.reshape(sh[:axis] + (1,) + sh[axis:]) for a in arrs]
        else:
            axis = 0 if axis is None else axis
        nd = arrs[0].ndim
        axis %= nd
        rest = arrs[0].shape[:axis] + arrs[0].shape[axis + 1:]
        if any(a.ndim != nd or a.shape[:axis] + a.shape[axis + 1:] != rest for a in arrs):
            raise PyError("ValueError", "all the input array dimensions except for the concatenation axis must match exactly")
        moved = [a.transpose([axis] + [k for k in range(nd) if k != axis]) for a in arrs]
        vals = []
        for m in moved:
            vals.extend(m.flat())
        n = sum(a.shape[axis] for a in arrs)
        out = Arr.new(vals, (n,) + rest)
        back = list(range(1, axis + 1)) + [0] + list(range(axis + 1, nd))
        return out.transpose(back).copy() if axis else out
    return f


def L_any(ip, args, kwargs, node):
    v = args[0]
    if _arrayish(v):
        return reduce_axis(v, _axis(kwargs, args, 1), v_any)
    if is_rat(v) and not _objectlike(v):
        return v_any([v])
    return NotImplemented


def L_all(ip, args, kwargs, node):
    v = args[0]
    if _arrayish(v):
        return reduce_axis(v, _axis(kwargs, args, 1), v_all)
    if is_rat(v) and not _objectlike(v):
        return v_all([v])
    return NotImplemented


def L_sum(ip, args, kwargs, node):
    v = args[0]
    if _arrayish(v):
        r = reduce_axis(v, _axis(kwargs, args, 1) if ip_is_np(node) else None, v_sum)
        if len(args) > 1 and not ip_is_np(node):
            r = lift2(s_add, r, args[1])
        return r
    return NotImplemented


def ip_is_np(node):
    return isinstance(node, ast.Call) and isinstance(node.func, ast.Attribute)


def _extreme(which):
    f = v_extreme(which)

    def g(ip, args, kwargs, node):
        if len(args) >= 2 and not ip_is_np(node):
            if all(is_rat(a) for a in args):
                return f(list(args))
            return NotImplemented
        v = args[0]
        if _arrayish(v):
            return reduce_axis(v, _axis(kwargs, args, 1) if ip_is_np(node) else None, f)
        return NotImplemented
    return g


def _pairwise(which):
    f = v_extreme(which)

    def g(ip, args, kwargs, node):
        return lift2(lambda x, y: f([x, y]), args[0], args[1])
    return g


def L_count_nonzero(ip, args, kwargs, node):
    if not _arrayish(args[0]):
        return NotImplemented
    vals = as_arr(args[0]).flat()
    rs = [G.fold_bool(v) if is_rat(v) else None for v in vals]
    if all(r is not None for r in rs):
        return F.const(sum(1 for r in rs if r))
    if any(not is_rat(v) for v in vals):
        return Unknown("count_nonzero of unknown values")
    return F.fn("call:np.count_nonzero", F.fn("tuple", *vals))


def L_nonzero(ip, args, kwargs, node):
    if not _arrayish(args[0]):
        return NotImplemented
    a = as_arr(args[0])
    rs = [G.fold_bool(v) if is_rat(v) else None for v in a.flat()]
    if any(r is None for r in rs):
        raise Unsupported("nonzero() of values that are not decided")
    hits = [ix for ix, r in zip(itertools.product(*[range(n) for n in a.shape]), rs) if r]
    return tuple(Arr.new([F.const(h[ax]) for h in hits], (len(hits),)) for ax in range(a.ndim))


def L_flatnonzero(ip, args, kwargs, node):
    if not _arrayish(args[0]):
        return NotImplemented
    a = as_arr(args[0])
    return L_nonzero(ip, [a.reshape((a.size,))], {}, node)[0]


def L_where(ip, args, kwargs, node):
    if len(args) == 1:
        return L_nonzero(ip, args, kwargs, node)
    c, x, y = args[:3]

    def pick(cv, xv, yv):
        r = G.fold_bool(cv) if is_rat(cv) else None
        if r is None:
            # an element whose condition is not a constant: the regime is named by the rule (truth) or split, as for an `if`; numpy has
            # computed both candidates - what is thrown away is remembered, because a rule must not read it as a value that was used
            if not is_rat(cv):
                raise Unsupported("np.where on a condition that is not understood")
            r = ip.decide(cv, node)
            if r is None:
                raise Unsupported("np.where on an undecided condition")
            ip.sh.discarded.append(yv if r else xv)
        return xv if r else yv
    ca = as_arr(c)
    shp = bshape(bshape(ca.shape, as_arr(x).shape), as_arr(y).shape)
    return unbox(Arr.new([pick(p, q, r) for p, q, r in zip(bflat(ca, shp), bflat(x, shp), bflat(y, shp))], shp))


def L_norm(ip, args, kwargs, node):
    if not _arrayish(args[0]) or len(args) > 1 or kwargs:
        return NotImplemented

    def f(vals):
        tot = v_sum([_safe2(s_mul, v, v) for v in vals])
        return tot if is_unknown(tot) else F.sqrt(tot)
    return reduce_axis(args[0], None, f)


def _unary(f):
    def g(ip, args, kwargs, node):
        if len(args) != 1 or not (_arrayish(args[0]) or is_rat(args[0])):
            return NotImplemented
        return lift1(f, args[0])
    return g


def _fn1(name, f):
    def safe(x):
        try:
            return f(x)
        except Unsupported:
            return F.fn(name, x)       # outside the normal form (a quotient as argument): an opaque application, equal only to itself
    return _unary(safe)


def L_hypot(ip, args, kwargs, node):
    return lift2(lambda x, y: F.sqrt(x * x + y * y), args[0], args[1])


def L_atan2(ip, args, kwargs, node):
    ip.sh.calls.append(("atan2", list(args), {}, node))

    def f(y, x):
        if y.is_zero() and G.const_of(x) is not None and G.const_of(x) >= 0:
            return F.const(0)
        return F.fn("atan2", y, x)
    return lift2(f, args[0], args[1])


def L_slice(ip, args, kwargs, node):
    vs = [None if (is_rat(a) and G.same(a, NONE)) else a for a in args]
    if any(v is not None and not is_rat(v) for v in vs):
        raise Unsupported("slice() of values that are not scalars")
    if len(vs) == 1:
        vs = [None, vs[0], None]
    elif len(vs) == 2:
        vs = vs + [None]
    return G.slice_value(*vs)


def L_tuple(ip, args, kwargs, node):
    return tuple(ip.iterate(args[0], node)) if args else ()


def L_list(ip, args, kwargs, node):
    return LVal(ip.iterate(args[0], node)) if args else LVal()


def L_dict(ip, args, kwargs, node):
    d = DVal()
    if args:
        src = args[0]
        if isinstance(src, DVal):
            for a, b in zip(src.keys, src.vals):
                d.set(a, b)
        else:
            for it in ip.iterate(src, node):
                k, v = ip.iterate(it, node)
                d.set(k, v)
    for k, v in kwargs.items():
        d.set(mkstr(k), v)
    return d


def L_enumerate(ip, args, kwargs, node):
    items = ip.iterate(args[0], node, generic_ok=True)
    if items is None:
        return NotImplemented
    start = _int(_arg(args, kwargs, 1, "start", F.const(0)), "enumerate start")
    return tuple((F.const(start + k), x) for k, x in enumerate(items))


def L_zip(ip, args, kwargs, node):
    cols = [ip.iterate(a, node, generic_ok=True) for a in args]
    if any(c is None for c in cols):
        return NotImplemented
    return tuple(zip(*cols))


def L_reversed(ip, args, kwargs, node):
    return tuple(reversed(ip.iterate(args[0], node)))


def _order_key(v):
    """a Python value that orders like `v` orders in Python: constants by value, strings by text, tuples / lists lexicographically; None when
    the order is not known (a symbolic entry)"""
    if isinstance(v, Arr) and v.size == 1:
        v = v.flat()[0]
    if isinstance(v, (tuple, LVal)):
        ks = [_order_key(x) for x in (v if isinstance(v, tuple) else v.items)]
        return None if any(k is None for k in ks) else tuple(ks)
    if not is_rat(v):
        return None
    c = G.const_of(v)
    if c is not None:
        return (0, c)
    b = G.fold_bool(v)
    if b is not None and is_boolish(v):
        return (0, Fraction(int(b)))
    t = str_of(v)
    return None if t is None else (1, t)


def _sorted_items(ip, items, kwargs, node):
    """the items in sorted order (stable; `key=` is called, `reverse=` honoured), or None when the order of two of them is not known"""
    keyf = kwargs.get("key")
    if keyf is not None and not (is_rat(keyf) and G.same(keyf, NONE)):
        keys = [_order_key(ip.call(keyf, [x], {}, node)) for x in items]
    else:
        keys = [_order_key(x) for x in items]
    if any(k is None for k in keys):
        return None
    rev = kwargs.get("reverse")
    rev = False if rev is None else G.fold_bool(rev)
    if rev is None:
        return None
    try:
        order = sorted(range(len(items)), key=lambda k: keys[k], reverse=bool(rev))
    except TypeError:
        raise PyError("TypeError", "'<' not supported between the items that are sorted")
    return [items[k] for k in order]


def L_sorted(ip, args, kwargs, node):
    r = _sorted_items(ip, ip.iterate(args[0], node), kwargs, node)
    return NotImplemented if r is None else LVal(r)


def L_map(ip, args, kwargs, node):
    cols = [ip.iterate(a, node) for a in args[1:]]
    return tuple(ip.call(args[0], list(xs), {}, node) for xs in zip(*cols))


def L_filter(ip, args, kwargs, node):
    return tuple(x for x in ip.iterate(args[1], node) if ip.decide(ip.call(args[0], [x], {}, node), node))


def L_abs(ip, args, kwargs, node):
    return lift1(s_abs, args[0]) if _arrayish(args[0]) or is_rat(args[0]) else NotImplemented


def L_int(ip, args, kwargs, node):
    v = args[0] if args else F.const(0)
    if isinstance(v, Arr) and v.size == 1:
        v = v.flat()[0]
    if not is_rat(v):
        return NotImplemented
    c = G.const_of(v)
    if c is not None and c.denominator != 1 and isinstance(node, ast.Call) and getattr(node.func, "id", getattr(node.func, "attr", "")).startswith("int"):
        return F.const(int(c))            # int() truncates
    return no_float(v)


def L_float(ip, args, kwargs, node):
    v = args[0] if args else F.const(0)
    if isinstance(v, Arr) and v.size == 1:
        v = v.flat()[0]
    return as_float(v) if is_rat(v) else NotImplemented


def L_bool(ip, args, kwargs, node):
    v = args[0]
    r = ip.decide(v, node, split=False) if is_rat(v) else ip.pytruth(v)
    if r is None:
        return v if is_rat(v) else NotImplemented
    return TRUE if r else FALSE


def L_count(ip, args, kwargs, node):
    return CountVal(_arg(args, kwargs, 0, "start", F.const(0)), _arg(args, kwargs, 1, "step", F.const(1)))


def L_product(ip, args, kwargs, node):
    return tuple(itertools.product(*[ip.iterate(a, node) for a in args]))


def L_chain(ip, args, kwargs, node):
    out = []
    for a in args:
        out.extend(ip.iterate(a, node))
    return tuple(out)


def L_copy(ip, args, kwargs, node):
    v = args[0]
    if isinstance(v, Arr):
        return v.copy()
    if isinstance(v, LVal):
        return LVal(v.items)
    if is_rat(v) or isinstance(v, tuple):
        return v
    return NotImplemented


def L_ix(ip, args, kwargs, node):
    out = []
    for k, a in enumerate(args):
        a = as_arr(a)
        shp = [1] * len(args)
        shp[k] = a.size
        out.append(a.reshape(tuple(shp)))
    return tuple(out)


def L_diag(ip, args, kwargs, node):
    a = as_arr(args[0])
    if a.ndim == 1:
        n = a.size
        vals = a.flat()
        return Arr.new([vals[i] if i == j else F.const(0) for i in range(n) for j in range(n)], (n, n))
    if a.ndim == 2:
        return Arr.new([a.get((F.const(i), F.const(i))) for i in range(min(a.shape))], (min(a.shape),))
    return NotImplemented


def L_array_equal(ip, args, kwargs, node):
    a, b = as_arr(args[0]), as_arr(args[1])
    if a.shape != b.shape:
        return FALSE
    return v_all([_safe2(lambda x, y: G.compare("Eq", x, y), p, q) for p, q in zip(a.flat(), b.flat())])


def L_tile(ip, args, kwargs, node):
    a = as_arr(args[0])
    reps = _shape_arg(args[1])
    nd = max(a.ndim, len(reps))
    a = a.reshape((1,) * (nd - a.ndim) + a.shape)
    reps = (1,) * (nd - len(reps)) + tuple(reps)
    out_shape = tuple(n * r for n, r in zip(a.shape, reps))
    vals = a.flat()
    st = _strides(a.shape)
    out = [vals[sum((i % n) * s_ for i, n, s_ in zip(ix, a.shape, st))] for ix in itertools.product(*[range(n) for n in out_shape])]
    return Arr.new(out, out_shape)


def L_repeat(ip, args, kwargs, node):
    a = as_arr(args[0])
    n = _int(_arg(args, kwargs, 1, "repeats"), "repeats")
    axis = _axis(kwargs, args, 2)
    if axis is None:
        return Arr.new([v for v in a.flat() for _ in range(n)], (a.size * n,))
    axis %= a.ndim
    key = tuple(G.slice_value(None, None, None) if k != axis else Arr.new([F.const(i) for i in range(a.shape[axis]) for _ in range(n)], (a.shape[axis] * n,))
                for k in range(a.ndim))
    return a.get(key)


def L_kron(ip, args, kwargs, node):
    a, b = as_arr(args[0]), as_arr(args[1])
    if a.ndim != 2 or b.ndim != 2:
        return NotImplemented
    A, B = a.nested(), b.nested()
    out = [_safe2(s_mul, A[i][j], B[k][l]) for i in range(a.shape[0]) for k in range(b.shape[0]) for j in range(a.shape[1]) for l in range(b.shape[1])]
    return Arr.new(out, (a.shape[0] * b.shape[0], a.shape[1] * b.shape[1]))


def L_block(ip, args, kwargs, node):
    def rec(x, depth):
        if isinstance(x, LVal):
            parts = [rec(y, depth + 1) for y in x.items]
            nd = max(p.ndim for p in parts)
            parts = [p.reshape((1,) * (nd - p.ndim) + p.shape) for p in parts]
            return _stack("concatenate")(ip, [tuple(parts)], {"axis": F.const(-1 if not any(isinstance(y, LVal) for y in x.items) else -2)}, node)
        a = as_arr(x)
        return a if a.ndim else a.reshape((1,))
    return rec(args[0], 0)


def L_outer(ip, args, kwargs, node):
    a, b = as_arr(args[0]), as_arr(args[1])
    x, y = a.flat(), b.flat()
    return Arr.new([_safe2(s_mul, p, q) for p in x for q in y], (len(x), len(y)))


def L_swapaxes(ip, args, kwargs, node):
    a = as_arr(args[0])
    i, j = _int(args[1], "axis") % a.ndim, _int(args[2], "axis") % a.ndim
    ax = list(range(a.ndim))
    ax[i], ax[j] = ax[j], ax[i]
    return a.transpose(ax)


def L_expand_dims(ip, args, kwargs, node):
    a = as_arr(args[0])
    k = _int(_arg(args, kwargs, 1, "axis"), "axis") % (a.ndim + 1)
    return a.reshape(a.shape[:k] + (1,) + a.shape[k:])


def L_fill_diagonal(ip, args, kwargs, node):
    a = args[0]
    if not isinstance(a, Arr) or a.ndim != 2:
        return NotImplemented
    n = min(a.shape)
    idx = Arr.new([F.const(i) for i in range(n)], (n,))
    a.set((idx, idx), args[1])
    return NONE


def L_trace(ip, args, kwargs, node):
    a = as_arr(args[0])
    if a.ndim != 2:
        return NotImplemented
    return v_sum([a.get((F.const(i), F.const(i))) for i in range(min(a.shape))])


def L_prod(ip, args, kwargs, node):
    def f(vals):
        tot = F.const(1)
        for v in vals:
            if is_unknown(v):
                return v
            tot = tot * v
        return tot
    return reduce_axis(args[0], _axis(kwargs, args, 1), f) if _arrayish(args[0]) else NotImplemented


def L_append(ip, args, kwargs, node):
    a, b = as_arr(args[0]), as_arr(args[1])
    if _axis(kwargs, args, 2) is not None:
        return _stack("concatenate")(ip, [(a, b)], {"axis": F.const(_axis(kwargs, args, 2))}, node)
    return Arr.new(a.flat() + b.flat(), (a.size + b.size,))


def L_take(ip, args, kwargs, node):
    a = as_arr(args[0])
    axis = _axis(kwargs, args, 2)
    idx = args[1]
    if axis is None:
        return a.reshape((a.size,)).get(idx)
    axis %= a.ndim
    return a.get(tuple(G.slice_value(None, None, None) if k != axis else idx for k in range(a.ndim)))


def _cmp_fn(op):
    def g(ip, args, kwargs, node):
        return lift2(lambda x, y: G.compare(op, x, y), args[0], args[1])
    return g


def L_partial(ip, args, kwargs, node):
    return PartialVal(args[0], list(args[1:]), dict(kwargs))


def L_reduce(ip, args, kwargs, node):
    items = ip.iterate(args[1], node)
    if len(args) > 2:
        items = [args[2]] + items
    if not items:
        raise PyError("TypeError", "reduce() of empty iterable with no initial value")
    acc = items[0]
    for x in items[1:]:
        acc = ip.call(args[0], [acc, x], {}, node)
    return acc


def L_namespace(ip, args, kwargs, node):
    ns = NSVal()
    ns.attrs.update(kwargs)
    return ns


def L_divmod(ip, args, kwargs, node):
    return (lift2(s_floordiv, args[0], args[1]), lift2(s_mod, args[0], args[1]))


def L_einsum(ip, args, kwargs, node):
    spec = str_of(args[0]) if args and is_rat(args[0]) else None
    if spec is None or "." in spec:
        return NotImplemented
    spec = spec.replace(" ", "")
    ins, _, out = spec.partition("->")
    terms = ins.split(",")
    ops = [as_arr(a) for a in args[1:]]
    if len(terms) != len(ops):
        raise PyError("ValueError", "einsum: number of operands")
    dims = {}
    for t, a in zip(terms, ops):
        if len(t) != a.ndim:
            raise PyError("ValueError", f"einsum: operand has {a.ndim} dimensions, subscripts {t!r}")
        for ch, n in zip(t, a.shape):
            if dims.setdefault(ch, n) != n:
                raise PyError("ValueError", "einsum: sizes of a repeated subscript differ")
    if "->" not in spec:
        out = "".join(sorted(ch for ch in dims if ins.replace(",", "").count(ch) == 1))
    summed = [ch for ch in dims if ch not in out]
    nests = [a.nested() for a in ops]

    def elem(nest, t, env):
        for ch in t:
            nest = nest[env[ch]]
        return nest
    vals = []
    for oix in itertools.product(*[range(dims[ch]) for ch in out]):
        env = dict(zip(out, oix))
        tot = F.const(0)
        for six in itertools.product(*[range(dims[ch]) for ch in summed]):
            env.update(zip(summed, six))
            term = F.const(1)
            for nest, t in zip(nests, terms):
                term = _safe2(s_mul, term, elem(nest, t, env))
            tot = _safe2(s_add, tot, term)
        vals.append(tot)
    return unbox(Arr.new(vals, tuple(dims[ch] for ch in out)))


def L_flip(axis):
    def f(ip, args, kwargs, node):
        a = as_arr(args[0])
        ax = axis if axis is not None else _axis(kwargs, args, 1)
        axes = range(a.ndim) if ax is None else [ax % a.ndim]
        key = tuple(G.slice_value(None, None, F.const(-1)) if k in axes else G.slice_value(None, None, None) for k in range(a.ndim))
        return a.get(key)
    return f


def L_floor(kind):
    def f(ip, args, kwargs, node):
        def g(x):
            c = G.const_of(x)
            if c is None:
                return F.fn(kind, x)
            return F.const(math.floor(c) if kind == "floor" else (math.ceil(c) if kind == "ceil" else round(c)))
        return lift1(g, args[0]) if len(args) == 1 else NotImplemented
    return f


def L_getattr(ip, args, kwargs, node):
    name = str_of(args[1]) if len(args) >= 2 and is_rat(args[1]) else None
    if name is None:
        return NotImplemented
    try:
        return ip.attr(args[0], name, node)
    except PyError:
        if len(args) == 3:
            return args[2]
        raise


def L_argwhere(ip, args, kwargs, node):
    nz = L_nonzero(ip, args, kwargs, node)
    if nz is NotImplemented:
        return nz
    return _stack("column_stack")(ip, [tuple(nz)], {}, node) if len(nz) else NotImplemented


def L_compress(ip, args, kwargs, node):
    data, sel = ip.iterate(args[0], node), ip.iterate(args[1], node)
    return tuple(d for d, s_ in zip(data, sel) if ip.decide(s_, node))


def L_islice(ip, args, kwargs, node):
    items = ip.iterate(args[0], node)
    ks = [None if (is_rat(a) and G.same(a, NONE)) else _int(a, "islice bound") for a in args[1:]]
    return tuple(items[slice(*ks)])


def _const_sorted(kind):
    def f(ip, args, kwargs, node):
        if len(args) != 1 or not _arrayish(args[0]):
            return NotImplemented
        a = as_arr(args[0])
        cs = [G.const_of(v) if is_rat(v) else None for v in a.flat()]
        if a.ndim != 1 or any(c is None for c in cs):
            return NotImplemented          # the order of symbolic entries is not known
        if kind == "argsort":
            return as_arr(tuple(F.const(k) for k in sorted(range(len(cs)), key=lambda k: (cs[k], k))))
        vals = sorted(set(cs)) if kind == "unique" else sorted(cs)
        return as_arr(tuple(F.const(c) for c in vals))
    return f


def L_noop(ip, args, kwargs, node):
    return NONE


def L_ident(ip, args, kwargs, node):
    return args[0] if args else NotImplemented


_KINDS = {"np.ndarray": (Arr,), "list": (LVal,), "tuple": (tuple,), "dict": (DVal,), "pd.DataFrame": (Table,), "pandas.DataFrame": (Table,)}
_NUMBER_TYPES = {"int", "float", "complex", "np.integer", "np.floating", "np.number", "numbers.Number", "numbers.Real", "numbers.Integral", "np.int64",
                 "np.float64", "np.generic"}


def L_isinstance(ip, args, kwargs, node):
    """decided only where the kind of the value is known to the evaluation (an array is an ndarray and nothing else ...); whether a number is a
    Python int or a numpy scalar is not known - that stays an open question (and splits the regime if it is asked)"""
    if len(args) != 2:
        return NotImplemented
    v, types = args
    names = []
    for t in (types if isinstance(types, tuple) else (types,)):
        if not isinstance(t, Builtin):
            return NotImplemented
        names.append(t.name)
    if isinstance(v, (Arr, LVal, tuple, DVal, Table)):
        if all(n in _KINDS or n in _NUMBER_TYPES or n == "str" for n in names):
            return TRUE if any(isinstance(v, _KINDS.get(n, ())) for n in names) else FALSE
        return NotImplemented
    if is_rat(v) and str_of(v) is not None and all(n in _KINDS or n in _NUMBER_TYPES or n == "str" for n in names):
        return TRUE if "str" in names else FALSE
    if is_rat(v) and not _objectlike(v) and not literal_like(v) and all(n in _KINDS or n == "str" for n in names):
        return FALSE            # a number is no container
    return NotImplemented


def L_isscalar(ip, args, kwargs, node):
    v = args[0]
    if isinstance(v, (Arr, LVal, tuple, DVal, Table)):
        return FALSE
    if is_rat(v) and (v.is_const() or not _objectlike(v)) and not G.same(v, NONE):
        return TRUE
    return NotImplemented


def L_hasattr(ip, args, kwargs, node):
    name = str_of(args[1]) if len(args) == 2 and is_rat(args[1]) else None
    v = args[0]
    if name in ("__len__", "__iter__", "__getitem__") and isinstance(v, (Arr, LVal, tuple, DVal)):
        if isinstance(v, Arr) and v.ndim == 0:
            return NotImplemented
        return TRUE
    return NotImplemented


def L_degrees(ip, args, kwargs, node):
    return lift1(lambda x: x * 180 / F.sym("pi"), args[0])


def L_radians(ip, args, kwargs, node):
    return lift1(lambda x: x * F.sym("pi") / 180, args[0])


def _binary(f):
    def g(ip, args, kwargs, node):
        return lift2(f, args[0], args[1])
    return g


def _tol(v, default):
    if v is None:
        return F.const(Fraction(default))
    if isinstance(v, Arr) and v.size == 1:
        v = v.flat()[0]
    if not is_rat(v) or _objectlike(v):
        raise Unsupported("tolerance that is not a number")
    return v


def _isclose(ip, args, kwargs):
    """numpy's closeness test, element by element, as the comparison it is: |a - b| <= atol + rtol * |b| (so a test with a tolerance has a
    truth value at every exact point, and is a formula elsewhere)"""
    rtol = _tol(_arg(args, kwargs, 2, "rtol"), "1e-5")
    atol = _tol(_arg(args, kwargs, 3, "atol"), "1e-8")

    def f(x, y):
        return G.compare("LtE", s_abs(x - y), atol + rtol * s_abs(y))
    return lift2(f, args[0], args[1])


def L_isclose(ip, args, kwargs, node):
    if len(args) < 2 or not all(_arrayish(a) or (is_rat(a) and not _objectlike(a)) for a in args[:2]):
        return NotImplemented
    return _isclose(ip, args, kwargs)


def L_allclose(ip, args, kwargs, node):
    r = L_isclose(ip, args, kwargs, node)
    if r is NotImplemented:
        return r
    return v_all(as_arr(r).flat())


def L_math_isclose(ip, args, kwargs, node):
    if len(args) != 2 or not all(is_rat(a) and not _objectlike(a) for a in args):
        return NotImplemented
    rel, ab = _tol(kwargs.get("rel_tol"), "1e-9"), _tol(kwargs.get("abs_tol"), "0")
    x, y = args
    big = v_extreme("max")([rel * v_extreme("max")([s_abs(x), s_abs(y)]), ab])
    return G.compare("LtE", s_abs(x - y), big)


def _finite_pred(answer):
    """isnan / isinf / isfinite: the analysis runs on finite real inputs and refuses to divide by zero, so every number it holds is finite"""
    def g(ip, args, kwargs, node):
        if len(args) != 1 or kwargs:
            return NotImplemented
        v = args[0]
        if _arrayish(v):
            a = as_arr(v)
            if any(not is_rat(x) or _objectlike(x) for x in a.flat()):
                return NotImplemented
            return unbox(Arr.new([answer] * a.size, a.shape))
        if is_rat(v) and not _objectlike(v) and not G.same(v, NONE):
            return answer
        return NotImplemented
    return g


def L_finfo(ip, args, kwargs, node):
    """np.finfo(float): the constants of IEEE double precision"""
    t = args[0] if args else kwargs.get("dtype")
    ok = t is None or (isinstance(t, Builtin) and t.name in ("float", "np.float64", "np.double", "np.float_")) or \
        (is_rat(t) and (isinstance(t, FRat) or str_of(t) in ("float", "float64", "d")))
    if not ok or (kwargs and set(kwargs) != {"dtype"}):
        return NotImplemented
    ns = NSVal()
    ns.attrs.update({"eps": as_float(F.const(Fraction(1, 2 ** 52))), "epsneg": as_float(F.const(Fraction(1, 2 ** 53))),
                     "tiny": as_float(F.const(Fraction(1, 2 ** 1022))), "smallest_normal": as_float(F.const(Fraction(1, 2 ** 1022))),
                     "max": as_float(F.const((2 - Fraction(1, 2 ** 52)) * 2 ** 1023)), "min": as_float(F.const(-(2 - Fraction(1, 2 ** 52)) * 2 ** 1023)),
                     "resolution": as_float(F.const(Fraction(1, 10 ** 15))), "precision": F.const(15), "bits": F.const(64)})
    return ns


# ---- small dense linear algebra on formulas (exact; cofactor expansion, so entries may be symbolic)
def _minor(M, i, j):
    return [[M[r][c] for c in range(len(M)) if c != j] for r in range(len(M)) if r != i]


def _det(M):
    n = len(M)
    if n == 0:
        return F.const(1)
    if n == 1:
        return M[0][0]
    if n == 2:
        return M[0][0] * M[1][1] - M[0][1] * M[1][0]
    tot = F.const(0)
    for j in range(n):
        if M[0][j].is_zero():
            continue
        term = M[0][j] * _det(_minor(M, 0, j))
        tot = tot + term if j % 2 == 0 else tot - term
    return tot


def _square(v, what, limit=4):
    """nested list of the entries of a square matrix that the evaluation knows completely, else None"""
    if not _arrayish(v):
        return None
    a = as_arr(v)
    if a.ndim != 2 or a.shape[0] != a.shape[1]:
        return None
    if a.shape[0] > limit:
        return None
    M = [list(r) for r in a.nested()]
    if any(not is_rat(x) or _objectlike(x) for r in M for x in r):
        return None
    return M


def _inverse(M):
    """inverse by the adjugate; None when the determinant vanishes identically"""
    n = len(M)
    d = _det(M)
    if d.is_zero():
        return None
    if n == 1:
        return [[F.const(1) / d]]
    inv = [[None] * n for _ in range(n)]
    for i in range(n):
        for j in range(n):
            c = _det(_minor(M, i, j))
            inv[j][i] = (c if (i + j) % 2 == 0 else -c) / d
    return inv


def _solve_exact(A, rhs, allow_zero):
    """X with A X = rhs for a square A whose determinant does not vanish identically (the least-squares / minimum-norm solution is then the
    solution; at a point where the determinant happens to vanish the formula divides by zero and says so); for the zero matrix the
    minimum-norm least-squares solution is zero (`allow_zero`: lstsq / pinv only).  None when neither applies."""
    M = _square(A, "matrix")
    if M is None or not _arrayish(rhs):
        return None
    b = as_arr(rhs)
    if b.ndim not in (1, 2) or b.shape[0] != len(M):
        return None
    if any(not is_rat(x) for x in b.flat()):
        return None
    if all(x.is_zero() for r in M for x in r):
        return Arr.new([F.const(0)] * b.size, b.shape) if allow_zero else None
    inv = _inverse(M)
    if inv is None:
        return None
    return matmul(as_arr(tuple(tuple(r) for r in inv)), b)


def L_lstsq(ip, args, kwargs, node):
    if len(args) != 2:
        return NotImplemented
    x = _solve_exact(args[0], args[1], True)
    if x is None:
        return NotImplemented
    n = as_arr(args[0]).shape[0]
    tag = f"#{ip.sh.fresh()}"
    return (x, F.fn("opaque", "lstsq-residues" + tag), F.fn("opaque", "lstsq-rank" + tag), F.fn("opaque", "lstsq-singular-values" + tag))


def L_solve(ip, args, kwargs, node):
    if len(args) != 2:
        return NotImplemented
    M = _square(args[0], "matrix")
    if M is not None and all(x.is_zero() for r in M for x in r):
        raise PyError("LinAlgError", "singular matrix")
    x = _solve_exact(args[0], args[1], False)
    return NotImplemented if x is None else x


def L_inv(ip, args, kwargs, node):
    if len(args) != 1:
        return NotImplemented
    M = _square(args[0], "matrix")
    if M is None:
        return NotImplemented
    if all(x.is_zero() for r in M for x in r):
        raise PyError("LinAlgError", "singular matrix")
    inv = _inverse(M)
    return NotImplemented if inv is None else as_arr(tuple(tuple(r) for r in inv))


def L_pinv(ip, args, kwargs, node):
    if len(args) != 1:
        return NotImplemented
    M = _square(args[0], "matrix")
    if M is None:
        return NotImplemented
    if all(x.is_zero() for r in M for x in r):
        return Arr.new([F.const(0)] * (len(M) ** 2), (len(M), len(M)))
    inv = _inverse(M)
    return NotImplemented if inv is None else as_arr(tuple(tuple(r) for r in inv))


def L_det(ip, args, kwargs, node):
    if len(args) != 1:
        return NotImplemented
    M = _square(args[0], "matrix")
    return NotImplemented if M is None else _det(M)


LIB = {
    "np.array": L_array, "np.asarray": L_asarray, "np.asanyarray": L_asarray, "np.ascontiguousarray": L_asarray, "np.copy": L_array,
    "np.atleast_1d": L_atleast_1d, "np.atleast_2d": L_atleast_2d,
    "np.zeros": _filled(F.const(0)), "np.empty": _filled(F.const(0)), "np.ones": _filled(F.const(1)),
    "np.zeros_like": _filled_like(F.const(0)), "np.empty_like": _filled_like(F.const(0)), "np.ones_like": _filled_like(F.const(1)),
    "np.full": L_full, "np.eye": L_eye, "np.identity": L_eye, "np.arange": L_arange, "range": L_range,
    "np.shape": L_shape, "np.size": L_size, "np.ndim": L_ndim, "len": L_len, "np.reshape": L_reshape, "np.transpose": L_transpose,
    "np.dot": L_dot, "np.matmul": L_dot, "np.inner": L_dot, "np.cross": L_cross,
    "np.hstack": _stack("hstack"), "np.vstack": _stack("vstack"), "np.concatenate": _stack("concatenate"), "np.stack": _stack("stack"),
    "np.column_stack": _stack("column_stack"), "np.row_stack": _stack("vstack"),
    "np.any": L_any, "any": L_any, "np.all": L_all, "all": L_all, "np.sum": L_sum, "sum": L_sum,
    "np.max": _extreme("max"), "np.amax": _extreme("max"), "max": _extreme("max"), "np.min": _extreme("min"), "np.amin": _extreme("min"),
    "min": _extreme("min"), "np.maximum": _pairwise("max"), "np.minimum": _pairwise("min"),
    "np.count_nonzero": L_count_nonzero, "np.nonzero": L_nonzero, "np.flatnonzero": L_flatnonzero, "np.where": L_where,
    "np.linalg.norm": L_norm, "linalg.norm": L_norm, "scipy.linalg.norm": L_norm,
    "abs": L_abs, "np.abs": L_abs, "np.absolute": L_abs, "np.fabs": L_abs, "math.fabs": L_abs,
    "math.sqrt": _fn1("sqrt", F.sqrt), "np.sqrt": _fn1("sqrt", F.sqrt), "math.sin": _fn1("sin", F.sin), "np.sin": _fn1("sin", F.sin),
    "math.cos": _fn1("cos", F.cos), "np.cos": _fn1("cos", F.cos), "math.exp": _fn1("exp", F.exp), "np.exp": _fn1("exp", F.exp),
    "np.square": _unary(lambda x: x * x), "np.negative": _unary(lambda x: -x), "np.logical_not": _unary(s_not),
    "math.hypot": L_hypot, "np.hypot": L_hypot, "math.atan2": L_atan2, "np.arctan2": L_atan2, "np.atan2": L_atan2,
    "math.degrees": L_degrees, "np.degrees": L_degrees, "np.rad2deg": L_degrees,
    "math.radians": L_radians, "np.radians": L_radians, "np.deg2rad": L_radians,
    "np.add": _binary(s_add), "np.subtract": _binary(s_sub), "np.multiply": _binary(s_mul),
    "slice": L_slice, "tuple": L_tuple, "list": L_list, "dict": L_dict, "set": L_list, "enumerate": L_enumerate, "zip": L_zip,
    "reversed": L_reversed, "sorted": L_sorted, "map": L_map, "filter": L_filter, "int": L_int, "float": L_float, "bool": L_bool,
    "np.float64": L_float, "np.int64": L_int, "np.float32": L_float, "np.int32": L_int, "np.squeeze": L_ident, "np.real": L_ident,
    "itertools.count": L_count, "itertools.product": L_product, "itertools.chain": L_chain,
    "copy.copy": L_copy, "copy.deepcopy": L_copy, "np.ix_": L_ix, "np.diag": L_diag, "np.array_equal": L_array_equal,
    "print": L_noop, "warnings.warn": L_noop, "isinstance": L_isinstance, "np.isscalar": L_isscalar, "hasattr": L_hasattr,
    "np.flip": L_flip(None), "np.flipud": L_flip(0), "np.fliplr": L_flip(1), "math.floor": L_floor("floor"), "math.ceil": L_floor("ceil"),
    "np.floor": L_floor("floor"), "np.ceil": L_floor("ceil"), "round": L_floor("round"), "getattr": L_getattr,
    "np.sort": _const_sorted("sort"), "np.argsort": _const_sorted("argsort"), "np.unique": _const_sorted("unique"),
    "np.argwhere": L_argwhere, "itertools.compress": L_compress, "itertools.islice": L_islice,
    "np.einsum": L_einsum, "np.tile": L_tile, "np.repeat": L_repeat, "np.kron": L_kron, "np.block": L_block, "np.outer": L_outer, "np.swapaxes": L_swapaxes,
    "np.expand_dims": L_expand_dims, "np.fill_diagonal": L_fill_diagonal, "np.trace": L_trace, "np.prod": L_prod, "np.append": L_append,
    "np.take": L_take, "np.equal": _cmp_fn("Eq"), "np.not_equal": _cmp_fn("NotEq"), "np.greater": _cmp_fn("Gt"), "np.less": _cmp_fn("Lt"),
    "np.greater_equal": _cmp_fn("GtE"), "np.less_equal": _cmp_fn("LtE"), "np.divide": _binary(s_div), "np.true_divide": _binary(s_div),
    "functools.partial": L_partial, "functools.reduce": L_reduce, "types.SimpleNamespace": L_namespace, "SimpleNamespace": L_namespace,
    "divmod": L_divmod, "operator.matmul": L_dot, "operator.add": _binary(s_add), "operator.sub": _binary(s_sub), "operator.mul": _binary(s_mul),
    "operator.neg": _unary(lambda x: -x), "np.ravel": lambda ip, a, k, n: M_ravel(ip, as_arr(a[0]), [], {}, n),
    "np.allclose": L_allclose, "np.isclose": L_isclose, "math.isclose": L_math_isclose, "np.finfo": L_finfo,
    "math.isnan": _finite_pred(FALSE), "np.isnan": _finite_pred(FALSE), "math.isinf": _finite_pred(FALSE), "np.isinf": _finite_pred(FALSE),
    "math.isfinite": _finite_pred(TRUE), "np.isfinite": _finite_pred(TRUE),
    "linalg.lstsq": L_lstsq, "np.linalg.lstsq": L_lstsq, "linalg.solve": L_solve, "np.linalg.solve": L_solve, "linalg.inv": L_inv,
    "np.linalg.inv": L_inv, "linalg.pinv": L_pinv, "np.linalg.pinv": L_pinv, "linalg.det": L_det, "np.linalg.det": L_det,
    "np.diagonal": L_diag,
}


# ---- order-sensitive look-ups on *constant* keys (labels of a finite witness table): touched only through comparison / equality
def _const_keys(v):
    if not _arrayish(v):
        return None
    a = as_arr(v)
    cs = [G.const_of(x) if is_rat(x) else None for x in a.flat()]
    if a.ndim != 1 or any(c is None for c in cs):
        return None
    return cs


def _bisect(cs, key, right):
    """the bisection numpy / the bisect module perform (whatever the order of `cs`: on an array that is not ascending the documented
    precondition is broken and this is the position the search *returns*)"""
    lo, hi = 0, len(cs)
    while lo < hi:
        mid = lo + ((hi - lo) >> 1)
        if (cs[mid] <= key) if right else (cs[mid] < key):
            lo = mid + 1
        else:
            hi = mid
    return lo


def _searchsorted(pos_side):
    def f(ip, args, kwargs, node):
        if len(args) != 2:
            return NotImplemented
        side = kwargs.get("side")
        right = pos_side
        if side is not None:
            s_ = str_of(side) if is_rat(side) else None
            if s_ not in ("left", "right"):
                return NotImplemented
            right = s_ == "right"
        if set(kwargs) - {"side"}:
            return NotImplemented
        cs = _const_keys(args[0])
        if cs is None:
            return NotImplemented
        if _arrayish(args[1]):
            ks = _const_keys(as_arr(args[1]).reshape((-1,)))
            if ks is None:
                return NotImplemented
            return Arr.new([F.const(_bisect(cs, k, right)) for k in ks], as_arr(args[1]).shape)
        k = G.const_of(args[1]) if is_rat(args[1]) else None
        if k is None:
            return NotImplemented
        return F.const(_bisect(cs, k, right))
    return f


def L_lexsort(ip, args, kwargs, node):
    if len(args) != 1 or kwargs:
        return NotImplemented
    keys = [_const_keys(k) for k in ip.iterate(args[0], node)]
    if not keys or any(k is None for k in keys) or len({len(k) for k in keys}) != 1:
        return NotImplemented
    n = len(keys[0])
    order = sorted(range(n), key=lambda r: tuple(k[r] for k in reversed(keys)) + (r,))      # the *last* key is the primary one
    return as_arr(tuple(F.const(r) for r in order))


def L_unique(ip, args, kwargs, node):
    flags = {}
    for k in ("return_index", "return_inverse", "return_counts"):
        v = kwargs.get(k)
        b = False if v is None else G.fold_bool(v)
        if b is None:
            return NotImplemented
        flags[k] = bool(b)
    if len(args) != 1 or set(kwargs) - set(flags):
        return NotImplemented
    cs = _const_keys(args[0])
    if cs is None:
        return NotImplemented
    vals = sorted(set(cs))
    out = [as_arr(tuple(F.const(c) for c in vals))]
    if flags["return_index"]:
        out.append(as_arr(tuple(F.const(cs.index(c)) for c in vals)))
    if flags["return_inverse"]:
        out.append(as_arr(tuple(F.const(vals.index(c)) for c in cs)))
    if flags["return_counts"]:
        out.append(as_arr(tuple(F.const(cs.count(c)) for c in vals)))
    return out[0] if len(out) == 1 else tuple(out)


def L_argsort(ip, args, kwargs, node):
    if len(args) != 1 or set(kwargs) - {"kind", "axis"}:
        return NotImplemented
    ax = kwargs.get("axis")
    if ax is not None and G.int_of(ax) not in (0, -1):
        return NotImplemented
    cs = _const_keys(args[0])
    if cs is None:
        return NotImplemented
    if len(set(cs)) != len(cs) and "kind" in kwargs and str_of(kwargs["kind"]) not in ("stable", "mergesort"):
        return NotImplemented          # the order of equal keys is not defined
    return as_arr(tuple(F.const(k) for k in sorted(range(len(cs)), key=lambda k: (cs[k], k))))


def L_argextreme(which):
    def f(ip, args, kwargs, node):
        if len(args) != 1 or kwargs or not _arrayish(args[0]):
            return NotImplemented
        a = as_arr(args[0])
        if a.ndim != 1 or a.size == 0:
            return NotImplemented
        cs = []
        for x in a.flat():
            c = G.const_of(x) if is_rat(x) else None
            if c is None:
                b = G.fold_bool(x) if is_rat(x) else None
                if b is None:
                    return NotImplemented
                c = Fraction(int(bool(b)))
            cs.append(c)
        best = max(cs) if which == "max" else min(cs)
        return F.const(cs.index(best))
    return f


LIB.update({"np.searchsorted": _searchsorted(False), "bisect.bisect_left": _searchsorted(False), "bisect.bisect_right": _searchsorted(True),
            "bisect.bisect": _searchsorted(True), "np.lexsort": L_lexsort, "np.unique": L_unique, "np.argsort": L_argsort,
            "np.argmax": L_argextreme("max"), "np.argmin": L_argextreme("min")})


def _over_stack(f2d, nmat):
    """numpy's linear-algebra functions act on the last two axes of a stack of matrices: apply the 2-d model to every matrix of the stack
    (`nmat`: how many leading arguments are matrices)"""
    def g(ip, args, kwargs, node):
        if len(args) < nmat or not all(_arrayish(a) for a in args[:nmat]):
            return f2d(ip, args, kwargs, node)
        arrs = [as_arr(a) for a in args[:nmat]]
        if all(a.ndim <= 2 for a in arrs):
            return f2d(ip, args, kwargs, node)
        if any(a.ndim < 2 for a in arrs):
            return NotImplemented
        lead = ()
        for a in arrs:
            lead = bshape(lead, a.shape[:-2])
        flats = [bflat(a, lead + a.shape[-2:]) for a in arrs]
        outs = []
        for k in range(_prod(lead)):
            mats = []
            for a, fl in zip(arrs, flats):
                n = a.shape[-2] * a.shape[-1]
                mats.append(Arr.new(fl[k * n:(k + 1) * n], a.shape[-2:]))
            r = f2d(ip, mats + list(args[nmat:]), kwargs, node)
            if r is NotImplemented or isinstance(r, tuple):
                return NotImplemented
            outs.append(as_arr(r))
        if not outs:
            return NotImplemented
        shp = outs[0].shape
        if any(o.shape != shp for o in outs):
            return NotImplemented
        vals = []
        for o in outs:
            vals.extend(o.flat())
        return Arr.new(vals, lead + shp)
    return g


for _nm, _k in (("np.linalg.solve", 2), ("np.linalg.inv", 1), ("np.linalg.pinv", 1), ("np.linalg.det", 1)):
    LIB[_nm] = _over_stack(LIB[_nm], _k)


# ----------------------------------------------------------------------------------------------------------------- methods
def M_any(ip, obj, args, kwargs, node):
    return reduce_axis(obj, _axis(kwargs, args, 0), v_any)


def M_all(ip, obj, args, kwargs, node):
    return reduce_axis(obj, _axis(kwargs, args, 0), v_all)


def M_sum(ip, obj, args, kwargs, node):
    return reduce_axis(obj, _axis(kwargs, args, 0), v_sum)


def M_reshape(ip, obj, args, kwargs, node):
    shp = args[0] if len(args) == 1 else tuple(args)
    return obj.reshape(_shape_arg(shp))


def M_transpose(ip, obj, args, kwargs, node):
    if not args:
        return obj.transpose()
    return obj.transpose(_shape_arg(args[0] if len(args) == 1 else tuple(args)))


def M_copyarr(ip, obj, args, kwargs, node):
    return obj.copy()


def M_self(ip, obj, args, kwargs, node):
    return obj


def M_ravel(ip, obj, args, kwargs, node):
    return obj.reshape((obj.size,))


def M_flatten(ip, obj, args, kwargs, node):
    return Arr.new(obj.flat(), (obj.size,))


def M_tolist(ip, obj, args, kwargs, node):
    def rec(x):
        return LVal([rec(y) for y in x]) if isinstance(x, tuple) else x
    return rec(obj.nested())


def M_fill(ip, obj, args, kwargs, node):
    obj.set(G.slice_value(None, None, None) if obj.ndim else (), args[0])
    return NONE


def M_dot(ip, obj, args, kwargs, node):
    return matmul(obj, args[0])


def M_item(ip, obj, args, kwargs, node):
    if obj.size != 1:
        raise Unsupported(".item() of an array with several elements")
    return obj.flat()[0]


def M_nonzero(ip, obj, args, kwargs, node):
    return L_nonzero(ip, [obj], {}, node)


def M_trace(ip, obj, args, kwargs, node):
    return NotImplemented if args or kwargs else L_trace(ip, [obj], {}, node)


def M_diagonal(ip, obj, args, kwargs, node):
    return NotImplemented if args or kwargs or obj.ndim != 2 else L_diag(ip, [obj], {}, node)


def M_max(ip, obj, args, kwargs, node):
    return reduce_axis(obj, _axis(kwargs, args, 0), v_extreme("max"))


def M_min(ip, obj, args, kwargs, node):
    return reduce_axis(obj, _axis(kwargs, args, 0), v_extreme("min"))


def M_append(ip, obj, args, kwargs, node):
    obj.items.append(args[0])
    return NONE


def M_extend(ip, obj, args, kwargs, node):
    obj.items.extend(ip.iterate(args[0], node))
    return NONE


def M_insert(ip, obj, args, kwargs, node):
    obj.items.insert(_int(args[0], "insert position"), args[1])
    return NONE


def M_pop(ip, obj, args, kwargs, node):
    return obj.items.pop(_int(args[0], "pop position") if args else -1)


def M_lcopy(ip, obj, args, kwargs, node):
    return LVal(obj.items)


def M_sort(ip, obj, args, kwargs, node):
    r = _sorted_items(ip, list(obj.items), kwargs, node)
    if r is None:
        raise Unsupported("list.sort() of items whose order is not known")
    obj.items[:] = r
    return NONE


def M_reverse(ip, obj, args, kwargs, node):
    obj.items.reverse()
    return NONE


def M_index(ip, obj, args, kwargs, node):
    items = obj if isinstance(obj, tuple) else obj.items
    for k, x in enumerate(items):
        r = key_equal(x, args[0]) if is_rat(x) else None
        if r is True:
            return F.const(k)
        if r is None:
            raise Unsupported(".index() that cannot be decided")
    raise Unsupported(".index() of a missing value")


def M_dget(ip, obj, args, kwargs, node):
    n = obj.find(args[0])
    if n is None:
        raise Unsupported("dict look-up with a key that cannot be compared with the keys")
    if n >= 0:
        return obj.vals[n]
    return args[1] if len(args) > 1 else NONE


def M_ditems(ip, obj, args, kwargs, node):
    return tuple(zip(obj.keys, obj.vals))


def M_dkeys(ip, obj, args, kwargs, node):
    return tuple(obj.keys)


def M_dvalues(ip, obj, args, kwargs, node):
    return tuple(obj.vals)


def M_dsetdefault(ip, obj, args, kwargs, node):
    n = obj.find(args[0])
    if n is None:
        raise Unsupported("dict look-up")
    if n >= 0:
        return obj.vals[n]
    obj.set(args[0], args[1] if len(args) > 1 else NONE)
    return args[1] if len(args) > 1 else NONE


def M_dupdate(ip, obj, args, kwargs, node):
    if args and isinstance(args[0], DVal):
        for a, b in zip(args[0].keys, args[0].vals):
            obj.set(a, b)
    for k, v in kwargs.items():
        obj.set(mkstr(k), v)
    return NONE


def M_level(ip, obj, args, kwargs, node):
    k = args[0]
    s = str_of(k) if is_rat(k) else None
    if s == "id" or (is_rat(k) and G.int_of(k) == 0):
        return Arr.new(obj.ids, (len(obj.ids),))
    if s == "dof" or (is_rat(k) and G.int_of(k) == 1):
        return Arr.new(obj.dofs, (len(obj.dofs),))
    raise Unsupported("index level")


def M_get_loc(ip, obj, args, kwargs, node):
    k = args[0]
    if not (isinstance(k, tuple) and len(k) == 2):
        raise Unsupported("get_loc of a key that is not (id, dof)")
    hits = []
    for n, (a, b) in enumerate(zip(obj.ids, obj.dofs)):
        r = key_equal((a, b), k)
        if r is None:
            raise Unsupported("get_loc: labels that cannot be compared")
        if r:
            hits.append(n)
    if len(hits) != 1:
        raise PyError("KeyError", f"{k!r}")
    return F.const(hits[0])


def M_index_tolist(ip, obj, args, kwargs, node):
    if args or kwargs:
        return NotImplemented
    return LVal([(a, b) for a, b in zip(obj.ids, obj.dofs)])


def M_tvalues(ip, obj, args, kwargs, node):
    return obj.data


def M_tcopy(ip, obj, args, kwargs, node):
    return Table(obj.data.copy(), obj.ids, obj.dofs, obj.cols)


def M_reset_index(ip, obj, args, kwargs, node):
    """table.reset_index(): the (id, dof) index becomes the two leading columns; the frame is represented by its `.values` (what the anchored
    code takes next: `.values` / `.to_numpy()` of an array are the identity)"""
    if args or kwargs:
        return NotImplemented
    n = len(obj.ids)
    d = obj.data.nested() if obj.data.size else tuple(() for _ in range(n))
    vals = [x for k in range(n) for x in (obj.ids[k], obj.dofs[k]) + tuple(d[k])]
    return Arr.new(vals, (n, 2 + len(obj.cols)))


def M_startswith(ip, obj, args, kwargs, node):
    return NotImplemented


METHODS = {
    Arr: {"any": M_any, "all": M_all, "sum": M_sum, "reshape": M_reshape, "transpose": M_transpose, "copy": M_copyarr, "astype": M_copyarr,
          "to_numpy": M_self, "squeeze": M_self, "view": M_self, "__array__": M_self, "ravel": M_ravel, "flatten": M_flatten,
          "tolist": M_tolist, "fill": M_fill, "dot": M_dot, "item": M_item, "nonzero": M_nonzero, "max": M_max, "min": M_min, "trace": M_trace, "diagonal": M_diagonal},
    LVal: {"append": M_append, "extend": M_extend, "insert": M_insert, "pop": M_pop, "copy": M_lcopy, "reverse": M_reverse, "index": M_index, "sort": M_sort},
    tuple: {"index": M_index},
    DVal: {"get": M_dget, "items": M_ditems, "keys": M_dkeys, "values": M_dvalues, "setdefault": M_dsetdefault, "update": M_dupdate},
    IndexVal: {"get_level_values": M_level, "get_loc": M_get_loc, "tolist": M_index_tolist, "to_list": M_index_tolist},
    Table: {"to_numpy": M_tvalues, "copy": M_tcopy, "__array__": M_tvalues, "reset_index": M_reset_index},
}


# ------------------------------------------------------------------------------------------------------------------ running
class Run:
    """one finished evaluation (one regime)"""

    def __init__(self, ip, ret, raised, pyerror=None):
        self.ip, self.ret, self.raised = ip, ret, raised
        self.pyerror = pyerror       # the exception Python / numpy would raise in this regime
        self.assumed = ip.sh.assumed
        self.sh = ip.sh
        self.asked, self.divs, self.calls, self.cells = ip.sh.asked, ip.sh.divs, ip.sh.calls, ip.sh.cells
        self.decisions = ip.decisions

    @property
    def sure(self):
        """the regime exists: no test was assumed, or a point of the parameter space was found at which every assumed test has the assumed
        outcome (exact evaluation; the regime of a run-time error must be shown to be reachable before the error is reported)"""
        return feasible(self.assumed)


def explore(ctx, rel, fn, args=None, truth=None, hook=None, stops=(), inline_public=(), presets=None, max_paths=96, positional=None):
    """one Run per regime of `fn` (a FunctionDef of `rel`) called with the keyword arguments `args` (parameters that are not given take their
    default, or the symbol of their name).  `positional`: values for the leading parameters by *position* - the way to enter a private helper,
    whose parameter names are nobody's interface"""
    done = []
    stack = [dict(presets or {})]
    n = 0
    while stack:
        dec = stack.pop()
        n += 1
        if n > 4 * max_paths or len(done) > max_paths:
            raise Unsupported(f"more than {max_paths} regimes in {fn.name}")
        ip = Interp(ctx, rel, truth=truth, decisions=dec, hook=hook, stops=stops, inline_public=inline_public)
        f = ip.make_func(fn, ip.scope.frame)
        a = fn.args
        params = [x.arg for x in a.posonlyargs + a.args + a.kwonlyargs]
        nd = len(f.defaults)
        pos = [x.arg for x in a.posonlyargs + a.args]
        kw = dict(args or {})
        if positional:
            if len(positional) > len(pos):
                raise Unsupported(f"{fn.name} takes {len(pos)} positional parameters, {len(positional)} are needed")
            for p, v in zip(pos, positional):
                kw[p] = v
        for k, p in enumerate(pos):
            if p not in kw and k - (len(pos) - nd) < 0:
                kw[p] = F.sym(p)
        for p, d in zip([x.arg for x in a.kwonlyargs], f.kwdefaults):
            if p not in kw and d is None:
                kw[p] = F.sym(p)
        posargs = []
        for p in [x.arg for x in a.posonlyargs]:
            posargs.append(kw.pop(p))
        try:
            ret = ip.invoke(f, posargs, kw, fn)
        except G.NeedDecision as e:
            for b in (False, True):
                d2 = dict(dec)
                d2[e.key] = b
                stack.append(d2)
            continue
        except Raised:
            done.append(Run(ip, None, True))
            continue
        except PyError as e:
            done.append(Run(ip, None, True, pyerror=str(e)))
            continue
        except (_Break, _Continue):
            raise Unsupported("break / continue outside a loop")
        except RecursionError:
            raise Unsupported("evaluation too deep")
        except (Unsupported, G.NeedDecision):
            raise
        except Exception as e:  # noqa - a gap of the interpreter itself is an analysis error with a readable cause
            import traceback
            where = traceback.extract_tb(e.__traceback__)[-1]
            raise Unsupported(f"the evaluation failed internally ({type(e).__name__}: {e}; {os.path.basename(where.filename)}:{where.lineno})")
        done.append(Run(ip, ret, False))
    return done


_TRIPLES = [(Fraction(3, 5), Fraction(4, 5)), (Fraction(5, 13), Fraction(12, 13)), (Fraction(-8, 17), Fraction(15, 17)), (Fraction(4, 5), Fraction(-3, 5)),
            (Fraction(-12, 13), Fraction(-5, 13)), (Fraction(0), Fraction(1)), (Fraction(1), Fraction(0)), (Fraction(0), Fraction(-1)), (Fraction(-1), Fraction(0)),
            (Fraction(7, 25), Fraction(24, 25)), (Fraction(-20, 29), Fraction(21, 29))]
_VALUES = [Fraction(0), Fraction(1), Fraction(-1), Fraction(2), Fraction(-3), Fraction(1, 2), Fraction(-5, 4), Fraction(7, 3), Fraction(1, 1000000000000),
           Fraction(10), Fraction(-7, 2)]


def feasible(assumed, tries=60):
    """is there a point at which all the assumed tests have their assumed outcome?  A small deterministic search over exact points: symbols
    take simple rationals, sin / cos of one argument a Pythagorean pair; True only when such a point was found."""
    if not assumed:
        return True
    atoms = {}
    for v, _ in assumed:
        for aid, d in G.atoms_of(v):
            atoms[aid] = d
    syms = sorted(a for a, d in atoms.items() if d[0] == "s" and d[1] not in ("True", "False", "None", "pi"))
    trig = {}
    for a, d in atoms.items():
        if d[0] in ("sin", "cos"):
            trig.setdefault(d[1], {})[d[0]] = a
    import random
    rnd = random.Random(14)
    for _ in range(tries):
        asg = {a: rnd.choice(_VALUES) for a in syms}
        for a, d in atoms.items():
            if d == ("s", "pi"):
                asg[a] = Fraction(355, 113)
        for key, pair in trig.items():
            sn, cs = rnd.choice(_TRIPLES)
            if "sin" in pair:
                asg[pair["sin"]] = sn
            if "cos" in pair:
                asg[pair["cos"]] = cs
        try:
            if all((G.conc(v, asg) != 0) == dec for v, dec in assumed):
                return True
        except G.Undecided:
            continue
    return False
