"""C01-R12: the rigid-body partition of SolveUnc's uncoupled path and the one get_su_coef uses are the same set.

The solver fixes its rigid-body equations once (`_make_rb_el`: the caller's `rb`, or abs(k) < 0.005) and publishes them as `self._rb` / `self.rbsize`;
every later step (initial conditions, static solves, the coupled path) relies on that set.  `get_su_coef(m, b, k, h, rbmodes)` builds the one-step
coefficients per mode and needs the same answer to "is this mode rigid-body?" - a mode the solver holds elastic but get_su_coef integrates with the
rigid-body recurrence loses its stiffness (d, v wrong; the equilibrium acceleration hides it in the residual).

Decided on values, regime by regime (the solver has rigid-body modes / has none):

  * SolveUnc.__init__ is evaluated up to its call of get_su_coef (found by the function it denotes, arguments placed on the callee's signature): the
    value that reaches `rbmodes` must be the solver's own index set `self._rb`; with no rigid-body modes an empty index set says the same thing;
  * the value None is not "no rigid-body modes" unless get_su_coef reads it so: get_su_coef is evaluated with rbmodes=None for a generic mode with NO
    comparison answered - when the rigid-body flag it returns then depends on the mode's own m, b, k (today: k/m < 0.005), the callee decides the
    partition by a predicate of its own, which differs from the solver's set whenever the caller named the set (`rb=[]`) or a soft elastic mode sits
    between the two tests.  That is a VIOLATION in every regime where None arrives; a get_su_coef in which None selects nothing would make it silent.
"""
from __future__ import annotations

import ast

from . import e2_formula as F
from .core import AnchorError
from .e1_srcmodel import dotted
from .e2_eval import is_unknown

UTIL = "pyyeti/ode/_utilities.py"
SOLVEUNC = "pyyeti/ode/solveunc.py"
BASEF = "pyyeti/ode/_base_ode_class.py"


def _callee_names(ctx, rel, target):
    """the local names under which module `rel` can call the function `target` (imported from a sibling module, possibly renamed; `mod.f`)"""
    from .c01_ev import imported_funcs
    out = {k for k, v in imported_funcs(ctx, rel).items() if v is target}
    return out or {target.name}


def auto_rb_predicate(ctx):
    """how get_su_coef reads rbmodes=None: (decided by the callee itself?, comparisons on the mode's own quantities that feed the rigid-body flag, the flag)"""
    from .c01_ev import Sem01, ModeEv, NONE, DictV
    from .c01_coef import _consts, abs_hook
    from .sem import module_funcs
    fn = ctx.src.func(UTIL, "get_su_coef")
    inl = {k: v for k, v in module_funcs(ctx, UTIL).items() if v is not fn}
    env = {"h": F.sym("h"), "k": F.sym("k"), "b": F.sym("b"), "m": F.sym("m"), "rfmodes": NONE, "rbmodes": NONE}
    S = Sem01(ctx, fn, ev_cls=ModeEv, env=env, inline=inl, consts=_consts(ctx, UTIL), nonnull={"h", "m"}, cmp=lambda node, op, L, R, ev: None, abs_hook=abs_hook)
    ev = S.ev
    ret = ev.returns[-1][0] if ev.returns else None
    flag = ev.plain(ret.d.get("pvrb")) if isinstance(ret, DictV) and "pvrb" in ret.d else None
    if flag is None or is_unknown(flag) or not isinstance(flag, F.Rat):
        return None, [], flag
    own = any(flag.depends_on(s) for s in ("k", "m", "b"))
    preds = []
    for node, op, L, R, r in ev.cmp_log:
        if any(x.depends_on(s) for x in (L, R) for s in ("k", "m", "b")) and f"cmp:{type(op).__name__}(" in repr(flag):
            t = ast.unparse(node)[:60]
            if t not in preds:
                preds.append(t)
    return own, preds, flag


def su_coef_call(ctx, has_rb):
    """SolveUnc.__init__ evaluated on its real uncoupled path, in the regime `self.rbsize` truthy / falsy, up to its call of get_su_coef:
    -> [(call node, {parameter of get_su_coef: value})] (arguments placed on the callee's signature, defaults filled in)"""
    from .c01_ev import Sem01, helpers, Box
    init = ctx.src.func(SOLVEUNC, "SolveUnc.__init__")
    target = ctx.src.func(UTIL, "get_su_coef")
    names = _callee_names(ctx, SOLVEUNC, target)
    sig = [a.arg for a in target.args.posonlyargs + target.args.args]
    dflt = dict(zip(sig[::-1], (target.args.defaults or [])[::-1]))
    if "rbmodes" not in sig:
        raise AnchorError("get_su_coef: parameter rbmodes")
    inl = {k: v for k, v in helpers(ctx, (SOLVEUNC, "SolveUnc"), (BASEF, "_BaseODE")).items()
           if k.split(".")[-1] not in ("__init__", "_common_precalcs", "_inv_m", "_mk_slices", "get_su_eig", "tsolve", "fsolve", "generator") and v is not target
           and k not in names}
    seen = []

    def call(node, ev):
        d = dotted(node.func) or ""
        if d in names:
            got = {}
            for p, a in zip(sig, node.args):
                got[p] = ev.evr(a)
            for k in node.keywords:
                if k.arg is not None:
                    got[k.arg] = ev.evr(k.value)
            for p, dn in dflt.items():
                if p not in got:
                    got[p] = ev.ev(dn)          # a parameter left to its default
            seen.append((node, {p: (v.v if isinstance(v, Box) else v) for p, v in got.items()}))
            return F.sym("<coefficients>")
        if d.startswith("self.") and d.split(".")[-1] in ("_common_precalcs", "_inv_m", "_mk_slices", "get_su_eig"):
            return F.sym("None")          # they set up the attributes the rule reads as symbols (self._rb, self.rbsize, self.m ...)
        return NotImplemented

    Sem01(ctx, init, call=call, inline=inl, nonnull={"h", "self._rb", "self.m", "self.b", "self.k"},
          truth={"self.ksize": True, "self.unc": True, "self.rbsize": has_rb, "self.cdforces": False, "<coefficients>": True, "h": True},
          env={"self.systype": F.sym("float"), "h": F.sym("h")})
    return seen


def su_coef_call_spaces(ctx, attrs, rule):
    """get_su_coef(m, b, k, h, rbmodes) as SolveUnc.__init__ calls it: m, b, k live in one index space and rbmodes holds positions relative to their rows.
    Decided on the VALUES that reach the parameters (positional, keyword, through locals, a conditional expression, *args): each is the attribute it
    denotes, typed by the shared partition-space table"""
    from .c01_ev import unsym, _dotted_node, NONE, Empty
    from .e3_spaces import Arr, Idx, Typer
    from . import ode_spaces as O
    init = ctx.src.func(SOLVEUNC, "SolveUnc.__init__")
    T = Typer(attrs, {}, O.SIZE_NAMES)

    def ty(v):
        n = unsym(v) if isinstance(v, F.Rat) else None
        node = _dotted_node(n) if n else None
        return T.ty(node) if node is not None else None
    done = set()
    for has_rb in (True, False):
        seen = su_coef_call(ctx, has_rb)
        if len(seen) != 1:
            raise AnchorError("SolveUnc.__init__: get_su_coef call")
        node, got = seen[0]
        tys = [ty(got.get(p)) for p in ("m", "b", "k")]
        spaces = {t.s[0] for t in tys if isinstance(t, Arr) and t.s[0]}
        if "mbk" not in done:
            done.add("mbk")
            if not all(isinstance(t, Arr) and t.s[0] for t in tys):
                ctx.error("SolveUnc.__init__: m, b, k passed to get_su_coef were not typed", node, {p: repr(got.get(p))[:80] for p in ("m", "b", "k")})
            else:
                ctx.check(len(spaces) == 1, "SolveUnc.__init__: m, b, k passed to get_su_coef live in one space", node, None if len(spaces) == 1 else str(tys))
        if len(spaces) != 1:
            continue
        sp = next(iter(spaces))
        rbv = got.get("rbmodes")
        key = repr(rbv)
        if key in done:
            continue
        done.add(key)
        if isinstance(rbv, Empty) or (isinstance(rbv, F.Rat) and rbv.equals(NONE)) or (isinstance(rbv, tuple) and not rbv):
            continue          # no positions at all: whether None / an empty set is the right thing to pass is C01-R12's question
        t = ty(rbv)
        if isinstance(t, Idx):
            ok = t.dom == sp
            ctx.check(ok, f"SolveUnc.__init__: the rigid-body index passed to get_su_coef is relative to the rows of m, b, k (space {sp})", node,
                      None if ok else f"`{unsym(rbv)}` holds positions relative to space {t.dom}; m, b, k have one row per {sp} equation "
                                      "(invisible when rf modes are absent or last; wrong for rf modes that precede a rigid-body mode)",
                      key=f"{rule}|SolveUnc.__init__|get_su_coef rbmodes space")
        else:
            ctx.error("SolveUnc.__init__: get_su_coef rbmodes argument not typed", node, repr(rbv)[:200])


def r12_rb_partition_agreement(ctx):
    from .c01_ev import NONE, Empty
    init = ctx.src.func(SOLVEUNC, "SolveUnc.__init__")
    RB = F.sym("self._rb")
    auto = None
    for has_rb in (True, False):
        seen = su_coef_call(ctx, has_rb)
        regime = "the solver has rigid-body modes (rbsize > 0)" if has_rb else "the solver has no rigid-body mode (rbsize == 0)"
        label = f"SolveUnc.__init__: get_su_coef works on the solver's own rigid-body set when {regime}"
        if len(seen) != 1:
            ctx.error(label + ": the call of get_su_coef on the real uncoupled path was not reached exactly once", init, f"{len(seen)} calls")
            continue
        node, got = seen[0]
        val = got.get("rbmodes")
        if isinstance(val, F.Rat) and val.equals(RB):
            ctx.ok(label, node)
            continue
        if isinstance(val, F.Rat) and val.equals(NONE):
            if auto is None:
                auto = auto_rb_predicate(ctx)
            own, preds, flag = auto
            if own is None:
                ctx.error(label + ": rbmodes=None reaches get_su_coef and its reading of None was not lowered", node, repr(flag)[:200])
            elif own:
                ctx.fail(label, node,
                         {"rbmodes": "None", "get_su_coef with rbmodes=None": "selects the rigid-body modes itself" + (f" by `{preds[0]}`" if preds else "") +
                          " (a test on the mode's own stiffness / mass)",
                          "solver": "its rigid-body set is the caller's `rb` or abs(k) < cut-off (self._rb, here " + ("non-empty" if has_rb else "empty") + ")",
                          "witness": "rb=[] (or every abs(k) above the solver's cut-off) and one soft mode with k/m below get_su_coef's: that mode is integrated with "
                                     "the rigid-body recurrence, its stiffness is ignored"},
                         key=f"C01-R12|SolveUnc.__init__|rbmodes None|{'rb' if has_rb else 'no rb'}")
            else:
                ctx.ok(label, node)          # None selects no mode in this get_su_coef
            continue
        empty = isinstance(val, Empty) or (isinstance(val, tuple) and len(val) == 0)
        if empty and not has_rb:
            ctx.ok(label, node)              # an empty index set: no rigid-body mode, said explicitly
            continue
        ctx.error(label + ": the value passed as rbmodes is neither self._rb, an empty index set nor None - not decided", node, repr(val)[:200])
