"""E2 -- exact algebra for formula extraction.

Poly : multivariate polynomial over Q in *atoms* (non-negative integer
       exponents).  Atoms are symbols, exp(<poly>), sin(<poly>), cos(<poly>),
       sqrt(<poly>) and opaque applications fn(name, args...).
Rat  : quotient of two Polys.  Equality is decided by cross-multiplication,
       so no gcd is ever needed:  a/b == c/d  <=>  a*d - c*b == 0.

Canonicalisation performed on every product (so that equal functions have equal
normal forms):  exp(a)*exp(b) = exp(a+b);  sin(u)^2 = 1 - cos(u)^2;
sqrt(p)^2 = p;  I^2 = -1;  sin(-u) = -sin(u), cos(-u) = cos(u).

Also: differentiation with respect to a symbol, substitution, truncated series
in one symbol (Laurent valuation allowed for quotients).

No search, no solver, no floating point: coefficients are fractions.Fraction.
Two formulas agree iff the normal form of their difference is the zero
polynomial.  Anything outside the subset raises Unsupported.
"""
from __future__ import annotations

from fractions import Fraction

from .core import Unsupported

# --------------------------------------------------------------------------
# atoms (interned: the id gives a total order that is stable within a run)
_ATOMS = {}
_ATOM_LIST = []


def _intern(desc):
    i = _ATOMS.get(desc)
    if i is None:
        i = len(_ATOM_LIST)
        _ATOMS[desc] = i
        _ATOM_LIST.append(desc)
    return i


def atom_desc(i):
    return _ATOM_LIST[i]


I_ATOM = _intern(("s", "I"))


class Poly:
    __slots__ = ("t", "_key")

    def __init__(self, terms=None):
        # terms: dict mono -> Fraction ; mono: tuple of (atomid, exp) sorted
        self.t = terms or {}
        self._key = None

    # ---- constructors
    @staticmethod
    def const(c):
        c = Fraction(c)
        return Poly({(): c}) if c else Poly()

    @staticmethod
    def atom(aid, e=1):
        return Poly({((aid, e),): Fraction(1)})

    @staticmethod
    def sym(name):
        return Poly.atom(_intern(("s", name)))

    def key(self):
        if self._key is None:
            self._key = tuple(sorted(self.t.items()))
        return self._key

    def __hash__(self):
        return hash(self.key())

    def __eq__(self, o):
        if not isinstance(o, Poly):
            o = Poly.const(o)
        return self.t == o.t

    def is_zero(self):
        return not self.t

    def is_const(self):
        return all(m == () for m in self.t)

    def const_value(self):
        return self.t.get((), Fraction(0))

    def copy(self):
        return Poly(dict(self.t))

    # ---- arithmetic
    def __add__(self, o):
        o = _P(o)
        r = dict(self.t)
        for m, c in o.t.items():
            v = r.get(m, 0) + c
            if v:
                r[m] = v
            else:
                r.pop(m, None)
        return Poly(r)

    __radd__ = __add__

    def __neg__(self):
        return Poly({m: -c for m, c in self.t.items()})

    def __sub__(self, o):
        return self + (-_P(o))

    def __rsub__(self, o):
        return _P(o) - self

    def scale(self, c):
        c = Fraction(c)
        if not c:
            return Poly()
        return Poly({m: v * c for m, v in self.t.items()})

    def __mul__(self, o):
        o = _P(o)
        if not self.t or not o.t:
            return Poly()
        acc = {}
        need_reduce = False
        for m1, c1 in self.t.items():
            for m2, c2 in o.t.items():
                m, extra, red = _mono_mul(m1, m2)
                c = c1 * c2
                if extra is not None:
                    # multiplication produced a polynomial factor (exp merge gave const etc.)
                    need_reduce = True
                if red:
                    need_reduce = True
                v = acc.get(m, 0) + c
                if v:
                    acc[m] = v
                else:
                    acc.pop(m, None)
        p = Poly(acc)
        if need_reduce:
            p = p.reduce()
        return p

    __rmul__ = __mul__

    def __pow__(self, n):
        if not isinstance(n, int) or n < 0:
            raise Unsupported(f"Poly power {n}")
        r = Poly.const(1)
        b = self
        while n:
            if n & 1:
                r = r * b
            b = b * b if n > 1 else b
            n >>= 1
        return r

    # ---- canonical reductions of powers of special atoms
    def reduce(self):
        """Apply sin^2 -> 1-cos^2, sqrt^2 -> arg, I^2 -> -1 until stable."""
        cur = self
        for _ in range(64):
            changed = False
            out = Poly()
            for m, c in cur.t.items():
                hit = None
                for (a, e) in m:
                    d = _ATOM_LIST[a]
                    if e >= 2 and (d[0] in ("sin", "sqrt") or a == I_ATOM):
                        hit = (a, e, d)
                        break
                    if d[0] == "fn" and d[1] == "root" and e >= int(d[2][1]):
                        hit = (a, e, d)
                        break
                if hit is None:
                    out = out + Poly({m: c})
                    continue
                changed = True
                a, e, d = hit
                rest = tuple((x, y) for (x, y) in m if x != a)
                if d[0] == "fn":
                    nn = int(d[2][1])
                    q, r = divmod(e, nn)
                    num, den = _poly_from_key(d[2][0][1]), _poly_from_key(d[2][0][2])
                    if not den.is_const():
                        raise Unsupported("root of a quotient inside a polynomial")
                    repl = num.scale(1 / den.const_value())
                    term = Poly({rest: c}) * (repl ** q)
                    if r:
                        term = term * Poly.atom(a, r)
                    out = out + term
                    continue
                q, r = divmod(e, 2)
                if a == I_ATOM:
                    repl = Poly.const(-1)
                elif d[0] == "sin":
                    repl = Poly.const(1) - Poly.atom(_intern(("cos", d[1])), 2)
                else:
                    repl = _poly_from_key(d[1])
                term = Poly({rest: c})
                term = term * (repl ** q)
                if r:
                    term = term * Poly.atom(a)
                out = out + term
            cur = out
            if not changed:
                return cur
        raise Unsupported("reduction did not terminate")

    # ---- queries
    def atoms(self):
        s = set()
        for m in self.t:
            for a, _ in m:
                s.add(a)
        return s

    def depends_on(self, aid):
        for a in self.atoms():
            if a == aid or _atom_depends(a, aid):
                return True
        return False

    # ---- calculus
    def diff(self, name):
        aid = _intern(("s", name))
        res = Poly()
        for m, c in self.t.items():
            for i, (a, e) in enumerate(m):
                da = _atom_diff(a, aid)
                if da is None:
                    continue
                rest = m[:i] + (((a, e - 1),) if e > 1 else ()) + m[i + 1:]
                res = res + Poly({rest: c * e}) * da
        return res

    def subs(self, mapping):
        """mapping: name -> Rat/Poly.  Returns Rat."""
        mp = {_intern(("s", k)): _R(v) for k, v in mapping.items()}
        return _subs_poly(self, mp)

    def __repr__(self):
        return fmt_poly(self)


def _P(x):
    if isinstance(x, Poly):
        return x
    if isinstance(x, Rat):
        raise Unsupported("Rat where Poly needed")
    return Poly.const(x)


def _poly_from_key(key):
    return Poly(dict(key))


def _mono_mul(m1, m2):
    """Multiply two monomials; merge exp atoms.  Returns (mono, extra, needs_reduce)."""
    if not m1:
        return m2, None, False
    if not m2:
        return m1, None, False
    d = dict(m1)
    red = False
    for a, e in m2:
        d[a] = d.get(a, 0) + e
    # merge exponentials
    exps = [(a, e) for a, e in d.items() if _ATOM_LIST[a][0] == "exp"]
    if len(exps) > 1 or (len(exps) == 1 and exps[0][1] != 1):
        arg = Poly()
        for a, e in exps:
            arg = arg + _poly_from_key(_ATOM_LIST[a][1]).scale(e)
            del d[a]
        if not arg.is_zero():
            na = _intern(("exp", arg.key()))
            d[na] = 1
    for a, e in d.items():
        if e >= 2:
            dd = _ATOM_LIST[a]
            k = dd[0]
            if k in ("sin", "sqrt") or a == I_ATOM or (k == "fn" and dd[1] == "root" and e >= int(dd[2][1])):
                red = True
                break
    return tuple(sorted(d.items())), None, red


def _atom_depends(a, aid):
    d = _ATOM_LIST[a]
    if d[0] == "s":
        return False
    if d[0] in ("exp", "sin", "cos", "sqrt"):
        return _poly_from_key(d[1]).depends_on(aid)
    if d[0] == "fn":
        for k in d[2]:
            if isinstance(k, tuple) and k and k[0] == "rat":
                if _poly_from_key(k[1]).depends_on(aid) or _poly_from_key(k[2]).depends_on(aid):
                    return True
        return False
    return False


def _atom_diff(a, aid):
    d = _ATOM_LIST[a]
    if d[0] == "s":
        return Poly.const(1) if a == aid else None
    if d[0] in ("exp", "sin", "cos"):
        u = _poly_from_key(d[1])
        du = u.diff(_ATOM_LIST[aid][1])
        if du.is_zero():
            return None
        if d[0] == "exp":
            return du * Poly.atom(a)
        if d[0] == "sin":
            return du * Poly.atom(_intern(("cos", d[1])))
        return -(du * Poly.atom(_intern(("sin", d[1]))))
    if _atom_depends(a, aid):
        raise Unsupported(f"derivative of atom {fmt_atom(a)}")
    return None


# --------------------------------------------------------------------------
class Rat:
    __slots__ = ("n", "d")

    def __init__(self, n, d=None):
        self.n = _P(n)
        self.d = Poly.const(1) if d is None else _P(d)
        if self.d.is_zero():
            raise Unsupported("division by zero polynomial")
        self._simplify()

    def _simplify(self):
        n, d = self.n, self.d
        if n.is_zero():
            self.d = Poly.const(1)
            return
        # move exp atoms of a single-term denominator to the numerator,
        # cancel the common monomial and make the denominator's content 1
        if len(d.t) == 1:
            (m, c), = d.t.items()
            if m == ():
                if c != 1:
                    self.n = n.scale(1 / c)
                    self.d = Poly.const(1)
                return
            inv = Poly.const(1)
            keep = []
            for a, e in m:
                ds = _ATOM_LIST[a]
                if ds[0] == "exp":
                    inv = inv * Poly.atom(_intern(("exp", (-_poly_from_key(ds[1])).key())))
                else:
                    keep.append((a, e))
            n = (n * inv).scale(1 / c)
            # cancel common symbol powers
            keepd = dict(keep)
            for a in list(keepd):
                mn = min((dict(mm).get(a, 0) for mm in n.t), default=0)
                k = min(mn, keepd[a])
                if k and a != I_ATOM:
                    n = Poly({_mono_drop(mm, a, k): cc for mm, cc in n.t.items()})
                    keepd[a] -= k
                    if not keepd[a]:
                        del keepd[a]
            self.n = n
            self.d = Poly({tuple(sorted(keepd.items())): Fraction(1)})

    # arithmetic
    def __add__(self, o):
        o = _R(o)
        if self.d == o.d:
            return Rat(self.n + o.n, self.d)
        return Rat(self.n * o.d + o.n * self.d, self.d * o.d)

    __radd__ = __add__

    def __neg__(self):
        return Rat(-self.n, self.d)

    def __sub__(self, o):
        return self + (-_R(o))

    def __rsub__(self, o):
        return _R(o) - self

    def __mul__(self, o):
        o = _R(o)
        return Rat(self.n * o.n, self.d * o.d)

    __rmul__ = __mul__

    def __truediv__(self, o):
        o = _R(o)
        if o.n.is_zero():
            raise Unsupported("division by zero")
        return Rat(self.n * o.d, self.d * o.n)

    def __rtruediv__(self, o):
        return _R(o) / self

    def __pow__(self, n):
        if isinstance(n, Rat):
            if n.is_const():
                n = n.const_value()
            else:
                raise Unsupported("symbolic exponent")
        n = Fraction(n)
        if n.denominator == 1:
            n = int(n)
            if n >= 0:
                return Rat(self.n ** n, self.d ** n)
            return Rat(self.d ** (-n), self.n ** (-n))
        if n.denominator == 2:
            r = sqrt(self)
            return r ** int(n.numerator)
        if n > 0:
            r = root(self, n.denominator)
            return r ** int(n.numerator)
        raise Unsupported(f"power {n}")

    def is_zero(self):
        return self.n.is_zero()

    def is_const(self):
        return self.n.is_const() and self.d.is_const()

    def const_value(self):
        return self.n.const_value() / self.d.const_value()

    def equals(self, o):
        o = _R(o)
        return (self.n * o.d - o.n * self.d).is_zero()

    def diff(self, name):
        dn = self.n.diff(name)
        dd = self.d.diff(name)
        if dd.is_zero():
            return Rat(dn, self.d)
        return Rat(dn * self.d - self.n * dd, self.d * self.d)

    def subs(self, mapping):
        mp = {_intern(("s", k)): _R(v) for k, v in mapping.items()}
        return _subs_poly(self.n, mp) / _subs_poly(self.d, mp)

    def depends_on(self, name):
        aid = _intern(("s", name))
        return self.n.depends_on(aid) or self.d.depends_on(aid)

    def __repr__(self):
        if self.d == Poly.const(1):
            return fmt_poly(self.n)
        return f"({fmt_poly(self.n)})/({fmt_poly(self.d)})"


def _mono_drop(m, a, k):
    out = []
    for x, e in m:
        if x == a:
            if e - k:
                out.append((x, e - k))
        else:
            out.append((x, e))
    return tuple(out)


def _R(x):
    if isinstance(x, Rat):
        return x
    if isinstance(x, Poly):
        return Rat(x)
    return Rat(Poly.const(x))


def sym(name):
    return Rat(Poly.sym(name))


def const(c):
    return Rat(Poly.const(c))


I = Rat(Poly.atom(I_ATOM))


def _need_poly(r, what):
    r = _R(r)
    if not r.d.is_const():
        raise Unsupported(f"{what} of a non-polynomial argument {r}")
    return r.n.scale(1 / r.d.const_value())


def _leading_negative(p):
    if p.is_zero():
        return False
    k = min(p.t)
    return p.t[k] < 0


def exp(r):
    p = _need_poly(r, "exp")
    if p.is_zero():
        return const(1)
    return Rat(Poly.atom(_intern(("exp", p.key()))))


def sin(r):
    p = _need_poly(r, "sin")
    if p.is_zero():
        return const(0)
    if _leading_negative(p):
        return -Rat(Poly.atom(_intern(("sin", (-p).key()))))
    return Rat(Poly.atom(_intern(("sin", p.key()))))


def cos(r):
    p = _need_poly(r, "cos")
    if p.is_zero():
        return const(1)
    if _leading_negative(p):
        p = -p
    return Rat(Poly.atom(_intern(("cos", p.key()))))


def log(r):
    """log(exp(u)) = u ; log(1) = 0 ; otherwise an opaque atom"""
    r = _R(r)
    if r.equals(1):
        return const(0)
    # single-term numerator and denominator made only of one exp atom (and a positive constant 1)
    def only_exp(p):
        if len(p.t) != 1:
            return None
        (m, c), = p.t.items()
        if c != 1:
            return None
        if m == ():
            return Poly()
        if len(m) == 1 and m[0][1] == 1 and _ATOM_LIST[m[0][0]][0] == "exp":
            return _poly_from_key(_ATOM_LIST[m[0][0]][1])
        return None
    a, b = only_exp(r.n), only_exp(r.d)
    if a is not None and b is not None:
        return Rat(a - b)
    return fn("log", r)


def cosh(r):
    return (exp(r) + exp(-_R(r))) / 2


def sinh(r):
    return (exp(r) - exp(-_R(r))) / 2


def sqrt(r):
    r = _R(r)
    return Rat(_sqrt_poly(r.n), _sqrt_poly(r.d))


def _sqrt_poly(p):
    if p.is_const():
        c = p.const_value()
        rn, rd = _isqrt(c.numerator), _isqrt(c.denominator)
        if rn is not None and rd is not None:
            return Poly.const(Fraction(rn, rd))
    if len(p.t) == 1:
        (m, c), = p.t.items()
        rn, rd = _isqrt(c.numerator) if c > 0 else None, _isqrt(c.denominator)
        if rn is not None and rd is not None and all(
            e % 2 == 0 and _ATOM_LIST[a][0] == "s" for a, e in m
        ):
            return Poly({tuple((a, e // 2) for a, e in m): Fraction(rn, rd)})
    return Poly.atom(_intern(("sqrt", p.key())))


def _isqrt(n):
    if n < 0:
        return None
    import math

    r = math.isqrt(n)
    return r if r * r == n else None


def root(r, n):
    """principal n-th root as an opaque atom with root(x, n)^n = x"""
    r = _R(r)
    one = Poly.const(1)

    def at(p):
        if p.is_const():
            c = p.const_value()
            for k in range(1, 200):
                if Fraction(k) ** n == c:
                    return Poly.const(k)
        return Poly.atom(_intern(("fn", "root", (("rat", p.key(), one.key()), f"{n}"))))
    # formal identity for positive quantities: root(a/b) = root(a)/root(b)
    return Rat(at(r.n), at(r.d))


def fn(name, *args):
    """Opaque application; args are Rats (kept by normal-form key) or strings."""
    keys = []
    for a in args:
        if isinstance(a, str):
            keys.append(a)
        else:
            a = _R(a)
            keys.append(("rat", a.n.key(), a.d.key()))
    return Rat(Poly.atom(_intern(("fn", name, tuple(keys)))))


def _subs_poly(p, mp):
    res = const(0)
    for m, c in p.t.items():
        term = const(c)
        for a, e in m:
            term = term * (_subs_atom(a, mp) ** e)
        res = res + term
    return res


def _subs_atom(a, mp):
    if a in mp:
        return mp[a]
    d = _ATOM_LIST[a]
    if d[0] == "s":
        return Rat(Poly.atom(a))
    if d[0] in ("exp", "sin", "cos", "sqrt"):
        arg = _subs_poly(_poly_from_key(d[1]), mp)
        return {"exp": exp, "sin": sin, "cos": cos, "sqrt": sqrt}[d[0]](arg)
    if d[0] == "fn":
        args = []
        for k in d[2]:
            if isinstance(k, str):
                args.append(k)
            else:
                args.append(_subs_poly(_poly_from_key(k[1]), mp) / _subs_poly(_poly_from_key(k[2]), mp))
        return fn(d[1], *args)
    raise Unsupported(f"subs atom {d}")


# --------------------------------------------------------------------------
# truncated series in one symbol; coefficients are Rats not depending on it
class Series:
    """sum_{k>=val} c[k-val] x^k, truncated: terms with k > order are dropped."""

    def __init__(self, coeffs, val, order):
        self.c = list(coeffs)
        self.val = val
        self.order = order
        self._trim()

    def _trim(self):
        while self.c and self.c[0].is_zero():
            self.c.pop(0)
            self.val += 1
        n = self.order - self.val + 1
        if n < len(self.c):
            self.c = self.c[: max(n, 0)]

    def coef(self, k):
        i = k - self.val
        if 0 <= i < len(self.c):
            return self.c[i]
        return const(0)

    def __add__(self, o):
        order = min(self.order, o.order)
        if not self.c:
            return Series(o.c, o.val, order)
        if not o.c:
            return Series(self.c, self.val, order)
        v = min(self.val, o.val)
        out = [self.coef(k) + o.coef(k) for k in range(v, order + 1)]
        return Series(out, v, order)

    def __neg__(self):
        return Series([-c for c in self.c], self.val, self.order)

    def __sub__(self, o):
        return self + (-o)

    def __mul__(self, o):
        if not self.c or not o.c:
            return Series([], 0, min(self.order + o.val, o.order + self.val))
        v = self.val + o.val
        # relative precision: each factor known to `order`; product known to min(order_a + val_b, order_b + val_a)
        order = min(self.order + o.val, o.order + self.val)
        n = order - v + 1
        out = [const(0)] * max(n, 0)
        for i, a in enumerate(self.c):
            if i >= n:
                break
            for j, b in enumerate(o.c):
                if i + j >= n:
                    break
                out[i + j] = out[i + j] + a * b
        return Series(out, v, order)

    def inv(self):
        if not self.c:
            raise Unsupported("series inverse of zero")
        a0 = self.c[0]
        n = self.order - self.val + 1
        out = [const(1) / a0]
        for k in range(1, n):
            s = const(0)
            for j in range(1, k + 1):
                if j < len(self.c):
                    s = s + self.c[j] * out[k - j]
            out.append(-s / a0)
        return Series(out, -self.val, self.order - 2 * self.val)


def _series_poly(p, aid, order):
    name = _ATOM_LIST[aid][1]
    res = Series([], 0, order)
    for m, c in p.t.items():
        term = Series([const(c)], 0, order)
        for a, e in m:
            s = _series_atom(a, aid, order)
            for _ in range(e):
                term = term * s
        res = res + term
    return res


def _split_arg(u, aid, order):
    """u(x) = u0 + delta(x); returns (u0 Rat, delta Series with val>=1)."""
    s = _series_poly(u, aid, order)
    if s.c and s.val < 0:
        raise Unsupported("transcendental of a singular argument")
    u0 = s.coef(0)
    delta = Series([s.coef(k) for k in range(1, order + 1)], 1, order)
    return u0, delta


def _series_atom(a, aid, order):
    d = _ATOM_LIST[a]
    if a == aid:
        return Series([const(1)], 1, order)
    if d[0] == "s" or not _atom_depends(a, aid):
        return Series([Rat(Poly.atom(a))], 0, order)
    if d[0] in ("exp", "sin", "cos"):
        u0, delta = _split_arg(_poly_from_key(d[1]), aid, order)
        # series of exp(delta), sin(delta), cos(delta)
        one = Series([const(1)], 0, order)
        pw = one
        e_s = one
        s_s = Series([], 0, order)
        c_s = one
        fact = 1
        for k in range(1, order + 1):
            pw = pw * delta
            fact *= k
            tk = Series([c / fact for c in pw.c], pw.val, pw.order)
            e_s = e_s + tk
            if k % 2 == 1:
                s_s = s_s + (tk if (k // 2) % 2 == 0 else -tk)
            else:
                c_s = c_s + (tk if (k // 2) % 2 == 0 else -tk)
        if d[0] == "exp":
            return Series([exp(u0)], 0, order) * e_s
        su0 = Series([sin(u0)], 0, order)
        cu0 = Series([cos(u0)], 0, order)
        if d[0] == "sin":
            return su0 * c_s + cu0 * s_s
        return cu0 * c_s - su0 * s_s
    raise Unsupported(f"series of atom {fmt_atom(a)}")


def series(r, name, order, extra=4):
    """Laurent series of Rat r in symbol `name` up to x^order."""
    r = _R(r)
    aid = _intern(("s", name))
    work = order + extra
    for _ in range(4):
        ns = _series_poly(r.n, aid, work)
        ds = _series_poly(r.d, aid, work)
        if not ds.c:
            work += 4
            continue
        q = ns * ds.inv()
        if q.order >= order:
            return Series(q.c, q.val, order)
        work += (order - q.order) + 2
    raise Unsupported("series precision not reached")


def coeffs_in(p, name):
    """Coefficients of Poly p viewed as a polynomial in symbol `name`: {exp: Poly}."""
    aid = _intern(("s", name))
    out = {}
    for m, c in p.t.items():
        e = 0
        rest = []
        for a, k in m:
            if a == aid:
                e = k
            else:
                if _atom_depends(a, aid):
                    raise Unsupported(f"{name} occurs inside {fmt_atom(a)}")
                rest.append((a, k))
        q = out.setdefault(e, Poly())
        out[e] = q + Poly({tuple(rest): c})
    return {e: q for e, q in out.items() if not q.is_zero()}


# --------------------------------------------------------------------------
def fmt_atom(a):
    d = _ATOM_LIST[a]
    if d[0] == "s":
        return d[1]
    if d[0] in ("exp", "sin", "cos", "sqrt"):
        return f"{d[0]}({fmt_poly(_poly_from_key(d[1]))})"
    if d[0] == "fn":
        parts = []
        for k in d[2]:
            if isinstance(k, str):
                parts.append(k)
            else:
                nn, dd = _poly_from_key(k[1]), _poly_from_key(k[2])
                parts.append(fmt_poly(nn) if dd == Poly.const(1) else f"({fmt_poly(nn)})/({fmt_poly(dd)})")
        return f"{d[1]}({', '.join(parts)})"
    return str(d)


def fmt_poly(p):
    if p.is_zero():
        return "0"
    items = []
    for m, c in p.t.items():
        f = "*".join(fmt_atom(a) + (f"^{e}" if e != 1 else "") for a, e in m)
        items.append((f, c))
    items.sort()
    out = []
    for f, c in items:
        if not f:
            out.append(str(c))
        elif c == 1:
            out.append(f)
        elif c == -1:
            out.append("-" + f)
        else:
            out.append(f"{c}*{f}")
    s = " + ".join(out).replace("+ -", "- ")
    return s if len(s) < 400 else s[:400] + "..."
