"""C12 helper -- abstract card text: a line is a run of *atoms* of exactly known width (literal characters, or the rendering of one
symbolic field in a column of fixed width).  Slicing, right-stripping, splitting at commas, first character and length are computed on the
atoms, so the card readers can be evaluated on the text the writers produce for a symbolic card.

Assumption (recorded by the rule): a field value fits the column it is written into (integers of at most W digits, strings of at most W
characters, and the float formatters return exactly W characters - the latter is what C12-R1/R2/R2b decide).
"""
from __future__ import annotations

from fractions import Fraction

from .c12_str import Unk, Opaque, Lit, Fmt, Cat, Strip, Slice, StrOf, CallS, Tup, cat, as_int, is_str
from .c12_exec import walk_value

FLOATW = {"format_float8": 8, "format_float16": 16, "format_double16": 16}
BLANKS = " \t\n\r\x0b\x0c"


def FIELD(i, typ):
    return Opaque("field", (Fraction(i), Lit(typ)))


def is_field(v):
    return isinstance(v, Opaque) and v.name == "field"


def field_of(v):
    """the symbolic field rendered by an atom (None for literal text)"""
    for n in walk_value(v):
        if is_field(n):
            return n
    return None


def atom_width(v):
    if isinstance(v, Lit):
        return len(v.s)
    if isinstance(v, Fmt) and is_field(v.arg) and v.spec.typ in ("s", "d") and v.spec.conv is None and v.spec.prec is None:
        return as_int(v.spec.width) if v.spec.width is not None else None
    if isinstance(v, CallS) and v.name in FLOATW and len(v.args) == 1 and is_field(v.args[0]):
        return FLOATW[v.name]
    if isinstance(v, StrOf) and is_field(v.x):
        return 1            # a token of the comma form: its length is immaterial, only that it is not empty
    return None


def atoms(v):
    """string value -> [(atom, width)] or None"""
    parts = v.parts if isinstance(v, Cat) else (v,)
    out = []
    for p in parts:
        w = atom_width(p)
        if w is None:
            return None
        out.append((p, w))
    return out


def width(v):
    a = atoms(v)
    return None if a is None else sum(w for _, w in a)


def ends_nonblank(atom):
    """does the rendering certainly end with a non-blank character (right-justified number) / certainly contain one"""
    if isinstance(atom, Fmt) and atom.spec.typ == "d":
        return atom.spec.eff_align(False) in (">", "=")
    if isinstance(atom, CallS):
        return True
    if isinstance(atom, StrOf) and is_field(atom.x):
        return True
    return False


def has_nonblank(atom):
    if isinstance(atom, Lit):
        return atom.s.strip(BLANKS) != ""
    if isinstance(atom, Fmt) and atom.spec.typ == "d":
        return True
    if isinstance(atom, CallS):
        return True
    if isinstance(atom, Fmt) and atom.spec.typ == "s" and is_field(atom.arg):
        return atom.arg.args[1].s == "str"          # a non-empty name / string field is taken to hold a non-blank character
    if isinstance(atom, StrOf) and is_field(atom.x):
        return True
    return None


def all_blank(v):
    """True / False / None"""
    a = atoms(v) if not isinstance(v, list) else v
    if a is None:
        return None
    unknown = False
    for at, _ in a:
        h = has_nonblank(at)
        if h:
            return False
        if h is None:
            unknown = True
    return None if unknown else True


def rstrip(v):
    a = atoms(v)
    if a is None:
        return Unk("right strip of text of unknown layout")
    while a:
        at, w = a[-1]
        if isinstance(at, Lit):
            s = at.s.rstrip(BLANKS)
            if s:
                a[-1] = (Lit(s), len(s))
                break
            a.pop()
            continue
        if ends_nonblank(at):
            break
        return Unk("right strip: trailing blanks of a left-justified field are not known")
    return cat(*[at for at, _ in a])


def slice_text(v, lo, hi):
    """v[lo:hi] for non-negative constant bounds (None = open); a cut through the rendering of a field gives Opaque('part', ...)"""
    a = atoms(v)
    if a is None:
        return Unk("slice of text of unknown layout")
    total = sum(w for _, w in a)
    lo = 0 if lo is None else lo
    hi = total if hi is None else min(hi, total)
    if lo < 0 or hi < 0:
        return Unk("negative slice bound")
    out = []
    pos = 0
    for at, w in a:
        s, e = max(lo, pos), min(hi, pos + w)
        if s < e:
            if s == pos and e == pos + w:
                out.append(at)
            elif isinstance(at, Lit):
                out.append(Lit(at.s[s - pos:e - pos]))
            else:
                out.append(Opaque("part", (at, Fraction(s - pos), Fraction(e - pos))))
        pos += w
    return cat(*[o for o in out if is_str(o)]) if all(is_str(o) for o in out) else (out[0] if len(out) == 1 else Opaque("parts", tuple(out)))


def first_char(v):
    a = atoms(v)
    if not a:
        return None
    at = a[0][0]
    if isinstance(at, Lit) and at.s:
        return at.s[0]
    return None


def split_lines(v):
    """text -> list of line values (split at newlines of literal pieces); a trailing empty line is dropped"""
    parts = v.parts if isinstance(v, Cat) else (v,)
    lines = [[]]
    for p in parts:
        if isinstance(p, Lit):
            segs = p.s.split("\n")
            for i, sg in enumerate(segs):
                if i:
                    lines.append([])
                if sg:
                    lines[-1].append(Lit(sg))
        else:
            lines[-1].append(p)
    out = [cat(*ln) for ln in lines]
    if out and out[-1] == Lit(""):
        out.pop()
    return out


def split_commas(v, sep=","):
    """text.split(sep): only literal pieces can hold the separator (fields are numbers / names)"""
    parts = v.parts if isinstance(v, Cat) else (v,)
    toks = [[]]
    for p in parts:
        if isinstance(p, Lit):
            segs = p.s.split(sep)
            for i, sg in enumerate(segs):
                if i:
                    toks.append([])
                if sg:
                    toks[-1].append(Lit(sg))
        else:
            toks[-1].append(p)
    return Tup(tuple(cat(*t) for t in toks))


def parse_fixed(line, W, first):
    """reference grid: 8-column head, then W-wide slots up to column 72 -> (head text or None, [slot content], problem or None)
    slot content: the field symbol, 'blank', or ('text', str)"""
    a = atoms(line)
    if a is None:
        return None, [], "line of unknown layout"
    cols = []                   # per column: ('c', char) or ('a', atom index, offset)
    for i, (at, w) in enumerate(a):
        if isinstance(at, Lit):
            cols.extend(("c", ch) for ch in at.s)
        else:
            cols.extend(("a", i, k) for k in range(w))
    head = cols[:8]
    if any(c[0] != "c" for c in head):
        return None, [], "a field is written into the first 8 columns"
    headtxt = "".join(c[1] for c in head)
    slots = []
    pos = 8
    problem = None
    while pos < min(len(cols), 72):
        seg = cols[pos:pos + W]
        if pos + W > 72:
            if any(c[0] == "a" or c[1] not in BLANKS for c in seg[:72 - pos]):
                problem = "data beyond the last whole field before column 72"
            break
        kinds = {c[0] for c in seg}
        if kinds == {"c"}:
            txt = "".join(c[1] for c in seg)
            slots.append("blank" if txt.strip(BLANKS) == "" else ("text", txt))
        elif kinds == {"a"} and len({c[1] for c in seg}) == 1 and len(seg) == W and seg[0][2] == 0 and a[seg[0][1]][1] == W:
            f = field_of(a[seg[0][1]][0])
            slots.append(f if f is not None else ("text", "?"))
        else:
            problem = f"the text in columns {pos}-{pos + W} is not one {W}-wide field"
            break
        pos += W
    for c in cols[72:]:
        if c[0] == "a":
            problem = problem or "a field is written beyond column 72"
    return headtxt, slots, problem
