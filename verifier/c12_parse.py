"""C12-R4 -- every class of text the formatters emit is read back by nas_sscanf as the number it denotes.

The classes come from the analyses of the other rules (the column model of each fixed-notation decade, the pieces of each scientific
rendering per sign and exponent length); each is instantiated with digits and nas_sscanf is evaluated on that literal text by the abstract
engine (concrete text, exceptions of int()/float() followed into the handlers, regular expressions applied to the literals).  Nothing of
pyyeti is imported or run; the reference value is computed here from the pieces, not by the code under analysis.
"""
from __future__ import annotations

from fractions import Fraction

from .core import Unsupported
from .c12_str import Const, Lit, is_num
from .c12_exec import Engine, Interval
from .c12_float import BULK, SciRun, SCI_INTERVALS, inner_of

DIG = "1234567891234567891"
EXPD = {1: "5", 2: "25", 3: "125"}


def read_back(ctx, text):
    """value nas_sscanf returns for a literal text: Fraction, Lit, Const(None) ... or raises Unsupported"""
    fn = ctx.src.func(BULK, "nas_sscanf")
    ps = [a.arg for a in fn.args.args]
    env = {ps[0]: Lit(text)}
    for p in ps[1:]:
        env[p] = Const(False)
    eng = Engine(ctx, BULK, fn, env=env, exceptions=True, inline=lambda name: True)      # conversion helpers are followed
    leaves = eng.run()
    if not leaves or any((lf.kind, lf.value if lf.kind == "return" else None) != (leaves[0].kind, leaves[0].value if leaves[0].kind == "return" else None)
                         for lf in leaves):
        raise Unsupported(f"nas_sscanf({text!r}): {len(leaves)} paths, undecided {[f[0] for lf in leaves for f in lf.state.facts][:3]}")
    lf = leaves[0]
    if lf.kind != "return":
        return ("raises", lf.value.s if isinstance(lf.value, Lit) else "?")
    return lf.value


def _same(v, want):
    return is_num(v) and v == want


def _check(ctx, what, samples, where):
    """samples: [(text, exact value)]"""
    bad = []
    for text, want in samples:
        try:
            got = read_back(ctx, text)
        except Unsupported as e:
            ctx.error(f"nas_sscanf on {what}: not modelled", where, str(e))
            return
        if not (is_num(got) or isinstance(got, (Lit, Const)) or (isinstance(got, tuple) and got[0] == "raises")):
            ctx.error(f"nas_sscanf on {what}: result for {text!r} is not concrete", where, repr(got)[:200])
            return
        if not _same(got, want):
            bad.append({"text": text, "denotes": float(want), "nas_sscanf returns": (float(got) if is_num(got) else repr(got))})
    ok = bool(samples) and not bad
    ctx.check(ok, f"nas_sscanf reads {what} back as the number the text denotes ({len(samples)} instance(s), e.g. {samples[0][0]!r})" if samples
              else f"nas_sscanf on {what}: no instance", where, None if ok else bad[:3])


def cols_text(c, k):
    """instantiate a column model of decade k with digits -> (text, exact value)"""
    if k >= 1:
        ip, fr = DIG[:c.intd], DIG[c.intd:c.intd + c.P]
        if c.frac_zero:
            ip, fr = "1" + "0" * (c.intd - 1), "0" * c.P
        num_i, num_f = ip, fr
    else:
        lead = "0" * min(-k, c.P)
        fr = (lead + DIG)[:c.P]
        if c.frac_zero:
            fr = "0" * c.P
        ip = "0" if c.lead0 or c.intd == 0 else "1"
        if c.frac_zero and not c.lead0 and c.intd:
            ip = "1"
        num_i, num_f = ip, fr
        ip = ip if c.intd else ""
    sign = "-" if c.sign else ""
    text = " " * c.pad_l + sign + ip + ("." if c.point else "") + fr + " " * c.pad_r
    val = Fraction(float(sign + (num_i or "0") + "." + (num_f or "0")))
    return text, val


def r4_parse_back(ctx):
    from .c12 import _analysis, FLOATS
    nfn = ctx.src.func(BULK, "nas_sscanf")
    # fixed notation: one instance per decade and rounding case of the ladders
    for q, W in FLOATS:
        A = _analysis(ctx, q, W)
        for neg in (False, True):
            samples = []
            for k in range(-1, (W - 2 if neg else W - 1) + 1):
                pk = W - (1 if neg else 0) - max(k, 1) - 1 + (1 if k <= 0 else 0)
                for lf, reg, fm, im in A.covering(neg, k, pk):
                    for c in fm or []:
                        if not c.corrupt and c.width == W:
                            samples.append(cols_text(c, k))
            _check(ctx, f"the fixed-notation fields of {q} ({'negative' if neg else 'positive'} values)", samples, nfn)
    # scientific notation: per helper, sign, exponent sign and exponent length
    for q, W, extra in (("_format_scientific8", 8, ""), ("_format_scientific16", 16, ""), ("format_double16", 16, "D")):
        for label, iv, neg, small, expzero in SCI_INTERVALS:
            for e in ((1,) if expzero else (1, 2, 3)):
                run = SciRun(ctx, q, label, iv, neg, small, e)
                rets = [lf for lf in run.leaves if lf.kind == "return"]
                if not rets or any(lf.value != rets[0].value for lf in rets):
                    continue            # C12-R2 reports it
                pcs = run.pieces(rets[0].value)
                ps = run.mantissa_precision(rets[0].value)
                kinds = [kk for kk, _ in pcs]
                if kinds == ["mantissa", "lit"] and expzero and pcs[1][1].endswith("0"):
                    kinds, pcs = kinds + ["exp"], [pcs[0], ("lit", pcs[1][1][:-1]), ("exp", None)]      # the exponent 0 written as a literal digit
                if kinds != ["mantissa", "lit", "exp"] or len(ps) != 1:
                    continue
                P = min(ps)
                lit = pcs[1][1]
                samples = []
                for frac in (DIG[1:1 + P], ""):
                    mant = ("-" if neg else "") + "1." + frac
                    ed = "0" if expzero else EXPD[e]
                    text = (mant + lit + ed).rjust(W)
                    want = Fraction(float(mant + "0e" + ("-" if small else "+") + ed))
                    samples.append((text, want))
                _check(ctx, f"the {q} field ({label}, {e}-digit exponent)", samples, nfn)
        z = SciRun(ctx, q, "zero", Interval(Fraction(0), True, Fraction(0), True), False, True, 1)
        rets = [lf for lf in z.leaves if lf.kind == "return" and isinstance(lf.value, Lit)]
        _check(ctx, f"the {q} field for zero", [(rets[0].value.s, Fraction(0))] if rets else [], nfn)
    # integers as the card writers print them
    _check(ctx, "right-justified integer fields", [("     101", Fraction(101)), ("-1234567", Fraction(-1234567)), ("%16d" % 42, Fraction(42)),
                                                   ("       0", Fraction(0))], nfn)
    # blank fields are None (the readers substitute their blank value)
    try:
        got = [read_back(ctx, t) for t in ("        ", " " * 16, "")]
        ok = all(g == Const(None) for g in got)
        if not ok and not all(is_num(g) or isinstance(g, (Lit, Const)) or (isinstance(g, tuple) and g[0] == "raises") for g in got):
            ctx.error("nas_sscanf on a blank field: the result is not concrete", nfn, [repr(g)[:200] for g in got])
        else:
            ctx.check(ok, "nas_sscanf returns None for a blank field", nfn, None if ok else [repr(g) for g in got])
    except Unsupported as e:
        ctx.error("nas_sscanf on a blank field: not modelled", nfn, str(e))
