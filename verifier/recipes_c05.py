"""C05 -- additional break / neutral recipes for the thorough tier (same tuple format as selftest.RECIPES)."""

C = "pyyeti/rainflow/c_rain.c"
PY = "pyyeti/rainflow/py_rain.py"
CYC = "pyyeti/cyclecount.py"

_C1_TAIL = ("    for (k=0; k<j; ++k) {\n      B = pts[k+1];\n      *rf++ = fabs(A-B)/2;\n      *rf++ = (A+B)/2;\n      *rf++ = 0.5;\n      A = B;\n    }\n")
_PY1_HEAD = ("    # not getting offsets:\n    pts = np.empty(L)\n    rf = np.empty((L - 1, 3))\n    j = -1\n    fullcyclesp1 = 1  # full cycles plus 1\n    n = -1\n")
_PY1_TAIL = ("        rf[n, 0] = abs(A - B) / 2\n        rf[n, 1] = (A + B) / 2\n        rf[n, 2] = 0.5\n        A = B\n\n    return rf[: L - fullcyclesp1]\n")
_PY2_TAIL = ("    A = pts[0]\n    for k in range(j):\n        B = pts[k + 1]\n        n += 1\n        rf[n, 0] = abs(A - B) / 2\n        rf[n, 1] = (A + B) / 2\n        rf[n, 2] = 0.5\n"
             "        os[n, 0] = cycle_index[k]\n        os[n, 1] = cycle_index[k + 1]\n        A = B\n")

RECIPES = [
    # ---- break
    ("C05", "break", ["C05-R4"], PY, _PY1_HEAD, _PY1_HEAD.replace("    n = -1\n", "    n = 0\n"), "row counter starts one too high: row 0 is never written"),
    ("C05", "break", ["C05-R1", "C05-R3"], C, _C1_TAIL, _C1_TAIL.replace("      A = B;\n", ""), "step 6 in C: the carried point is not advanced"),
    ("C05", "break", ["C05-R1", "C05-R3", "C05-R5"], PY, _PY2_TAIL, _PY2_TAIL.replace("os[n, 1] = cycle_index[k + 1]", "os[n, 1] = cycle_index[k]"), "step 6 offsets name one point twice"),
    ("C05", "break", ["C05-R8"], C, "    free(pts);\n    free(cycle_index);\n\n#ifdef USE_FASTER_RAINFLOW_ROUTINE", "    free(pts);\n\n#ifdef USE_FASTER_RAINFLOW_ROUTINE",
     "position stack not freed on the normal exit"),
    ("C05", "break", ["C05-R7"], C, "    if (L < 2) {\n        PyErr_SetString", "    if (L < 1) {\n        PyErr_SetString", "C entry point accepts a single point"),
    ("C05", "break", ["C05-R7"], PY, "    if L < 2:\n        raise ValueError", "    if L <= 2:\n        raise ValueError", "a sequence of exactly two points is refused"),
    ("C05", "break", ["C05-R7"], C, "    if (getoffsets)\n      return rainflow2(peaks_array, L);\n    return rainflow1(peaks_array, L);",
     "    if (!getoffsets)\n      return rainflow2(peaks_array, L);\n    return rainflow1(peaks_array, L);", "C dispatch inverted"),
    ("C05", "break", ["C05-R7"], CYC, "    import pyyeti.rainflow.c_rain as rain\nexcept ImportError:", "    import pyyeti.rainflow.c_rain as rain\nexcept Exception:",
     "fall-back taken on any exception"),
    ("C05", "break", ["C05-R7"], CYC, "    import pyyeti.rainflow.py_rain as rain\n", "    import pyyeti.rainflow.py_rain as rain_py\n", "fall-back bound to another name"),
    ("C05", "break", ["C05-R7"], PY, "    _rainflow1 = numba.jit(nopython=True, cache=True)(_rainflow1)", "    _rainflow1 = numba.jit(nopython=True, cache=True)(_rainflow2)",
     "numba wraps the other kernel"),
    ("C05", "break", ["C05-R4"], C, "          *rf++ = (pts[j-2]+pts[j-1])/2;\n          *rf++ = 1.0;\n          pts[j-2] = pts[j];  /* discard j-2, j-1 pts */\n          j -= 2;",
     "          *rf++ = (pts[j-2]+pts[j-1])/2;\n          *rf++ = 2.0;\n          pts[j-2] = pts[j];  /* discard j-2, j-1 pts */\n          j -= 2;", "count that is neither 0.5 nor 1"),
    # ---- neutral (what the semantic comparison is insensitive to)
    ("C05", "neutral", [], PY, _PY1_TAIL, _PY1_TAIL.replace("abs(A - B) / 2", "0.5 * abs(B - A)"), "x / 2 == 0.5 * x, |a - b| == |b - a|"),
    ("C05", "neutral", [], C, _C1_TAIL, "    k = 0;\n    for (;;) {\n      if (k >= j) break;\n      B = pts[k+1];\n      rf[0] = 0.5*fabs(A-B);\n      rf[1] = (A+B)/2;\n      rf[2] = 0.5;\n      rf += 3;\n"
     "      A = B;\n      k++;\n    }\n", "step 6 in C as for(;;) with break, indexed stores and a bumped pointer"),
    ("C05", "neutral", [], PY, _PY2_TAIL, "    for k in range(1, j + 1):\n        n += 1\n        rf[n, 0] = abs(pts[k - 1] - pts[k]) / 2\n        rf[n, 1] = (pts[k - 1] + pts[k]) / 2\n        rf[n, 2] = 0.5\n"
     "        os[n, 0], os[n, 1] = cycle_index[k - 1], cycle_index[k]\n", "step 6 in Python re-indexed from 1, without the carried point, tuple assignment"),
    ("C05", "neutral", [], PY, _PY1_HEAD, "    # not getting offsets:\n    pts = np.empty(L)\n    rf = np.empty((L - 1, 3))\n    j = -1\n    fullcyclesp1 = 1  # full cycles plus 1\n    n = -1\n    nused = 0\n",
     "an unused local"),
    ("C05", "neutral", [], CYC, "    import pyyeti.rainflow.c_rain as rain\nexcept ImportError:", "    from pyyeti.rainflow import c_rain as rain\nexcept ImportError:", "from-import of the compiled module"),
]

# ---------------------------------------------------------------------------------------------------------------------
# pass 2 (index / pointer conventions, element types)
_PY2_HEAD = ("    pts = np.empty(L)\n    rf = np.empty((L - 1, 3))\n    j = -1\n    fullcyclesp1 = 1  # full cycles plus 1\n    n = -1\n    cycle_index = np.empty(L, np.int64)\n")
_PY_ENTRY = "    peaks = np.atleast_1d(peaks)\n"
_PY1_PUSH = ("    n = -1\n    for k in range(L):\n        # /* step 1 from [1]: */\n        j += 1\n        pts[j] = peaks[k]\n")
_PY2_PUSH = ("    for k in range(L):\n        # /* step 1 from [1]: */\n        j += 1\n        pts[j] = peaks[k]\n        cycle_index[j] = k\n")
_PY1_HALF = ("                rf[n, 0] = Y / 2\n                rf[n, 1] = (pts[0] + pts[1]) / 2\n                rf[n, 2] = 0.5\n                pts[0] = pts[1]  # /* discard j-2 pt */\n"
             "                pts[1] = pts[2]\n                j = 1\n")
_PY1_STEP6 = ("    A = pts[0]\n    for k in range(j):\n        B = pts[k + 1]\n        n += 1\n        rf[n, 0] = abs(A - B) / 2\n        rf[n, 1] = (A + B) / 2\n        rf[n, 2] = 0.5\n        A = B\n\n"
              "    return rf[: L - fullcyclesp1]\n")
_C1_HALF = ("          *rf++ = 0.5;\n          pts[0] = pts[1];  /* discard j-2 pt */\n          pts[1] = pts[2];\n          j = 1;\n")
_C1_LOOP = ("    double *rf = (double *)PyArray_DATA(rf_array);\n\n    j = -1;\n    for (k=0; k<L; ++k) {\n")
_C_LEN = ("    if (ndim == 1)\n        L = PyArray_DIM(peaks_array, 0);\n    else\n        L = 0;\n")
_CYC_TRY = ("try:\n    import pyyeti.rainflow.c_rain as rain\nexcept ImportError:\n    if not HAVE_NUMBA:")
_C1_STORE = ("    double *rf = (double *)PyArray_DATA(rf_array);\n\n    j = -1;\n    for (k=0; k<L; ++k) {\n      /* step 1 from [1]: */\n      pts[++j] = peaks[k];\n      /* step 2 from [1]: */\n"
             "      while (j > 1) {\n        /* step 3 from [1]: */\n        Y = fabs(pts[j-2]-pts[j-1]);\n        X = fabs(pts[j-1]-pts[j]);\n        if (X < Y) break;\n        if (j == 2) {\n"
             "          /* step 5 from [1]: */\n          /* [count Y as half cycle] */\n          *rf++ = Y/2;\n          *rf++ = (pts[0]+pts[1])/2;\n          *rf++ = 0.5;\n"
             "          pts[0] = pts[1];  /* discard j-2 pt */\n          pts[1] = pts[2];\n          j = 1;\n        }\n        else {\n          /* step 4 from [1]: */\n"
             "          /* [count Y as full cycle] */\n#ifdef USE_FASTER_RAINFLOW_ROUTINE\n          ++fullcyclesp1;\n#endif\n          *rf++ = Y/2;\n          *rf++ = (pts[j-2]+pts[j-1])/2;\n"
             "          *rf++ = 1.0;\n          pts[j-2] = pts[j];  /* discard j-2, j-1 pts */\n          j -= 2;\n        }\n      }\n    }\n    /* step 6 from [1]: */\n"
             "    /* [count all ranges in pts as half cycles] */\n    double A=pts[0], B;\n" + _C1_TAIL)


def _rows2d(text, cols=3):
    """the storing section of rainflow1 with the output written through a pointer to rows, rf[n][c]"""
    import re
    text = text.replace("double *rf = (double *)PyArray_DATA(rf_array);", f"double (*rf)[{cols}] = (double (*)[{cols}])PyArray_DATA(rf_array);\n    npy_intp n = 0;")
    return re.sub(r"\*rf\+\+ = ([^;]+);\n(\s*)\*rf\+\+ = ([^;]+);\n\s*\*rf\+\+ = ([^;]+);", r"rf[n][0] = \1;\n\2rf[n][1] = \3;\n\2rf[n][2] = \4;\n\2++n;", text)


RECIPES += [
    # ---- break: element types (siblings of seeded change F: a buffer the ranges are computed in takes the caller's dtype)
    ("C05", "break", ["C05-R8"], PY, _PY1_HEAD, _PY1_HEAD.replace("np.empty(L)", "np.empty_like(peaks)"), "_rainflow1: stack allocated like the input (its dtype)"),
    ("C05", "break", ["C05-R8"], PY, _PY2_HEAD, _PY2_HEAD.replace("np.empty(L)", "np.empty(L, dtype=peaks.dtype)"), "_rainflow2: stack allocated with the input's dtype"),
    ("C05", "break", ["C05-R8"], PY, _PY1_HEAD, _PY1_HEAD.replace("np.empty(L)", "np.zeros_like(peaks)"), "_rainflow1: zeros_like(peaks)"),
    ("C05", "break", ["C05-R8"], PY, _PY1_HEAD, _PY1_HEAD.replace("np.empty((L - 1, 3))", "np.empty((L - 1, 3), peaks.dtype)"), "_rainflow1: the cycle table takes the input's dtype"),
    ("C05", "break", ["C05-R8"], PY, _PY1_HEAD, _PY1_HEAD.replace("np.empty(L)", "np.empty(L, np.float32)"), "_rainflow1: single-precision stack"),
    ("C05", "break", ["C05-R8"], PY, _PY_ENTRY, "    peaks = np.atleast_1d(peaks).astype(np.float32)\n", "the Python entry point narrows the data to float32"),
    ("C05", "break", ["C05-R8"], PY, _PY_ENTRY, "    peaks = np.atleast_1d(np.asarray(peaks, dtype=int))\n", "the Python entry point truncates the data to integers"),
    ("C05", "break", ["C05-R8"], C, "PyArray_FROM_OTF(peaks_obj, NPY_DOUBLE,", "PyArray_FROM_OTF(peaks_obj, NPY_FLOAT,", "the C entry point converts to float but the kernels read double*"),
    # ---- break: the constructs the pass-2 front end newly understands are still decided
    ("C05", "break", ["C05-R1", "C05-R3"], C, _C1_HALF, "          *rf++ = 0.5;\n          memmove(pts+1, pts, 2*sizeof(double));\n          j = 1;\n", "step 5 in C: block move in the wrong direction"),
    ("C05", "break", ["C05-R1", "C05-R4"], C, _C1_TAIL, _C1_TAIL.replace("for (k=0; k<j; ++k) {\n      B = pts[k+1];", "k = 0;\n    while (k++ < j) {\n      B = pts[k+1];"),
     "step 6 in C with a post-increment in the loop test but the old index"),
    ("C05", "break", ["C05-R1", "C05-R4"], C, _C1_TAIL, _C1_TAIL.replace("k<j;", "k!=j+1;"), "step 6 in C runs one pass too many (equality loop test)"),
    ("C05", "break", ["C05-R7"], CYC, _CYC_TRY, "try:\n    import pyyeti.rainflow.c_rain as rain\nexcept ImportError:\n    rain = None\n\nif rain is not None:\n    if not HAVE_NUMBA:",
     "sentinel selection with the test inverted"),
    ("C05", "break", ["C05-R1", "C05-R6"], PY, _PY1_HALF, _PY1_HALF.replace("rf[n, 0] = Y / 2\n                rf[n, 1] = (pts[0] + pts[1]) / 2\n                rf[n, 2] = 0.5\n", "rf[n] = (pts[0] + pts[1]) / 2, Y / 2, 0.5\n"),
     "row store with amplitude and mean swapped"),
    ("C05", "break", ["C05-R1", "C05-R3"], PY, _PY1_HALF, _PY1_HALF.replace("pts[0] = pts[1]  # /* discard j-2 pt */\n                pts[1] = pts[2]\n", "pts[0:2] = pts[0:2]\n"), "block move that moves nothing"),
    ("C05", "break", ["C05-R1", "C05-R5"], PY, _PY2_PUSH, "    for k, pk in enumerate(peaks, 1):\n        # /* step 1 from [1]: */\n        j += 1\n        pts[j] = pk\n        cycle_index[j] = k\n",
     "positions enumerated from 1"),
    ("C05", "break", ["C05-R4"], C, _C1_STORE, _rows2d(_C1_STORE, 2), "output written through a pointer to rows of 2 doubles"),
    ("C05", "break", ["C05-R8"], C, "    return Py_BuildValue(\"N\", rf_array);", "    Py_DECREF(rf_array);\n    return Py_BuildValue(\"N\", rf_array);", "the returned table is released before it is returned"),
    # ---- neutral: element types
    ("C05", "neutral", [], PY, _PY1_HEAD, _PY1_HEAD.replace("np.empty(L)", "np.empty_like(peaks, dtype=float)"), "empty_like with an explicit float dtype"),
    ("C05", "neutral", [], PY, _PY1_HEAD, _PY1_HEAD.replace("np.empty(L)", "np.zeros(peaks.size, dtype=np.float64)").replace("np.empty((L - 1, 3))", "np.empty(shape=(L - 1, 3), dtype=float)"),
     "allocation idioms (zeros, size of the input, keywords)"),
    ("C05", "neutral", [], PY, _PY_ENTRY, "    peaks = np.atleast_1d(np.asarray(peaks, dtype=float))\n", "the Python entry point converts to float64 (what C does)"),
    ("C05", "neutral", [], PY, _PY2_HEAD, _PY2_HEAD.replace("np.empty(L, np.int64)", "np.empty(L, dtype=\"int64\")"), "dtype given as a string"),
    # ---- neutral: index / pointer / loop conventions
    ("C05", "neutral", [], PY, _PY1_STEP6, _PY1_STEP6.replace("    for k in range(j):\n", "    k = 0\n    while k != j:\n").replace("        A = B\n", "        A = B\n        k += 1\n"), "step 6 with an equality loop test"),
    ("C05", "neutral", [], PY, _PY1_STEP6, _PY1_STEP6.replace("rf[: L - fullcyclesp1]", "rf[: n + 1]"), "the returned prefix named by the row counter"),
    ("C05", "neutral", [], PY, _PY1_STEP6, _PY1_STEP6.replace("abs(A - B) / 2", "np.abs(A - B) / 2"), "np.abs for abs"),
    ("C05", "neutral", [], PY, _PY1_PUSH, "    n = -1\n    for pk in peaks:\n        # /* step 1 from [1]: */\n        j += 1\n        pts[j] = pk\n", "_rainflow1 iterates the input directly"),
    ("C05", "neutral", [], PY, _PY2_PUSH, "    for k, pk in enumerate(peaks):\n        # /* step 1 from [1]: */\n        j += 1\n        pts[j] = pk\n        cycle_index[j] = k\n", "_rainflow2 enumerates the input"),
    ("C05", "neutral", [], PY, _PY1_HALF, _PY1_HALF.replace("pts[0] = pts[1]  # /* discard j-2 pt */\n                pts[1] = pts[2]\n", "pts[0:2] = pts[1:3]\n"), "step 5 as a block move"),
    ("C05", "neutral", [], PY, _PY1_HALF, _PY1_HALF.replace("rf[n, 0] = Y / 2\n                rf[n, 1] = (pts[0] + pts[1]) / 2\n                rf[n, 2] = 0.5\n", "rf[n, :] = (Y / 2, (pts[0] + pts[1]) / 2, 0.5)\n"),
     "a row stored in one statement"),
    ("C05", "neutral", [], PY, "    L = peaks.size if peaks.ndim == 1 else 0\n", "    L = np.size(peaks) if np.ndim(peaks) == 1 else 0\n", "np.size / np.ndim"),
    ("C05", "neutral", [], CYC, _CYC_TRY, "try:\n    import pyyeti.rainflow.c_rain as rain\nexcept ImportError:\n    rain = None\n\nif rain is None:\n    if not HAVE_NUMBA:", "selection through a None sentinel"),
    ("C05", "neutral", [], CYC, _CYC_TRY, "try:\n    import pyyeti.rainflow.c_rain\nexcept ImportError:\n    _HAVE_C_RAIN = False\nelse:\n    _HAVE_C_RAIN = True\n    rain = pyyeti.rainflow.c_rain\n\n"
     "if not _HAVE_C_RAIN:\n    if not HAVE_NUMBA:", "selection through a flag and try / except / else"),
    ("C05", "neutral", [], C, _C1_HALF, "          *rf++ = 0.5;\n          memmove(pts, pts+1, 2*sizeof(double));\n          j = 1;\n", "step 5 in C as memmove"),
    ("C05", "neutral", [], C, _C1_TAIL, _C1_TAIL.replace("k<j;", "k!=j;"), "step 6 in C with an equality loop test"),
    ("C05", "neutral", [], C, _C1_TAIL, _C1_TAIL.replace("for (k=0; k<j; ++k) {\n      B = pts[k+1];", "k = 0;\n    while (k++ < j) {\n      B = pts[k];"), "step 6 in C with a post-increment in the loop test"),
    ("C05", "neutral", [], C, _C1_TAIL, "    k = 0;\n    if (j > 0) do {\n      B = pts[k+1];\n      *rf++ = fabs(A-B)/2;\n      *rf++ = (A+B)/2;\n      *rf++ = 0.5;\n      A = B;\n    } while (++k < j);\n",
     "step 6 in C as a guarded do-while"),
    ("C05", "break", ["C05-R4"], C, _C1_TAIL, "    k = 0;\n    if (j > 1) do {\n      B = pts[k+1];\n      *rf++ = fabs(A-B)/2;\n      *rf++ = (A+B)/2;\n      *rf++ = 0.5;\n      A = B;\n    } while (++k < j);\n",
     "step 6 in C as a do-while whose guard skips the case of one remaining range"),
    ("C05", "neutral", [], PY, _PY1_STEP6, _PY1_STEP6.replace("    for k in range(j):\n        B = pts[k + 1]\n        n += 1\n        rf[n, 0] = abs(A - B) / 2\n        rf[n, 1] = (A + B) / 2\n        rf[n, 2] = 0.5\n        A = B\n",
     "    k = 0\n    if j > 0:\n        while True:\n            B = pts[k + 1]\n            n += 1\n            rf[n, 0] = abs(A - B) / 2\n            rf[n, 1] = (A + B) / 2\n            rf[n, 2] = 0.5\n            A = B\n"
     "            k += 1\n            if not k < j:\n                break\n"), "step 6 in Python as a guarded bottom-tested loop"),
    ("C05", "neutral", [], C, _C1_LOOP, "    double *rf = (double *)PyArray_DATA(rf_array);\n\n    for (k=0, j=-1; k<L; ++k) {\n", "comma operator in the for initialiser"),
    ("C05", "neutral", [], C, "PyArray_SimpleNew(2, dims, NPY_INTP)", "PyArray_ZEROS(2, dims, NPY_INTP, 0)", "PyArray_ZEROS for PyArray_SimpleNew"),
    ("C05", "neutral", [], C, _C_LEN, "    L = (ndim == 1) ? PyArray_SIZE(peaks_array) : 0;\n", "PyArray_SIZE and a conditional expression"),
    ("C05", "neutral", [], C, _C1_STORE, _rows2d(_C1_STORE), "output written through a pointer to rows, rf[n][c]"),
    ("C05", "neutral", [], C, "    return Py_BuildValue(\"NN\", rf_array, os_array);", "    PyObject *res = PyTuple_New(2);\n    if (res == NULL) goto fail;\n    PyTuple_SET_ITEM(res, 0, (PyObject *)rf_array);\n"
     "    PyTuple_SET_ITEM(res, 1, (PyObject *)os_array);\n    return res;", "the result tuple built with PyTuple_New / PyTuple_SET_ITEM"),
    ("C05", "neutral", [], CYC, "    import pyyeti.rainflow.c_rain as rain\nexcept ImportError:", "    from .rainflow import c_rain as rain\nexcept ImportError:", "relative import of the compiled module"),
    ("C05", "break", ["C05-R7"], CYC, "    import pyyeti.rainflow.c_rain as rain\nexcept ImportError:", "    from .rainflow import py_rain as rain\nexcept ImportError:", "relative import binds the Python module first"),
    ("C05", "break", ["C05-R4"], C, "    return Py_BuildValue(\"NN\", rf_array, os_array);", "    PyObject *res = PyTuple_New(2);\n    if (res == NULL) goto fail;\n    PyTuple_SET_ITEM(res, 0, (PyObject *)os_array);\n"
     "    PyTuple_SET_ITEM(res, 1, (PyObject *)rf_array);\n    return res;", "the result tuple built with the two tables swapped"),
    ("C05", "neutral", [], C, "    return Py_BuildValue(\"N\", rf_array);", "    PyObject *res = Py_BuildValue(\"O\", rf_array);\n    Py_DECREF(rf_array);\n    return res;", "format O plus a release instead of format N"),
]

# ---------------------------------------------------------------------------------------------------------------------
# pass 3 (control state: loop flags, small-enum steering variables, where a loop test is made, peeled entry, dependent counters)
_PY1_LOOP = ("    for k in range(L):\n        # /* step 1 from [1]: */\n        j += 1\n        pts[j] = peaks[k]\n        # /* step 2 from [1]: */\n        while j > 1:\n"
             "            # /* step 3 from [1]: */\n            Y = abs(pts[j - 2] - pts[j - 1])\n            X = abs(pts[j - 1] - pts[j])\n            if X < Y:\n                break\n"
             "            if j == 2:\n                # /* step 5 from [1]: */\n                # /* [count Y as half cycle] */\n                n += 1\n                rf[n, 0] = Y / 2\n"
             "                rf[n, 1] = (pts[0] + pts[1]) / 2\n                rf[n, 2] = 0.5\n                pts[0] = pts[1]  # /* discard j-2 pt */\n                pts[1] = pts[2]\n"
             "                j = 1\n            else:\n                # /* step 4 from [1]: */\n                # /* [count Y as full cycle] */\n                fullcyclesp1 += 1\n"
             "                n += 1\n                rf[n, 0] = Y / 2\n                rf[n, 1] = (pts[j - 2] + pts[j - 1]) / 2\n                rf[n, 2] = 1.0\n"
             "                pts[j - 2] = pts[j]  # /* discard j-2, j-1 pts */\n                j -= 2\n\n")

def _py1(*pairs):
    """_PY1_LOOP with the given (old, new) replacements, each of which must apply exactly once"""
    t = _PY1_LOOP
    for old, new in pairs:
        assert t.count(old) == 1, old
        t = t.replace(old, new)
    return t


def _c1(*pairs):
    t = _C1_STORE
    for old, new in pairs:
        assert t.count(old) == 1, old
        t = t.replace(old, new)
    return t


# a loop flag instead of `break` (the fresh refactoring N14), reset at the top of every pass of the count loop
_PY1_FLAG = _py1(("        while j > 1:\n", "        readnext = False  # True when the next peak has to be read\n        while j > 1 and not readnext:\n"),
                 ("            if X < Y:\n                break\n            if j == 2:\n", "            if X < Y:\n                readnext = True\n            elif j == 2:\n"))
_C1_FLAG = _c1(("      while (j > 1) {\n", "      readnext = 0;\n      while (!readnext && j > 1) {\n"),
               ("        if (X < Y) break;\n        if (j == 2) {\n", "        if (X < Y) {\n          readnext = 1;\n        }\n        else if (j == 2) {\n"),
               ("    j = -1;\n    for (k=0; k<L; ++k) {\n", "    int readnext;\n    j = -1;\n    for (k=0; k<L; ++k) {\n"))
# the inner loop steered by a flag computed from comparisons
_PY1_CLOSED = _py1(("        while j > 1:\n", "        closed = j > 1  # a range is ready to be examined\n        while closed:\n"),
                   ("            if X < Y:\n                break\n            if j == 2:\n", "            if X < Y:\n                closed = False\n            elif j == 2:\n"),
                   ("                pts[1] = pts[2]\n                j = 1\n", "                pts[1] = pts[2]\n                j = 1\n                closed = False\n"),
                   ("                j -= 2\n", "                j -= 2\n                closed = j > 1\n"))
# `continue` while fewer than three points are stacked, inner loop tested at its bottom
_PY1_CONT = _py1(("        while j > 1:\n", "        if j < 2:\n            continue\n        while True:\n"), ("                j -= 2\n\n", "                j -= 2\n            if j < 2:\n                break\n\n"))
_C1_DO = _c1(("      while (j > 1) {\n", "      if (j < 2) continue;\n      do {\n"), ("          j -= 2;\n        }\n      }\n    }\n", "          j -= 2;\n        }\n      } while (j > 1);\n    }\n"))
# the first point pushed before the count loop
_PY1_PEEL = _py1(("    for k in range(L):\n        # /* step 1 from [1]: */\n", "    j += 1\n    pts[j] = peaks[0]\n    for k in range(1, L):\n        # /* step 1 from [1]: */\n"))
# the count loop driven by a flag that is cleared when the last point has been read
_PY1_MORE = _py1(("    for k in range(L):\n        # /* step 1 from [1]: */\n", "    k = 0\n    more = True\n    while more:\n        # /* step 1 from [1]: */\n"),
                 ("                j -= 2\n\n", "                j -= 2\n        k += 1\n        if k == L:\n            more = False\n\n"))
_C1_MORE = _c1(("    j = -1;\n    for (k=0; k<L; ++k) {\n", "    int more = 1;\n    j = -1;\n    k = 0;\n    while (more) {\n"),
               ("          j -= 2;\n        }\n      }\n    }\n", "          j -= 2;\n        }\n      }\n      if (++k == L) more = 0;\n    }\n"))
# a small-enum `action` decided first and dispatched on
_PY1_ENUM = _py1(("            if X < Y:\n                break\n            if j == 2:\n",
                  "            if X < Y:\n                action = 0  # read the next point\n            elif j == 2:\n                action = 1  # half cycle\n            else:\n"
                  "                action = 2  # full cycle\n            if action == 0:\n                break\n            if action == 1:\n"))
_C1_ENUM = _c1(("        if (X < Y) break;\n        if (j == 2) {\n",
                "        enum { READ_NEXT, HALF_CYCLE, FULL_CYCLE } action;\n        if (X < Y)\n          action = READ_NEXT;\n        else if (j == 2)\n          action = HALF_CYCLE;\n"
                "        else\n          action = FULL_CYCLE;\n        if (action == READ_NEXT) break;\n        if (action == HALF_CYCLE) {\n"))
# step 6 counting the remaining ranges down (a second counter in lock-step with the first)
_PY1_STEP6_LEFT = ("    left = j  # ranges still to be counted\n    k = 0\n    while left > 0:\n        n += 1\n        rf[n, 0] = abs(pts[k] - pts[k + 1]) / 2\n        rf[n, 1] = (pts[k] + pts[k + 1]) / 2\n"
                   "        rf[n, 2] = 0.5\n        k += 1\n        left -= 1\n\n    return rf[: L - fullcyclesp1]\n")

RECIPES += [
    # ---- neutral: control state
    ("C05", "neutral", [], PY, _PY1_LOOP, _PY1_FLAG, "_rainflow1: `break` replaced by a loop flag tested in the loop condition (the C side keeps `break`)"),
    ("C05", "neutral", [], C, _C1_STORE, _C1_FLAG, "rainflow1: `break` replaced by a loop flag (the Python side keeps `break`)"),
    ("C05", "neutral", [], PY, _PY1_LOOP, _PY1_CLOSED, "_rainflow1: inner loop steered by a flag computed from comparisons (closed = j > 1)"),
    ("C05", "neutral", [], PY, _PY1_LOOP, _PY1_CONT, "_rainflow1: `continue` while fewer than three points are stacked, inner loop bottom-tested"),
    ("C05", "neutral", [], C, _C1_STORE, _C1_DO, "rainflow1: `continue` + do-while for the inner loop"),
    ("C05", "neutral", [], PY, _PY1_LOOP, _PY1_PEEL, "_rainflow1: the first point pushed before the count loop (k from 1)"),
    ("C05", "neutral", [], PY, _PY1_LOOP, _PY1_MORE, "_rainflow1: count loop driven by a `more` flag cleared after the last point"),
    ("C05", "neutral", [], C, _C1_STORE, _C1_MORE, "rainflow1: count loop driven by a `more` flag cleared after the last point"),
    ("C05", "neutral", [], PY, _PY1_LOOP, _PY1_ENUM, "_rainflow1: a small-enum `action` decided first and dispatched on"),
    ("C05", "neutral", [], C, _C1_STORE, _C1_ENUM, "rainflow1: a function-local enum `action` decided first and dispatched on"),
    ("C05", "neutral", [], PY, _PY1_STEP6, _PY1_STEP6_LEFT, "_rainflow1: step 6 counts the remaining ranges down (dependent counter), no carried points"),
    ("C05", "neutral", [], PY, _PY1_LOOP, _py1(("            if X < Y:\n                break\n            if j == 2:\n", "            starts = j == 2  # Y contains the starting point\n            if X < Y:\n                break\n            if starts:\n")),
     "_rainflow1: the `j == 2` decision taken before the X < Y test and kept in a boolean"),
    ("C05", "neutral", [], PY, _PY1_LOOP, _py1(("            if X < Y:\n                break\n            if j == 2:\n", "            if not X < Y:\n                pass\n            else:\n                break\n            if j == 2:\n")),
     "_rainflow1: NaN-safe negation `not X < Y` with swapped arms"),
    # ---- break: the same constructs with a defect
    ("C05", "break", ["C05-R1", "C05-R3"], PY, _PY1_LOOP, _PY1_FLAG.replace("        readnext = False  # True when the next peak has to be read\n", "").replace("    for k in range(L):\n", "    readnext = False\n    for k in range(L):\n"),
     "loop flag set on X < Y but never reset: after the first X < Y no range is examined again"),
    ("C05", "break", ["C05-R1", "C05-R3"], C, _C1_STORE, _C1_FLAG.replace("      readnext = 0;\n      while (!readnext && j > 1) {\n", "      while (!readnext && j > 1) {\n").replace("    int readnext;\n", "    int readnext = 0;\n"),
     "C loop flag initialised once and never reset"),
    ("C05", "break", ["C05-R1", "C05-R3"], PY, _PY1_LOOP, _PY1_CLOSED.replace("                closed = j > 1\n", "                closed = j > 2\n"), "flag recomputed with the wrong bound after a full cycle (a closed range is left on the stack)"),
    ("C05", "break", ["C05-R1", "C05-R3", "C05-R4"], PY, _PY1_LOOP, _PY1_CONT.replace("        if j < 2:\n            continue\n", "        if j < 3:\n            continue\n"), "`continue` until four points are stacked"),
    ("C05", "break", ["C05-R1", "C05-R3", "C05-R4"], PY, _PY1_LOOP, _PY1_PEEL.replace("for k in range(1, L):", "for k in range(L):"), "first point pushed before the loop and again inside it"),
    ("C05", "break", ["C05-R1", "C05-R3", "C05-R4"], PY, _PY1_LOOP, _PY1_MORE.replace("        if k == L:\n", "        if k == L - 1:\n"), "`more` flag cleared one point early: the last point is never read"),
    ("C05", "break", ["C05-R1", "C05-R3", "C05-R4"], C, _C1_STORE, _C1_MORE.replace("if (++k == L) more = 0;", "if (++k == L + 1) more = 0;"), "C `more` flag cleared one point late: reads past the input"),
    ("C05", "break", ["C05-R1", "C05-R3", "C05-R4"], PY, _PY1_LOOP, _PY1_ENUM.replace("            if action == 1:\n", "            if action == 2:\n"), "enum dispatch with half and full cycles swapped"),
    ("C05", "break", ["C05-R4"], PY, _PY1_STEP6, _PY1_STEP6_LEFT.replace("    left = j  #", "    left = j - 1  #"), "step 6 counting down from one range too few"),
    ("C05", "break", ["C05-R1", "C05-R3"], PY, _PY1_LOOP, _py1(("            if X < Y:\n                break\n            if j == 2:\n", "            if X >= Y:\n                pass\n            else:\n                break\n            if j == 2:\n")),
     "`X >= Y` for `not X < Y`: differs when a NaN is involved"),
    ("C05", "break", ["C05-R1", "C05-R3"], PY, _PY1_LOOP, _py1(("            if X < Y:\n                break\n", "            if X < Y * (1 - 1e-12):\n                break\n")), "relative tolerance in the range comparison"),
]

# jumps, repeated tests, tests moved into the loop condition
_C1_GOTO = _c1(("        if (X < Y) break;\n", "        if (X < Y) goto next_point;\n"), ("          j -= 2;\n        }\n      }\n    }\n", "          j -= 2;\n        }\n      }\n    next_point: ;\n    }\n"))
_PY1_CHAIN = _py1(("            if X < Y:\n                break\n            if j == 2:\n", "            if j == 2 and not X < Y:\n"),
                  ("            else:\n                # /* step 4 from [1]: */\n", "            elif not X < Y:\n                # /* step 4 from [1]: */\n"),
                  ("                j -= 2\n\n", "                j -= 2\n            else:\n                break\n\n"))
_PY1_COND = _py1(("        while j > 1:\n            # /* step 3 from [1]: */\n            Y = abs(pts[j - 2] - pts[j - 1])\n            X = abs(pts[j - 1] - pts[j])\n            if X < Y:\n                break\n",
                  "        while j > 1 and not abs(pts[j - 1] - pts[j]) < abs(pts[j - 2] - pts[j - 1]):\n            # /* step 3 from [1]: */\n            Y = abs(pts[j - 2] - pts[j - 1])\n"))

RECIPES += [
    ("C05", "neutral", [], C, _C1_STORE, _C1_GOTO, "rainflow1: `goto next_point` (label at the end of the count loop's body) instead of `break`"),
    ("C05", "neutral", [], PY, _PY1_LOOP, _PY1_CHAIN, "_rainflow1: one if / elif / else chain that makes the X < Y test twice"),
    ("C05", "neutral", [], PY, _PY1_LOOP, _PY1_COND, "_rainflow1: the X < Y test moved into the condition of the inner loop"),
    ("C05", "break", ["C05-R1", "C05-R3"], PY, _PY1_LOOP, _PY1_CHAIN.replace("            elif not X < Y:\n", "            elif not X <= Y:\n"), "if / elif chain whose second test is not the first one (ties leave the loop)"),
    ("C05", "break", ["C05-R1", "C05-R3"], PY, _PY1_LOOP, _PY1_COND.replace("and not abs(pts[j - 1] - pts[j]) < abs(pts[j - 2] - pts[j - 1]):", "and not abs(pts[j - 1] - pts[j]) <= abs(pts[j - 2] - pts[j - 1]):"),
     "loop condition with <= for <"),
    ("C05", "break", ["C05-R1", "C05-R3", "C05-R4"], C, _C1_STORE, _C1_GOTO.replace("    next_point: ;\n    }\n", "    }\n    next_point: ;\n"), "`goto` to a label behind the count loop: the first X < Y ends the counting"),
]

# pass 4: the memory layout the C entry point asks for (round-4 seed K).  The requirement word is read by value (clang expands the numpy macros)
_C_OTF = ("    peaks_array = (PyArrayObject *)PyArray_FROM_OTF(peaks_obj, NPY_DOUBLE,\n                                                    NPY_ARRAY_IN_ARRAY);\n\n"
          "    if (peaks_array == NULL) return NULL;\n")


def _otf(flags, extra=""):
    return ("    peaks_array = (PyArrayObject *)PyArray_FROM_OTF(peaks_obj, NPY_DOUBLE,\n                                                    %s);\n\n"
            "    if (peaks_array == NULL) return NULL;\n%s" % (flags, extra))


_C_GETCONTIG = ("    {\n        PyArrayObject *tmp = PyArray_GETCONTIGUOUS(peaks_array);\n        Py_DECREF(peaks_array);\n        peaks_array = tmp;\n"
                "        if (peaks_array == NULL) return NULL;\n    }\n")
_C_TESTCOPY = ("    if (!PyArray_IS_C_CONTIGUOUS(peaks_array)) {\n        PyArrayObject *tmp = (PyArrayObject *)PyArray_NewCopy(peaks_array, NPY_CORDER);\n"
               "        Py_DECREF(peaks_array);\n        peaks_array = tmp;\n        if (peaks_array == NULL) return NULL;\n    }\n")
_C_FROMANY = ("    peaks_array = (PyArrayObject *)PyArray_FromAny(peaks_obj, PyArray_DescrFromType(NPY_DOUBLE), 0, 0, %s, NULL);\n\n"
              "    if (peaks_array == NULL) return NULL;\n")

RECIPES += [
    ("C05", "break", ["C05-R8"], C, _C_OTF, _otf("NPY_ARRAY_ALIGNED |\n                                                    NPY_ARRAY_NOTSWAPPED"),
     "C entry point: aligned + native byte order only, contiguity no longer required (seed K)"),
    ("C05", "break", ["C05-R8"], C, _C_OTF, _otf("0"), "C entry point: no requirement on the array at all"),
    ("C05", "break", ["C05-R8"], C, _C_OTF, _otf("NPY_ARRAY_ALIGNED"), "C entry point: NPY_ARRAY_ALIGNED only"),
    ("C05", "break", ["C05-R8"], C, _C_OTF, _otf("NPY_ARRAY_BEHAVED"), "C entry point: NPY_ARRAY_BEHAVED (aligned, writeable) - a strided view passes"),
    ("C05", "break", ["C05-R8"], C, _C_OTF, _otf("NPY_ARRAY_FORCECAST | NPY_ARRAY_ELEMENTSTRIDES"), "C entry point: element strides are not unit strides"),
    ("C05", "break", ["C05-R8"], C, _C_OTF, "    peaks_array = (PyArrayObject *)PyArray_FROM_OT(peaks_obj, NPY_DOUBLE);\n\n    if (peaks_array == NULL) return NULL;\n",
     "C entry point: PyArray_FROM_OT (its requirement word is 0 in the numpy header)"),
    ("C05", "break", ["C05-R8"], C, _C_OTF, _C_FROMANY % "NPY_ARRAY_ALIGNED | NPY_ARRAY_WRITEABLE", "C entry point: PyArray_FromAny spelled out, without a contiguity bit"),
    ("C05", "break", ["C05-R8"], C, _C_OTF, "    int requirements = NPY_ARRAY_ALIGNED;\n    requirements |= NPY_ARRAY_NOTSWAPPED;\n"
     "    peaks_array = (PyArrayObject *)PyArray_FROM_OTF(peaks_obj, NPY_DOUBLE, requirements);\n\n    if (peaks_array == NULL) return NULL;\n",
     "C entry point: requirement word built in a local, without a contiguity bit"),
    ("C05", "break", ["C05-R8"], C, _C_OTF, _otf("NPY_ARRAY_ALIGNED", _C_TESTCOPY.replace("if (!PyArray_IS_C_CONTIGUOUS(peaks_array))", "if (!PyArray_ISWRITEABLE(peaks_array))")),
     "C entry point: copies when the array is not writeable - a test that says nothing about the layout"),
    ("C05", "neutral", [], C, _C_OTF, _otf("NPY_ARRAY_CARRAY_RO"), "C entry point: NPY_ARRAY_CARRAY_RO (the value of NPY_ARRAY_IN_ARRAY)"),
    ("C05", "neutral", [], C, _C_OTF, _otf("NPY_ARRAY_C_CONTIGUOUS | NPY_ARRAY_ALIGNED"), "C entry point: the two bits of NPY_ARRAY_IN_ARRAY spelled out"),
    ("C05", "neutral", [], C, _C_OTF, _otf("NPY_ARRAY_IN_ARRAY | NPY_ARRAY_NOTSWAPPED"), "C entry point: native byte order required as well"),
    ("C05", "neutral", [], C, _C_OTF, _otf("NPY_ARRAY_F_CONTIGUOUS"), "C entry point: F-contiguous - for the vectors the kernels are reached with that is C-contiguous (checked by a run)"),
    ("C05", "neutral", [], C, _C_OTF, _otf("NPY_ARRAY_ALIGNED | NPY_ARRAY_ENSURECOPY"), "C entry point: always a fresh copy (PyArray_FROM_OTF adds NPY_ARRAY_DEFAULT then; checked by a run)"),
    ("C05", "neutral", [], C, _C_OTF, "    peaks_array = (PyArrayObject *)PyArray_ContiguousFromAny(peaks_obj, NPY_DOUBLE, 0, 0);\n\n    if (peaks_array == NULL) return NULL;\n",
     "C entry point: PyArray_ContiguousFromAny"),
    ("C05", "neutral", [], C, _C_OTF, _C_FROMANY % "NPY_ARRAY_CARRAY_RO", "C entry point: PyArray_FromAny spelled out with NPY_ARRAY_CARRAY_RO"),
    ("C05", "neutral", [], C, _C_OTF, _otf("NPY_ARRAY_ALIGNED", _C_GETCONTIG), "C entry point: aligned array, then PyArray_GETCONTIGUOUS"),
    ("C05", "neutral", [], C, _C_OTF, _otf("NPY_ARRAY_ALIGNED", _C_TESTCOPY), "C entry point: aligned array, copied in C order when PyArray_IS_C_CONTIGUOUS says it is not contiguous"),
    ("C05", "neutral", [], C, _C_OTF, "    int requirements = NPY_ARRAY_ALIGNED;\n    requirements |= NPY_ARRAY_C_CONTIGUOUS;\n"
     "    peaks_array = (PyArrayObject *)PyArray_FROM_OTF(peaks_obj, NPY_DOUBLE, requirements);\n\n    if (peaks_array == NULL) return NULL;\n",
     "C entry point: requirement word built in a local with |="),
]

_C_FLAGTEST = ("    if (!(PyArray_FLAGS(peaks_array) & NPY_ARRAY_C_CONTIGUOUS)) {\n        PyArrayObject *tmp = (PyArrayObject *)PyArray_Copy(peaks_array);\n"
               "        Py_DECREF(peaks_array);\n        peaks_array = tmp;\n        if (peaks_array == NULL) return NULL;\n    }\n")
_C_FROMARRAY = ("    {\n        PyArrayObject *tmp = (PyArrayObject *)PyArray_FROM_O(peaks_obj);\n        if (tmp == NULL) return NULL;\n"
                "        peaks_array = (PyArrayObject *)PyArray_FromArray(tmp, PyArray_DescrFromType(NPY_DOUBLE), %s);\n        Py_DECREF(tmp);\n    }\n"
                "    if (peaks_array == NULL) return NULL;\n")
RECIPES += [
    ("C05", "neutral", [], C, _C_OTF, _otf("NPY_ARRAY_ALIGNED", _C_FLAGTEST), "C entry point: `PyArray_FLAGS(a) & NPY_ARRAY_C_CONTIGUOUS` tested, PyArray_Copy otherwise"),
    ("C05", "neutral", [], C, _C_OTF, _C_FROMARRAY % "NPY_ARRAY_IN_ARRAY", "C entry point: PyArray_FROM_O, then PyArray_FromArray with NPY_ARRAY_IN_ARRAY"),
    ("C05", "neutral", [], C, _C_OTF, "    peaks_array = (PyArrayObject *)PyArray_CopyFromObject(peaks_obj, NPY_DOUBLE, 0, 0);\n\n    if (peaks_array == NULL) return NULL;\n",
     "C entry point: PyArray_CopyFromObject (ENSURECOPY | DEFAULT | ENSUREARRAY in the numpy header)"),
    ("C05", "break", ["C05-R8"], C, _C_OTF, _C_FROMARRAY % "NPY_ARRAY_ALIGNED", "C entry point: PyArray_FromArray without a contiguity bit"),
    ("C05", "break", ["C05-R8"], C, _C_OTF, "    peaks_array = (PyArrayObject *)PyArray_FromObject(peaks_obj, NPY_DOUBLE, 0, 0);\n\n    if (peaks_array == NULL) return NULL;\n",
     "C entry point: PyArray_FromObject (BEHAVED | ENSUREARRAY in the numpy header: no contiguity bit)"),
    ("C05", "break", ["C05-R8"], C, _C_OTF, _otf("NPY_ARRAY_ALIGNED", _C_FLAGTEST.replace("NPY_ARRAY_C_CONTIGUOUS", "NPY_ARRAY_ALIGNED")),
     "C entry point: the flag tested before the copy is the alignment bit, not a contiguity bit"),
]
