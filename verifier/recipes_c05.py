"""C05 -- additional break / neutral recipes for the thorough tier (same tuple format as selftest.RECIPES)."""

C = "pyyeti/rainflow/c_rain.c"
PY = "pyyeti/rainflow/py_rain.py"
CYC = "pyyeti/cyclecount.py"

_C1_TAIL = ("    for (k=0; k<j; ++k) {\n      B = pts[k+1];\n      *rf++ = fabs(A-B)/2;\n      *rf++ = (A+B)/2;\n      *rf++ = 0.5;\n      A = B;\n    }\n")
_PY1_HEAD = ("    # not getting offsets:\n    pts = np.empty(L)\n    rf = np.empty((L - 1, 3))\n    j = -1\n    fullcyclesp1 = 1  # full cycles plus 1\n    n = -1\n")
_PY1_TAIL = ("        rf[n, 0] = abs(A - B) / 2\n        rf[n, 1] = (A + B) / 2\n        rf[n, 2] = 0.5\n        A = B\n\n    return rf[: L - fullcyclesp1]\n")
_PY2_TAIL = ("    A = pts[0]\n    for k in range(j):\n        B = pts[k + 1]\n        n += 1\n        rf[n, 0] = abs(A - B) / 2\n        rf[n, 1] = (A + B) / 2\n        rf[n, 2] = 0.5\n"
             "        os[n, 0] = cycle_index[k]\n        os[n, 1] = cycle_index[k + 1]\n        A = B\n")

RECIPES = [
    # ---- break
    ("C05", "break", ["C05-R4"], PY, _PY1_HEAD, _PY1_HEAD.replace("    n = -1\n", "    n = 0\n"), "row counter starts one too high: row 0 is never written"),
    ("C05", "break", ["C05-R1", "C05-R3"], C, _C1_TAIL, _C1_TAIL.replace("      A = B;\n", ""), "step 6 in C: the carried point is not advanced"),
    ("C05", "break", ["C05-R1", "C05-R3", "C05-R5"], PY, _PY2_TAIL, _PY2_TAIL.replace("os[n, 1] = cycle_index[k + 1]", "os[n, 1] = cycle_index[k]"), "step 6 offsets name one point twice"),
    ("C05", "break", ["C05-R8"], C, "    free(pts);\n    free(cycle_index);\n\n#ifdef USE_FASTER_RAINFLOW_ROUTINE", "    free(pts);\n\n#ifdef USE_FASTER_RAINFLOW_ROUTINE",
     "position stack not freed on the normal exit"),
    ("C05", "break", ["C05-R7"], C, "    if (L < 2) {\n        PyErr_SetString", "    if (L < 1) {\n        PyErr_SetString", "C entry point accepts a single point"),
    ("C05", "break", ["C05-R7"], PY, "    if L < 2:\n        raise ValueError", "    if L <= 2:\n        raise ValueError", "a sequence of exactly two points is refused"),
    ("C05", "break", ["C05-R7"], C, "    if (getoffsets)\n      return rainflow2(peaks_array, L);\n    return rainflow1(peaks_array, L);",
     "    if (!getoffsets)\n      return rainflow2(peaks_array, L);\n    return rainflow1(peaks_array, L);", "C dispatch inverted"),
    ("C05", "break", ["C05-R7"], CYC, "    import pyyeti.rainflow.c_rain as rain\nexcept ImportError:", "    import pyyeti.rainflow.c_rain as rain\nexcept Exception:",
     "fall-back taken on any exception"),
    ("C05", "break", ["C05-R7"], CYC, "    import pyyeti.rainflow.py_rain as rain\n", "    import pyyeti.rainflow.py_rain as rain_py\n", "fall-back bound to another name"),
    ("C05", "break", ["C05-R7"], PY, "    _rainflow1 = numba.jit(nopython=True, cache=True)(_rainflow1)", "    _rainflow1 = numba.jit(nopython=True, cache=True)(_rainflow2)",
     "numba wraps the other kernel"),
    ("C05", "break", ["C05-R4"], C, "          *rf++ = (pts[j-2]+pts[j-1])/2;\n          *rf++ = 1.0;\n          pts[j-2] = pts[j];  /* discard j-2, j-1 pts */\n          j -= 2;",
     "          *rf++ = (pts[j-2]+pts[j-1])/2;\n          *rf++ = 2.0;\n          pts[j-2] = pts[j];  /* discard j-2, j-1 pts */\n          j -= 2;", "count that is neither 0.5 nor 1"),
    # ---- neutral (what the semantic comparison is insensitive to)
    ("C05", "neutral", [], PY, _PY1_TAIL, _PY1_TAIL.replace("abs(A - B) / 2", "0.5 * abs(B - A)"), "x / 2 == 0.5 * x, |a - b| == |b - a|"),
    ("C05", "neutral", [], C, _C1_TAIL, "    k = 0;\n    for (;;) {\n      if (k >= j) break;\n      B = pts[k+1];\n      rf[0] = 0.5*fabs(A-B);\n      rf[1] = (A+B)/2;\n      rf[2] = 0.5;\n      rf += 3;\n"
     "      A = B;\n      k++;\n    }\n", "step 6 in C as for(;;) with break, indexed stores and a bumped pointer"),
    ("C05", "neutral", [], PY, _PY2_TAIL, "    for k in range(1, j + 1):\n        n += 1\n        rf[n, 0] = abs(pts[k - 1] - pts[k]) / 2\n        rf[n, 1] = (pts[k - 1] + pts[k]) / 2\n        rf[n, 2] = 0.5\n"
     "        os[n, 0], os[n, 1] = cycle_index[k - 1], cycle_index[k]\n", "step 6 in Python re-indexed from 1, without the carried point, tuple assignment"),
    ("C05", "neutral", [], PY, _PY1_HEAD, "    # not getting offsets:\n    pts = np.empty(L)\n    rf = np.empty((L - 1, 3))\n    j = -1\n    fullcyclesp1 = 1  # full cycles plus 1\n    n = -1\n    nused = 0\n",
     "an unused local"),
    ("C05", "neutral", [], CYC, "    import pyyeti.rainflow.c_rain as rain\nexcept ImportError:", "    from pyyeti.rainflow import c_rain as rain\nexcept ImportError:", "from-import of the compiled module"),
]
