"""C12 helper -- what an abstract string (c12_str) looks like for a value of a given sign / decade / rounding regime.

Fixed notation:  `fixed_models(v, reg)` renders the tree for a value x with 10^(k-1) <= |x| < 10^k (k <= 0: |x| < 1, the integer part is
"0") as columns   [blanks] [-] [integer digits] [.] [fraction digits] [blanks]   and applies strip / replace / justify / slice to those
columns, so `.strip(' 0')`, `.replace('-0.', '-.')`, `:>8s`, `[0:8]`, `.rjust(8)` are *modelled*.  The worst case of a regime (no trailing
zero to strip) is what the widths speak about; `carry` lists the precisions at which x rounds up to 10^k (one more integer digit, all
fraction digits zero).
"""
from __future__ import annotations

from dataclasses import dataclass, replace as dc_replace
from fractions import Fraction

from .c12_str import (Unk, Param, Neg, Abs, Round, IntOf, FloatOf, Len, Opaque, Lit, Fmt, Cat, Strip, Replace, Slice, Rep, Piece, StrOf,
                      CallS, Choice, is_num, as_int)


@dataclass(frozen=True)
class Reg:
    neg: bool
    k: int                 # decade: 10^(k-1) <= |x| < 10^k
    carry_upto: int = -1   # x rounds up to 10^k in every format with precision <= carry_upto (-1: never)


@dataclass(frozen=True)
class Cols:
    pad_l: int = 0
    sign: int = 0          # 1: a '-' (or '+'/' ') column
    intd: int = 1
    lead0: bool = False    # the integer part is the single digit 0
    point: bool = True
    P: int = 0
    frac_zero: bool = False
    pad_r: int = 0
    corrupt: str = ""      # why the text no longer denotes the value
    lossy: bool = False    # significant fraction digits were cut
    zero: bool = False     # every digit is 0 (|x| is below half a unit of the last decimal): the text is fully known

    def text(self):
        """the exact text when it is determined by the columns alone (zero renderings)"""
        if not self.zero or (self.intd and not self.lead0):
            return None
        return " " * self.pad_l + ("-" if self.sign else "") + "0" * self.intd + ("." if self.point else "") + "0" * self.P + " " * self.pad_r

    @property
    def width(self):
        return self.pad_l + self.sign + self.intd + (1 if self.point else 0) + self.P + self.pad_r

    @property
    def point_index(self):
        return self.pad_l + self.sign + self.intd


def _number_of(v, param):
    """-> 'x' (the value itself), 'round' (an integer-valued rounding of it), None.  `param` is the name of the float parameter or a
    function classifying a numeric value the same way (the scientific helpers format a mantissa, not the parameter)"""
    if callable(param):
        return param(v)
    if v == Param(param):
        return "x"
    if isinstance(v, Round) and v.x == Param(param):
        return "round"
    if isinstance(v, IntOf) and isinstance(v.x, Round) and v.x.x == Param(param):
        return "round"
    if isinstance(v, IntOf) and isinstance(v.x, IntOf):
        return _number_of(v.x, param)
    if isinstance(v, IntOf) and v.x == Param(param):
        return "trunc"         # int(x): the digits before the point (exact only for a whole number - what a path must have tested)
    return None


def precisions_in(v, param, acc=None):
    """precisions at which the value is rounded somewhere in the tree (fixed formats of x, round(x) -> 0)"""
    from .c12_exec import walk_value
    acc = set() if acc is None else acc
    for n in walk_value(v):
        if isinstance(n, Fmt) and n.spec.typ in ("f", "F") and _number_of(n.arg, param) == "x":
            p = as_int(n.spec.prec) if n.spec.prec is not None else 6
            if p is not None:
                acc.add(p)
        if isinstance(n, Round) and not callable(param) and n.x == Param(param):
            acc.add(0)
        if isinstance(n, Fmt) and n.spec.typ == "d" and _number_of(n.arg, param) == "round":
            acc.add(0)
    return acc


def fixed_models(v, reg, param):
    """-> list of Cols (one per alternative of undecided conditional expressions) or None when v is not a fixed-notation rendering"""
    if isinstance(v, Choice):
        a, b = fixed_models(v.a, reg, param), fixed_models(v.b, reg, param)
        return None if a is None or b is None else a + b
    if isinstance(v, Fmt):
        sp = v.spec
        kind = _number_of(v.arg, param)
        if kind is not None and sp.typ in ("f", "F", "d") and sp.conv is None:
            if (sp.typ == "d") != (kind in ("round", "trunc")) and (sp.typ == "d" or kind == "trunc"):
                return None
            if kind == "trunc":
                # int(x) printed as an integer: |x| digits of the decade, never a carry; below 1 it is the digit 0 without a sign.
                # Marked lossy: the fraction is cut, not rounded (a path that has established x == int(x) may disregard the mark)
                w = as_int(sp.width) if sp.width is not None else 0
                if w is None or sp.fill != " " or sp.zero or sp.alt:
                    return None
                k = reg.k
                c = Cols(sign=1 if ((reg.neg and k >= 1) or sp.sign in "+ ") else 0, intd=max(k, 1), lead0=k < 1, point=False, P=0,
                         frac_zero=True, zero=k < 1 and sp.sign == "-", lossy=True)
                pad = max(0, w - c.width)
                al = sp.eff_align(False)
                if al == "<":
                    return [dc_replace(c, pad_r=pad)]
                if al == "^":
                    return [dc_replace(c, pad_l=pad // 2, pad_r=pad - pad // 2)]
                if al == "=" and pad:
                    return None
                return [dc_replace(c, pad_l=pad)]
            P = 0 if sp.typ == "d" else (as_int(sp.prec) if sp.prec is not None else 6)
            w = as_int(sp.width) if sp.width is not None else 0
            if P is None or w is None or sp.fill != " " or sp.zero:
                return None
            rp = 0 if kind == "round" else P          # the precision at which x itself is rounded
            carry = reg.carry_upto >= rp
            k = reg.k
            if k >= 1:
                intd, lead0 = (k + 1 if carry else k), False
            else:
                intd, lead0 = 1, not (carry and k == 0)
            sign = 1 if (reg.neg or sp.sign in "+ ") else 0
            zero = rp < -k or (rp == -k and not carry)                     # below half a unit of the last decimal: "0.0000000"
            if zero:
                intd, lead0 = 1, True
            c = Cols(sign=sign, intd=intd, lead0=lead0, point=(P > 0 or sp.alt) and sp.typ != "d", P=P, zero=zero and sp.sign == "-",
                     frac_zero=zero or (carry and k >= 0) or kind == "round")      # 0.0999..96 -> 0.1000000: the fraction is not all zeros
            pad = max(0, w - c.width)
            al = sp.eff_align(False)
            if al == "<":
                c = dc_replace(c, pad_r=pad)
            elif al == "^":
                c = dc_replace(c, pad_l=pad // 2, pad_r=pad - pad // 2)
            elif al == "=" and pad:
                return None
            else:
                c = dc_replace(c, pad_l=pad)
            return [c]
        if sp.typ in ("s", None) and sp.conv is None and sp.prec is None:
            inner = fixed_models(v.arg, reg, param)
            w = as_int(sp.width) if sp.width is not None else 0
            if inner is None or w is None:
                return None
            out = []
            for c in inner:
                pad = max(0, w - c.width)
                if pad and sp.fill != " ":
                    return None
                al = sp.eff_align(True)
                if al == "<":
                    c = dc_replace(c, pad_r=c.pad_r + pad)
                elif al == "^":
                    c = dc_replace(c, pad_l=c.pad_l + pad // 2, pad_r=c.pad_r + pad - pad // 2)
                else:
                    c = dc_replace(c, pad_l=c.pad_l + pad)
                out.append(c)
            return out
        return None
    if isinstance(v, Strip):
        inner = fixed_models(v.s, reg, param)
        if inner is None:
            return None
        chars = " \t\n\r\x0b\x0c" if v.chars is None else v.chars
        return [_strip(c, chars, v.side) for c in inner]
    if isinstance(v, Replace):
        inner = fixed_models(v.s, reg, param)
        if inner is None:
            return None
        out = []
        for c in inner:
            r = _replace(c, v.old, v.new)
            if r is None:
                return None
            out.append(r)
        return out
    if isinstance(v, Slice):
        inner = fixed_models(v.s, reg, param)
        hi = None if v.hi is None else as_int(v.hi)
        if inner is None or v.lo is not None or (v.hi is not None and hi is None):
            return None
        return [_cut(c, hi) for c in inner] if hi is not None and hi >= 0 else (inner if hi is None else None)
    if isinstance(v, Cat):
        # a rendering followed by a literal '.' (the integer arm) or surrounded by literal blanks
        core = [p for p in v.parts if not isinstance(p, Lit)]
        if len(core) != 1:
            return None
        i = v.parts.index(core[0])
        inner = fixed_models(core[0], reg, param)
        if inner is None:
            return None
        before = "".join(p.s for p in v.parts[:i])
        after = "".join(p.s for p in v.parts[i + 1:])
        if before.strip(" ") or after.strip(" ") not in ("", "."):
            return None
        out = []
        for c in inner:
            if after.startswith("."):
                if c.point or c.pad_r:
                    return None
                c = dc_replace(c, point=True)
                rest = after[1:]
            else:
                rest = after
            c = dc_replace(c, pad_l=c.pad_l + len(before), pad_r=c.pad_r + len(rest))
            out.append(c)
        return out
    return None


def _strip(c, chars, side):
    if side in ("b", "l"):
        if c.pad_l:
            if " " in chars:
                c = dc_replace(c, pad_l=0)
            else:
                side = "r" if side == "b" else ""
        if side in ("b", "l"):
            if c.sign:
                if "-" in chars:
                    c = dc_replace(c, corrupt="the sign is stripped")
            elif c.lead0 and "0" in chars:
                c = dc_replace(c, intd=0, lead0=False)
                if "." in chars:
                    c = dc_replace(c, corrupt="the decimal point is stripped")
            elif any(d in chars for d in "123456789"):
                c = dc_replace(c, corrupt="leading digits may be stripped")
    if side in ("b", "r"):
        go = True
        if c.pad_r:
            if " " in chars:
                c = dc_replace(c, pad_r=0)
            else:
                go = False
        if go:
            if any(d in chars for d in "123456789"):
                c = dc_replace(c, corrupt="trailing digits may be stripped")
            if c.P > 0:
                if c.frac_zero and "0" in chars:
                    c = dc_replace(c, P=0)
                else:
                    go = False
            if go and c.P == 0:
                if c.point:
                    if "." in chars:
                        c = dc_replace(c, point=False)
                        if "0" in chars:
                            c = dc_replace(c, corrupt="trailing zeros of the integer part may be stripped")
                elif "0" in chars and c.intd:
                    c = dc_replace(c, corrupt="trailing zeros of the integer part may be stripped")
    return c


def _replace(c, old, new):
    alphabet = set(" -0123456789.")
    if not old or any(ch not in alphabet for ch in old):
        return c                                   # cannot occur
    if old == "-0." and new == "-.":
        if c.sign and c.lead0 and c.point:
            return dc_replace(c, intd=0, lead0=False)
        return c
    if "-" in old and not c.sign:
        return c
    if old == "0." and new == ".":
        if c.lead0 and c.point:
            return dc_replace(c, intd=0, lead0=False)
        if c.point and c.intd >= 2:
            return dc_replace(c, corrupt="an integer part that ends in 0 loses that digit")
        return c
    if old == " " and new == "":
        return dc_replace(c, pad_l=0, pad_r=0)
    return None


def _cut(c, n):
    """text[:n]"""
    over = c.width - n
    if over <= 0:
        return c
    d = min(over, c.pad_r)
    c = dc_replace(c, pad_r=c.pad_r - d)
    over -= d
    if over and c.P:
        d = min(over, c.P)
        c = dc_replace(c, P=c.P - d, lossy=c.lossy or not c.frac_zero)
        over -= d
    if over and c.point:
        c = dc_replace(c, point=False)
        over -= 1
    if over:
        c = dc_replace(c, intd=max(0, c.intd - over), corrupt="integer digits are cut off")
    return c


# ---------------------------------------------------------------------- generic width bounds
def width_bounds(v, helper_width):
    """(min, max) number of characters of a string value; max None = unbounded.  helper_width(name) -> exact width of a module function's
    result or None"""
    if isinstance(v, Lit):
        return len(v.s), len(v.s)
    if isinstance(v, CallS):
        w = helper_width(v.name)
        return (w, w) if w is not None else (0, None)
    if isinstance(v, Cat):
        lo = hi = 0
        for p in v.parts:
            a, b = width_bounds(p, helper_width)
            lo += a
            hi = None if hi is None or b is None else hi + b
        return lo, hi
    if isinstance(v, Strip):
        return 0, width_bounds(v.s, helper_width)[1]
    if isinstance(v, Replace):
        a, b = width_bounds(v.s, helper_width)
        return (0, b) if len(v.new) <= len(v.old) else (0, None)
    if isinstance(v, Slice):
        a, b = width_bounds(v.s, helper_width)
        hi = None if v.hi is None else as_int(v.hi)
        if v.lo is None and hi is not None and hi >= 0:
            return min(a, hi), (hi if b is None else min(b, hi))
        return 0, b
    if isinstance(v, Fmt) and v.spec.typ in ("s", None) and v.spec.conv is None and v.spec.prec is None:
        a, b = width_bounds(v.arg, helper_width)
        w = 0 if v.spec.width is None else as_int(v.spec.width)
        if w is None:
            return a, None
        return max(a, w), (None if b is None else max(b, w))
    if isinstance(v, Fmt) and v.spec.typ == "d" and v.spec.width is not None and as_int(v.spec.width) is not None:
        return as_int(v.spec.width), None
    if isinstance(v, Rep) and as_int(v.n) is not None:
        a, b = width_bounds(v.s, helper_width)
        n = max(0, as_int(v.n))
        return a * n, (None if b is None else b * n)
    if isinstance(v, Choice):
        a, b = width_bounds(v.a, helper_width), width_bounds(v.b, helper_width)
        return min(a[0], b[0]), (None if a[1] is None or b[1] is None else max(a[1], b[1]))
    return 0, None


def contains_call(v, pred):
    from .c12_exec import walk_value
    return any(isinstance(n, CallS) and pred(n.name) for n in walk_value(v))
