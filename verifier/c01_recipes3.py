"""C01 break / neutral recipes of pass 3: the constructs of the fresh refactorings N19 / N20 and of four further ones (generator stepping, `match`,
row views of one table, namedtuple results, blocks as properties), each with a broken sibling.  Imported by recipes_c01.py."""

U = "pyyeti/ode/_utilities.py"
B = "pyyeti/ode/_base_ode_class.py"
S = "pyyeti/ode/solveunc.py"
E1 = "pyyeti/ode/solveexp1.py"
E2 = "pyyeti/ode/solveexp2.py"

E1_OLD = '''            E = self.E
            for j in range(1, nt):
                d0 = d[:, j] = E @ d0 + PQF[:, j - 1]
'''
E1_NEW = '''            def march(E, state, forcing):
                for column in forcing.T:
                    state = E @ state + column
                    yield state

            for j, state in enumerate(march(self.E, d0, PQF), start=1):
                d[:, j] = state
'''
E1_ORDER_OLD = '''            if self.order == 1:
                PQF = self.P @ force[:, :-1] + self.Q @ force[:, 1:]
            else:
                PQF = self.P @ force[:, :-1]
            E = self.E'''
E1_ORDER_NEW = '''            match self.order:
                case 1:
                    PQF = self.P @ force[:, :-1] + self.Q @ force[:, 1:]
                case _:
                    PQF = self.P @ force[:, :-1]
            E = self.E'''
U_ALLOC_OLD = '''    F = pvrb.astype(float)
    G = h * F
    if m is None:
        A = (h * h / 3) * F
        Ap = (h / 2) * F
    else:
        A = (h * h / 3) * F / m
        Ap = (h / 2) * F / m
    B = A / 2
    Fp = np.zeros(n, float)
    Gp = F.copy()
    Bp = Ap.copy()
'''
U_ALLOC_NEW = '''    table = np.zeros((8, n), float)
    F, G, A, B, Fp, Gp, Ap, Bp = table
    F[:] = pvrb
    G[:] = h * F
    if m is None:
        A[:] = (h * h / 3) * F
        Ap[:] = (h / 2) * F
    else:
        A[:] = (h * h / 3) * F / m
        Ap[:] = (h / 2) * F / m
    B[:] = A / 2
    Gp[:] = F
    Bp[:] = Ap
'''
CX_OLD = '''        abslam = abs(lam)
        rb = abslam < 5.0e-5
        el = ~rb
        Fe = np.exp(lam * h)
        Ae = np.empty_like(Fe)
        Be = np.empty_like(Fe)
        ilam = 1 / lam[el]
        ilamh = (ilam * ilam) / h
        Ae[el] = ilamh + Fe[el] * (ilam - ilamh)
        Be[el] = Fe[el] * ilamh - ilam - ilamh
        if rb.any():
            Fe[rb] = 1.0
            Ae[rb] = h / 2.0
            Be[rb] = h / 2.0
        pc.Fe = Fe
        pc.Ae = Ae
        pc.Be = Be
'''
CX_NT_NEW = '''        from collections import namedtuple

        EigCoefs = namedtuple("EigCoefs", "Fe Ae Be")

        def compute(lam, h):
            rb = abs(lam) < 5.0e-5
            el = ~rb
            Fe = np.exp(lam * h)
            Ae = np.empty_like(Fe)
            Be = np.empty_like(Fe)
            ilam = 1 / lam[el]
            ilamh = (ilam * ilam) / h
            Ae[el] = ilamh + Fe[el] * (ilam - ilamh)
            Be[el] = Fe[el] * ilamh - ilam - ilamh
            if rb.any():
                Fe[rb] = 1.0
                Ae[rb] = h / 2.0
                Be[rb] = h / 2.0
            return %s

        for name, value in compute(lam, h)._asdict().items():
            setattr(pc, name, value)
'''
CX_CHAIN_NEW = '''        abslam = abs(lam)
        rb = abslam < 5.0e-5
        el = ~rb
        ilam = 1 / lam[el]
        ilamh = (ilam * ilam) / h
        pc.Fe = Fe = np.exp(lam * h)
        pc.Ae = Ae = np.empty_like(Fe)
        pc.Be = Be = np.empty_like(Fe)
        Be[el] = Fe[el] * ilamh - ilam - ilamh
        Ae[el] = ilamh + Fe[el] * (ilam - ilamh)
        if rb.any():
            Ae[rb] = Be[rb] = %s
            Fe[rb] = 1.0
'''
CX_FULL_NEW = '''        is_rb = np.abs(lam) < 5.0e-5
        rb = np.flatnonzero(is_rb)
        el = np.flatnonzero(~is_rb)
        Fe = np.exp(lam * h)
        Ae = np.full_like(Fe, %s)
        Be = Ae.copy()
        Fe_el = Fe[el]
        ilam = 1 / lam[el]
        ilamh = (ilam * ilam) / h
        Ae[el] = ilamh + Fe_el * (ilam - ilamh)
        Be[el] = Fe_el * ilamh - ilam - ilamh
        Fe[rb] = 1.0
        vars(pc).update(Fe=Fe, Ae=Ae, Be=Be)
'''
E2_OLD = '''            self.E_vv = E[:ksize, :ksize].copy()
            self.E_vd = E[:ksize, ksize:].copy()
            self.E_dv = E[ksize:, :ksize].copy()
            self.E_dd = E[ksize:, ksize:].copy()
            self.pc = True
        else:
            self.pc = False
        self._mk_slices()  # dorbel=False)

    def tsolve(self, force, d0=None, v0=None, static_ic=False):'''
E2_PROP_NEW = '''            self._E = E
            self.pc = True
        else:
            self.pc = False
        self._mk_slices()  # dorbel=False)

    @property
    def E_vv(self):
        return self._E[: self.ksize, : self.ksize]

    @property
    def E_vd(self):
        return self._E[%s]

    @property
    def E_dv(self):
        return self._E[self.ksize :, : self.ksize]

    @property
    def E_dd(self):
        return self._E[self.ksize :, self.ksize :]

    def tsolve(self, force, d0=None, v0=None, static_ic=False):'''
E2_BLK_OLD = '''            self.E_vv = E[:ksize, :ksize].copy()
            self.E_vd = E[:ksize, ksize:].copy()
            self.E_dv = E[ksize:, :ksize].copy()
            self.E_dd = E[ksize:, ksize:].copy()
'''
E2_BLK_NEW = '''            velo = %s
            disp = slice(ksize, None)
            self.E_dd = E[disp, disp].copy()
            self.E_dv = E[disp, velo].copy()
            self.E_vd = E[velo, disp].copy()
            self.E_vv = E[velo, velo].copy()
'''
UND_OLD = '''            # for displacement:
            F[pvundr] = ex * (cs + (beta / w) * sn)
            G[pvundr] = (ex * sn) / w
            t0 = 1 / (h * _k * w)
            t1 = (_w2 - beta * beta) / _wo2
            t2 = (2 * w * beta) / _wo2
            A[pvundr] = t0 * (ex * ((t1 - h * beta) * sn - (t2 + h * w) * cs) + t2)
            B[pvundr] = t0 * (ex * (-t1 * sn + t2 * cs) + w * h - t2)

            # for velocity:
            Fp[pvundr] = -(_wo2 / w) * ex * sn
            Gp[pvundr] = ex * (cs - (beta / w) * sn)
            Ap[pvundr] = t0 * (ex * ((beta + h * _wo2) * sn + w * cs) - w)
            Bp[pvundr] = t0 * (-ex * (beta * sn + w * cs) + w)
'''
UND_NEW = '''            t0 = 1 / (h * _k * w)
            t1 = (_w2 - beta * beta) / _wo2
            t2 = (2 * w * beta) / _wo2
            co = {"F": F, "G": G, "A": A, "B": B, "Fp": Fp, "Gp": Gp, "Ap": Ap, "Bp": Bp}

            def put(rows, **values):
                for name, value in values.items():
                    co[name][rows] = value

            put(
                np.flatnonzero(pvundr),
                F=ex * (cs %s (beta / w) * sn),
                G=(ex * sn) / w,
                A=t0 * (ex * ((t1 - h * beta) * sn - (t2 + h * w) * cs) + t2),
                B=t0 * (ex * (-t1 * sn + t2 * cs) + w * h - t2),
                Fp=-(_wo2 / w) * ex * sn,
                Gp=ex * (cs - (beta / w) * sn),
                Ap=t0 * (ex * ((beta + h * _wo2) * sn + w * cs) - w),
                Bp=t0 * (-ex * (beta * sn + w * cs) + w),
            )
'''
ACC_OLD = '''                    B = self.b[:, None] * v[kdof]
                K = self.k[:, None] * d[kdof]'''
ACC_NEW = '''                    B = self.b[(slice(None), np.newaxis)] * v[kdof]
                as_column = (slice(None), np.newaxis)
                K = self.k[as_column] * %s[kdof]'''
DV_OLD = "        self._init_dv(d, v, d0, v0, force[:, 0], static_ic)"
DV_NEW = "        ics = dict(zip((%s), (d0, v0)))\n        self._init_dv(d, v, F0=force[:, 0], static_ic=static_ic, **ics)"
RB_OLD = '''                rb = np.zeros(self.n, bool)
                rb[self.nonrf[_rb]] = True
                rb = np.nonzero(rb)[0]
'''

RECIPES3 = [
    ("C01", "neutral", [], E1, E1_OLD, E1_NEW, "SolveExp1.tsolve: stepping through a local generator function (yield), consumed with enumerate(start=1)"),
    ("C01", "break", ["C01-R8"], E1, E1_OLD, E1_NEW.replace("E @ state + column", "E @ state - column"), "refactored and broken: generator stepping subtracts the force term"),
    ("C01", "neutral", [], E1, E1_ORDER_OLD, E1_ORDER_NEW, "SolveExp1.tsolve: hold order dispatched with a match statement"),
    ("C01", "break", ["C01-R8"], E1, E1_ORDER_OLD, E1_ORDER_NEW.replace("case 1:", "case 0:"), "refactored and broken: match statement sends order 0 to the first-order-hold formula"),
    ("C01", "neutral", [], U, U_ALLOC_OLD, U_ALLOC_NEW, "get_su_coef: the eight coefficient vectors are row views of one 2-D table, initialised through [:]"),
    ("C01", "break", ["C01-R1"], U, U_ALLOC_OLD, U_ALLOC_NEW.replace("    Gp[:] = F\n", ""), "refactored and broken: row table: rigid-body Gp never initialised (stays 0)"),
    ("C01", "neutral", [], S, CX_OLD, CX_NT_NEW % "EigCoefs(Fe, Ae, Be)", "_get_complex_su_coefs: computed by a local function returning a namedtuple, published with setattr over _asdict()"),
    ("C01", "break", ["C01-R1b"], S, CX_OLD, CX_NT_NEW % "EigCoefs(Fe, Be, Ae)", "refactored and broken: namedtuple built with Ae and Be exchanged"),
    ("C01", "neutral", [], S, CX_OLD, CX_CHAIN_NEW % "h / 2.0", "_get_complex_su_coefs: arrays published before they are filled (chained assignment pc.Fe = Fe = ...)"),
    ("C01", "break", ["C01-R1b"], S, CX_OLD, CX_CHAIN_NEW % "h", "refactored and broken: chained publication, rigid-body override h instead of h/2"),
    ("C01", "neutral", [], S, CX_OLD, CX_FULL_NEW % "0.5 * h", "_get_complex_su_coefs: rigid-body values as the np.full_like default, index vectors, vars(pc).update"),
    ("C01", "break", ["C01-R1b"], S, CX_OLD, CX_FULL_NEW % "h", "refactored and broken: np.full_like default h instead of h/2"),
    ("C01", "neutral", [], E2, E2_OLD, E2_PROP_NEW % ": self.ksize, self.ksize :", "SolveExp2: the four E blocks as read-only properties over the stored E"),
    ("C01", "break", ["C01-R9"], E2, E2_OLD, E2_PROP_NEW % "self.ksize :, : self.ksize", "refactored and broken: property E_vd returns the (d, v) block"),
    ("C01", "neutral", [], E2, E2_BLK_OLD, E2_BLK_NEW % "slice(0, ksize)", "SolveExp2.__init__: halves as named slice objects, lower bound written as 0"),
    ("C01", "break", ["C01-R9"], E2, E2_BLK_OLD, E2_BLK_NEW % "slice(1, ksize)", "refactored and broken: velocity half starts at row 1"),
    ("C01", "neutral", [], U, UND_OLD, UND_NEW % "+", "get_su_coef: under-damped rows stored by a closure put(rows, **values) over a dict of destinations, rows as an index vector"),
    ("C01", "break", ["C01-R1"], U, UND_OLD, UND_NEW % "-", "refactored and broken: closure with keyword rows, sign of the sine term of F"),
    ("C01", "neutral", [], B, ACC_OLD, ACC_NEW % "d", "_calc_acce_kdof: column broadcast through a tuple (slice(None), np.newaxis), literal and named"),
    ("C01", "break", ["C01-R6"], B, ACC_OLD, ACC_NEW % "v", "refactored and broken: stiffness force from the velocity"),
    ("C01", "neutral", [], B, DV_OLD, DV_NEW % '"d0", "v0"', "_init_dva: initial conditions passed to _init_dv as **keywords from a dict"),
    ("C01", "break", ["C01-R4"], B, DV_OLD, DV_NEW % '"v0", "d0"', "refactored and broken: d0 and v0 exchanged in the keyword dict"),
    ("C01", "neutral", [], B, RB_OLD, "                rb = self.nonrf[_rb]\n", "_make_rb_el: full-set rigid-body positions by composing nonrf with _rb (both sorted)"),
    ("C01", "break", ["C01-R7"], B, RB_OLD, "                rb = _rb\n", "refactored and broken: non-rf positions published as full-set positions"),
    # obligations added / re-expressed in pass 3
    ("C01", "break", ["C01-R9"], E2, "        if h and ksize > 0:", "        if h and ksize > 1:", "SolveExp2.__init__: a single dynamic equation gets no state matrix"),
    ("C01", "neutral", [], E2, "        if h and ksize > 0:", "        if h and ksize >= 1:", "SolveExp2.__init__: size guard written as >= 1"),
    ("C01", "break", ["C01-R1b"], S, "        Be[el] = Fe[el] * ilamh - ilam - ilamh\n", "", "_get_complex_su_coefs: Be of the elastic eigenvalues never assigned (np.empty content published)"),
    ("C01", "break", ["C01-R1b"], S, "            Ae[rb] = h / 2.0\n", "", "_get_complex_su_coefs: Ae of the near-zero eigenvalues never assigned (np.empty content published)"),
    ("C01", "break", ["C01-R7"], B, "                pvnonrf = np.ix_(self.nonrf, self.nonrf)", "                pvnonrf = np.ix_(self.rf, self.nonrf)",
     "_chk_diag_part: coupled m, b, k cut with rf rows and non-rf columns"),
    ("C01", "break", ["C01-R7"], B, "        el = np.nonzero(el)[0]\n", "", "_make_rb_el: the elastic set published as a boolean mask (elsize becomes the number of equations)"),
]
