"""C16 rules R4-R6 (apply_uf / _pre_calcs / frf_apply_uf): effects and aliasing, documented factors, exits, index spaces - on values."""
from __future__ import annotations

from . import e2_formula as F
from .core import Unsupported
from .c16_interp import Interp, NONE, SIGS, is_const, mem, op, show, free_syms, basic_index, written_args, unfollowed_writes
from .c16_ext import Agg, params, fact_of, content_root, raise_anchor, good_paths

EVT = "pyyeti/cla/dr_event.py"
UFS = {"uf_reds", "ruf", "euf", "duf", "suf"}
INPLACE_METHODS = {".sort", ".fill", ".resize", ".put", ".itemset", ".partition", ".byteswap"}
INPLACE_FUNCS = {"np.copyto": 0, "np.put": 0, "np.place": 0, "np.putmask": 0, "np.fill_diagonal": 0}
OVERWRITE = {"overwrite_a": ("a", 0), "overwrite_b": ("b", 1), "overwrite_x": ("x", 0), "overwrite_ab": ("ab", 1)}


def _sig(ctx, q):
    fn = ctx.src.func(EVT, q)
    return fn, params(fn)


def _pc_interp(ctx, rf, md, bd, kd, noinline=()):
    fn, pr = _sig(ctx, "_pre_calcs")
    if len(pr) < 7:
        raise_anchor("_pre_calcs(sol, m, b, k, nrb, rfmodes, save)")
    sol, m, b, k, nrb, rfm, save = pr[:7]
    pins = {("attr", ("s", b), "ndim"): ("c", bd), ("attr", ("s", k), "ndim"): ("c", kd)}
    if md != "none":
        pins[("attr", ("s", m), "ndim")] = ("c", md)

    def cond(key, P):
        if key == op("is", ("s", m), NONE):
            return md == "none"
        if key == op("is", ("s", rfm), NONE):
            return not rf
        if key in (op("is", ("s", b), NONE), op("is", ("s", k), NONE), op("is", ("s", sol), NONE)):
            return False            # documented as arrays / a namespace (their .ndim is pinned): a shared helper may test for None
        return None

    I = Interp(ctx, EVT, "_pre_calcs", pins=pins, cond=cond, kinds={rfm: "index", nrb: "count", save: "dict"}, noinline=noinline)
    return fn, I, good_paths(ctx, I), (sol, m, b, k, nrb, rfm, save)


def _au_interp(ctx, kd, cached, allrb=None, rf=None, lup=None, inline_pc=False):
    fn, pr = _sig(ctx, "apply_uf")
    if len(pr) < 8:
        raise_anchor("apply_uf(sol, uf_reds, m, b, k, nrb, rfmodes, save)")
    sol, ufr, m, b, k, nrb, rfm, save = pr[:8]
    pins = {("attr", ("s", k), "ndim"): ("c", kd)}
    for i, nm in enumerate(("ruf", "euf", "duf", "suf")):
        pins[("idx", ("s", ufr), ("c", i))] = ("s", nm)

    def cond(key, P):
        nk = P.norm(key)
        if cached is not None and nk == ("op", "in", ("c", "genforce"), ("s", save)):
            return cached
        if cached is not None and nk == op("is", ("s", save), NONE):
            return False
        if allrb is not None and nk == op("eq", ("s", nrb), ("idx", ("attr", ("s", k), "shape"), ("c", 0))):
            return allrb
        if rf is not None and nk == op("is", ("s", rfm), NONE):
            return not rf
        if nk in (op("is", ("s", k), NONE), op("is", ("s", sol), NONE)):
            return False
        if lup is not None and nk[0] == "op" and nk[1] == "is" and NONE in nk[2:]:
            x = nk[2] if nk[3] == NONE else nk[3]
            if x[0] == "idx" and is_const(x[2]) and isinstance(x[2][1], str) and x[2][1].startswith("lup"):
                return not lup
        return None

    I = Interp(ctx, EVT, "apply_uf", pins=pins, cond=cond, kinds={rfm: "index", nrb: "count", save: "dict"},
               noinline=() if inline_pc else {"_pre_calcs"})
    return fn, I, good_paths(ctx, I), (sol, ufr, m, b, k, nrb, rfm, save)


def _rf_root(t):
    """rfmodes after np.atleast_1d / .nonzero()[0] is still the rf partition"""
    for _ in range(8):
        if t[0] == "call" and t[1] in ("np.atleast_1d", "np.asarray", ".nonzero", "np.array") and t[2]:
            t = t[2][0]
        elif t[0] == "idx" and t[2] == ("c", 0) and t[1][0] == "call" and t[1][1] == ".nonzero":
            t = t[1]
        elif t[0] == "new":
            t = t[2]
        else:
            break
    return t


# ------------------------------------------------------------------------------------------------------------------------- R4
def _external(P, t, allowed=()):
    roots, cert = mem(P, t)
    ext = set()
    for r in roots:
        if r[0] == "ref":
            continue
        if "deep" in repr(r):
            continue
        if r in allowed:
            continue
        ext.add(r)
    return ext, cert


def _effects(A, P, q, allowed=()):
    """in-place effects of a path: none of them may reach storage the function did not allocate itself"""
    n = 0
    for e in P.events:
        tgt = None
        what = None
        if e.kind == "store":
            tgt = e.target
            what = f"`{show(P.norm(e.target))}[{show(P.norm(e.index))}]{' (augmented)' if e.aug else ''}`"
        elif e.kind == "inplace":
            tgt = e.target
            what = f"in-place operator on `{show(P.norm(e.target))}`"
        elif e.kind == "setattr" and P.obj(e.target) is None and "deep" not in repr(e.target) and e.target not in allowed:
            A.req(f"{q}: member `{show(P.norm(e.target))}.{e.name}` of an input object is not rebound", False, e.node,
                  "the caller's object is modified", fkey=f"C16-R4|{q}|setattr {show(P.norm(e.target))}.{e.name}")
            n += 1
            continue
        elif e.kind == "call":
            kw = dict(e.kws)
            for pn_, pv_ in zip(SIGS.get(e.name, []), e.args):
                kw.setdefault(pn_, pv_)
            for kname, (pname, pos) in OVERWRITE.items():
                v = kw.get(kname)
                if v is not None and not (is_const(v) and not v[1]):
                    arg = e.args[pos] if len(e.args) > pos else kw.get(pname)
                    if arg is not None:
                        n += _eff1(A, P, q, arg, f"`{e.name}(..., {kname}=True)` on `{show(P.norm(arg))}`", e.node, allowed)
            if "out" in kw and kw["out"] != NONE:
                n += _eff1(A, P, q, kw["out"], f"`{e.name}(..., out=)` into `{show(P.norm(kw['out']))}`", e.node, allowed)
            if e.name in INPLACE_METHODS or e.name in INPLACE_FUNCS:
                if e.args:
                    n += _eff1(A, P, q, e.args[0], f"`{e.name}` on `{show(P.norm(e.args[0]))}`", e.node, allowed)
            continue
        if tgt is None:
            continue
        n += _eff1(A, P, q, tgt, what, e.node, allowed)
    return n


def _eff1(A, P, q, tgt, what, node, allowed):
    if tgt in allowed:
        return 0
    ext, cert = _external(P, tgt, allowed)
    ok = (not ext) if (cert or not ext) else None
    A.req(f"{q}: {what} writes only into storage allocated by the call (not the caller's solution, matrices or cache)",
          ok, node, f"shares storage with {', '.join(sorted(show(P.norm(r)) for r in ext))}" if ext else None,
          fkey=f"C16-R4|{q}|{what}")
    return 1


def r4_cache_purity(ctx):
    pc, ppr = _sig(ctx, "_pre_calcs")
    ok = not (UFS & set(ppr))
    ctx.check(ok, "_pre_calcs does not receive the uncertainty factors (nothing it caches can depend on them)", pc, ppr)
    A = Agg(ctx)
    nst = 0
    for rf in (False, True):
        for md, bd, kd in (("none", 1, 1), (1, 1, 1), (2, 2, 2), (1, 2, 2), (2, 1, 2)):
            fn, I, paths, (sol, m, b, k, nrb, rfm, save) = _pc_interp(ctx, rf, md, bd, kd)
            SAVE = ("s", save)
            for P in paths:
                nst += _effects(A, P, "_pre_calcs", allowed={SAVE})
                saved = {}
                for e in P.stores(lambda e: e.target == SAVE):
                    saved[P.norm(e.index)] = e
                for ix, e in saved.items():
                    bad = free_syms(P.norm(e.value)) & UFS
                    A.req("_pre_calcs: no cached value mentions an uncertainty factor", not bad, e.node, sorted(bad))
                # avterm is a snapshot: it must not share storage with genforce, which is accumulated into afterwards
                ea, eg = saved.get(("c", "avterm")), saved.get(("c", "genforce"))
                key = "_pre_calcs: the cached avterm does not share storage with genforce (the stiffness term is accumulated into genforce afterwards)"
                if ea is None or eg is None:
                    A.req(key, None, fn, "save['avterm'] / save['genforce'] not stored")
                    continue
                ra, ca = mem(P, ea.value)
                rg, cg = mem(P, eg.value)
                later = [x for x in P.stores() if x.target in rg or mem(P, x.target)[0] & rg]
                shared = ra & rg
                for fk, fv in P.fact_order:
                    # the path itself asked numpy whether the two share storage and was told no
                    if fv is False and fk[0] == "truth" and fk[1][0] == "call" and fk[1][1] in ("np.shares_memory", "np.may_share_memory") \
                            and len(fk[1][2]) == 2 and ea.value in fk[1][2] and (eg.value in fk[1][2] or set(mem(P, [x for x in fk[1][2] if x != ea.value][0])[0]) >= rg):
                        shared = set()
                A.req(key, (not shared) if (ca or not shared) else None, ea.node,
                      f"avterm is `{show(P.norm(ea.value))}`, a view of genforce" if shared else None)
    A.req("_pre_calcs: effect rule bound", nst > 0, pc, nontrivial=False)
    A.flush(pc)
    # apply_uf
    A = Agg(ctx)
    nst = 0
    for kd in (1, 2):
        fn, I, paths, (sol, ufr, m, b, k, nrb, rfm, save) = _au_interp(ctx, kd, None)
        pcdef, ppr = _sig(ctx, "_pre_calcs")
        for P in paths:
            nst += _effects(A, P, "apply_uf")
            incache = fact_of(P, ("op", "in", ("c", "genforce"), ("s", save)))
            calls = P.calls("_pre_calcs")
            reads = [P.norm(e.value) for e in P.stores() if "'genforce'" in repr(P.norm(e.value)) or "'avterm'" in repr(P.norm(e.value))]
            fresh_cache = any("('new', 'dict'" in repr(r) for r in reads)
            key = "apply_uf: _pre_calcs fills the cache (once) before it is read when it has no 'genforce' entry"
            if reads and (incache is False or fresh_cache):
                A.req(key, len(calls) == 1, fn, f"{len(calls)} calls on a path that reads an empty cache")
            for c in calls:
                kw = dict(c.kws)
                got = [c.args[i] if i < len(c.args) else kw.get(ppr[i]) for i in range(min(7, len(ppr)))]
                ok = len(got) == 7 and all(g is not None for g in got)
                if ok:
                    g = [P.norm(x) for x in got]
                    ok = g[0] == ("s", sol) and g[1:5] == [("s", m), ("s", b), ("s", k), ("s", nrb)] and _rf_root(g[5]) in (("s", rfm), NONE) \
                        and (g[6] == ("s", save) or (g[6][0] == "new" and g[6][1] == "dict"))
                A.req("apply_uf: _pre_calcs receives the unscaled sol, the matrices, nrb, rfmodes and the cache", ok, c.node,
                      [show(P.norm(x)) if x is not None else None for x in got])
        # a path that ends in a certain KeyError on a cache dict the call created itself: the cache is read before _pre_calcs filled it
        for P in getattr(I, "all_paths", ()):
            if P.status != "raise":
                continue
            for e in P.events:
                if e.kind == "keyerror" and P.obj(e.target) is not None and P.obj(e.target).kind == "dict" and not P.calls("_pre_calcs"):
                    A.req("apply_uf: _pre_calcs fills the cache (once) before it is read when it has no 'genforce' entry", False, e.node,
                          f"`{show(P.norm(e.index))}` is looked up in a cache dict the call has just created empty, and _pre_calcs was not called (KeyError)")
    A.req("apply_uf: effect rule bound", nst > 0, ctx.src.func(EVT, "apply_uf"), nontrivial=False)
    A.flush(ctx.src.func(EVT, "apply_uf"))
    # frf_apply_uf works on a deep copy
    ff = ctx.src.func(EVT, "DR_Event.frf_apply_uf")
    I = Interp(ctx, EVT, "DR_Event.frf_apply_uf")
    A = Agg(ctx)
    for P in good_paths(ctx, I):
        _effects(A, P, "frf_apply_uf")
    A.flush(ff)


# ------------------------------------------------------------------------------------------------------------------------- R5
class Conv:
    def __init__(self, P, kname=None, lups=True):
        self.P = P
        self.kname = kname

    def __call__(self, t):
        P = self.P
        k = t[0]
        if k == "c":
            if isinstance(t[1], (int, float)) and not isinstance(t[1], bool):
                from fractions import Fraction
                return F.const(Fraction(repr(t[1])) if isinstance(t[1], float) else Fraction(t[1]))
            raise Unsupported(f"constant {t[1]!r}")
        if k == "s":
            return F.sym(t[1])
        if k == "attr":
            if t[2] in ("T", "real"):
                return self(t[1])
            if t[1][0] == "ref":
                # a member the path never set on an object it created: set by something that was not followed
                raise Unsupported(f"member `{t[2]}` of an object created on the path is not set by it")
            return F.sym(show(P.norm(t)))
        if k == "idx":
            if is_const(t[2]) and isinstance(t[2][1], str):
                return F.sym(show(P.norm(t)))
            if t[1][0] == "elem" and is_const(t[2]) and isinstance(t[2][1], int):
                return F.sym(f"uf{t[2][1]}")
            return self(t[1])
        if k == "ld":
            return self(t[3])
        if k == "ref":
            o = P.heap[t[1]]
            og = o.origin
            if og[0] == "call" and og[1] in (".copy", "copy.copy", "np.array", "np.copy", "np.asarray") and og[2]:
                return self(og[2][0])
            return F.sym(f"<{og[1] if og[0] == 'call' else 'new'}#{t[1]}>")
        if k == "call":
            if t[1] in (".copy", "np.asarray", "np.array", "np.atleast_2d") and t[2]:
                return self(t[2][0])
            if t[1] == "la.lu_solve" and len(t[2]) >= 2 and self.kname:
                return self(t[2][1]) / F.sym(self.kname)
            raise Unsupported(f"call {t[1]}")
        if k == "op":
            n = t[1]
            if n == "neg":
                return -self(t[2])
            a = [self(x) for x in t[2:]]
            if n == "add":
                r = a[0]
                for x in a[1:]:
                    r = r + x
                return r
            if n in ("mul", "matmul"):
                r = a[0]
                for x in a[1:]:
                    r = r * x
                return r
            if n == "sub" and len(a) == 2:
                return a[0] - a[1]
            if n == "div" and len(a) == 2:
                return a[0] / a[1]
            raise Unsupported(f"operator {n}")
        raise Unsupported(f"term {k}")


def _region(ix, nrb, rfm, save):
    while ix[0] == "tup" and len(ix) >= 3 and ix[-1] in (("slice", NONE, NONE, NONE), ("c", Ellipsis)):
        ix = ix[1] if len(ix) == 3 else ix[:-1]         # X[rows, :] / X[rows, ...] address the rows
    if ix in (("slice", NONE, NONE, NONE), ("c", Ellipsis), ("slice", ("c", 0), NONE, NONE)):
        return ":"
    if ix == ("slice", NONE, ("s", nrb), NONE) or ix == ("slice", ("c", 0), ("s", nrb), NONE):
        return ":nrb"
    if ix == ("slice", ("s", nrb), NONE, NONE):
        return "nrb:"
    if _rf_root(ix) == ("s", rfm):
        return "rfmodes"
    if ix == ("idx", ("s", save), ("c", "elastic")):
        return "elastic"
    return show(ix)


LEAVES = ("RB", "EL", "RF")
LEAF_TEXT = {"RB": "rigid-body rows [:nrb]", "EL": "elastic rows", "RF": "residual-flexibility rows [rfmodes]"}
COVER = {":": LEAVES, ":nrb": ("RB",), "nrb:": ("EL", "RF"), "elastic": ("EL",), "rfmodes": ("RF",)}


class LeafConv(Conv):
    """scalar image of a value on one row class (leaf) of the solution: a read of a tracked part of the returned solution is what the stores
    made so far left on that row class, so `x[r] *= f`, `x[r] = x[r] * f`, np.multiply(x[r], f, out=x[r]), a fill followed by partial
    overwrites, and partial stores in any order are the same thing"""

    def __init__(self, P, state, leaf, names, kname=None, fresh=None):
        super().__init__(P, kname=kname)
        self.state, self.leaf, self.names, self.fresh = state, leaf, names, fresh or {}
        self.garbage = False

    def __call__(self, t):
        if t[0] in ("idx", "ld") and t[1] in self.state:
            nrb, rfm, save = self.names
            cov = COVER.get(_region(self.P.norm(t[2]), nrb, rfm, save))
            if cov is None or self.leaf not in cov:
                raise Unsupported(f"rows `{show(self.P.norm(t[2]))}` of a part of the solution read into the {LEAF_TEXT[self.leaf]}")
            return self._cur(t[1])
        if t[0] == "ref" and t in self.state:
            return self._cur(t)
        return super().__call__(t)

    def _cur(self, f):
        v = self.state[f][self.leaf]
        if self.fresh.get(f, {}).get(self.leaf) == "uninit":
            self.garbage = True         # np.empty memory is read: whatever is computed from it (also `* 0`: NaN, inf) is not a documented value
        if v is None:
            raise Unsupported("content not known (a call that was not followed may have written into it)")
        return v


def _decide(val, want, known):
    """True: the value is the documented one; False: it is another expression of the known quantities alone; None: it mentions something the
    rule cannot place (the result of a call that was not followed, a member it does not know) - undecided, never a violation"""
    if val.equals(want):
        return True
    marks = ("<uninitialised#", "<computed from uninitialised memory#")
    for a in val.n.atoms() | val.d.atoms():
        d = F.atom_desc(a)
        if not (isinstance(d, tuple) and len(d) == 2 and d[0] == "s" and (d[1] in known or str(d[1]).startswith(marks))):
            return None
    return False


def _initial(P, cv, ref):
    """scalar image of a freshly created array: zeros / full are their fill value, empty is a value of its own (nothing equals it)"""
    o = P.obj(ref)
    og = o.origin if o is not None else None
    if og is not None and og[0] == "call":
        if og[1] in ("np.zeros", "np.zeros_like"):
            return F.const(0), "filled"
        if og[1] in ("np.ones", "np.ones_like"):
            return F.const(1), "filled"
        if og[1] in ("np.full", "np.full_like") and len(og[2]) >= 2:
            return cv(og[2][1]), "filled"
        if og[1] in ("np.empty", "np.empty_like"):
            return F.sym(f"<uninitialised#{ref[1]}>"), "uninit"
    return cv(ref), "input"


def r5_documented_factors(ctx):
    ruf, euf, duf, suf = (F.sym(x) for x in ("ruf", "euf", "duf", "suf"))
    for kdim in (1, 2):
        fn, I, paths, (sol, ufr, m, b, k, nrb, rfm, save) = _au_interp(ctx, kdim, True, rf=True)
        A_, V_, PG = (F.sym(f"{sol}.{x}") for x in ("a", "v", "pg"))
        GF, AV, K = F.sym(f"{save}['genforce']"), F.sym(f"{save}['avterm']"), F.sym(k)
        tag = f"apply_uf (k {'diagonal' if kdim == 1 else 'full'})"
        want = {
            ("a", "RB"): A_ * ruf * suf, ("v", "RB"): V_ * ruf * suf,
            ("a", "EL"): A_ * euf * duf, ("v", "EL"): V_ * euf * duf,
            ("a", "RF"): F.const(0), ("v", "RF"): F.const(0), ("d_dynamic", "RF"): F.const(0),
            ("d_static", "RB"): F.const(0), ("d_dynamic", "RB"): F.const(0),
            ("d_dynamic", "EL"): -euf * duf * AV / K,
            ("d_static", "EL"): euf * suf * GF / K, ("d_static", "RF"): euf * suf * GF / K,
        }
        known = {f"{sol}.{x}" for x in ("a", "v", "d", "pg")} | {"ruf", "euf", "duf", "suf", f"{save}['genforce']", f"{save}['avterm']", f"{save}['lup_elastic']", f"{save}['lup_rf']", k, m, b, nrb}
        A = Agg(ctx)
        npg = 0
        seen, blind = set(), set()
        t_all = op("eq", ("s", nrb), ("idx", ("attr", ("s", k), "shape"), ("c", 0)))

        k_rows = f"{tag}: every store into a part of the solution addresses all, rigid-body, non-rigid-body, elastic or rf rows"
        k_every = f"{tag}: every path with elastic modes scales all parts of the solution"

        def name_of(key):
            return f"{tag}: `{key[0]}` on the {LEAF_TEXT[key[1]]} ends as documented ({want[key]})"

        for P in paths:
            ret = P.ret
            o = P.obj(ret)
            if o is None:
                A.req(f"{tag}: returns the scaled copy of the solution", None, fn, show(P.norm(ret)))
                continue
            fld = {}
            for nm in ("a", "v", "d_static", "d_dynamic"):
                fld[P.field(ret, nm)] = nm
            cv0 = Conv(P, kname=k)
            state, fresh = {}, {}
            for f, nm in fld.items():
                try:
                    v0, un = _initial(P, cv0, f) if P.obj(f) is not None else (cv0(f), "input")
                except Unsupported:
                    v0, un = None, False
                state[f] = {L: v0 for L in LEAVES}
                # what an untouched row class still holds: "uninit" (np.empty), "input" (a copy of the caller's data), "filled" (zeros / full:
                # a definite value that may already be the documented one)
                fresh[f] = {L: (un if v0 is not None else False) for L in LEAVES}
            # replay, in program order, of everything that writes into the four parts
            evs = [e for e in P.events if (e.kind == "store" and e.target in fld) or e.kind == "call"]
            for e in evs:
                if e.kind == "call":
                    for f in fld:
                        if any(isinstance(a, tuple) and a and (a == f or f in mem(P, a)[0]) for a in written_args(e)):
                            state[f] = {L: None for L in LEAVES}
                            fresh[f] = {L: False for L in LEAVES}
                            blind.add(fld[f])
                    continue
                f = e.target
                reg = _region(P.norm(e.index), nrb, rfm, save)
                cov = COVER.get(reg)
                nv = P.norm(e.value)
                if nv[0] == "call" and nv[1] == "la.lu_solve" and nv[2] and fact_of(P, op("is", nv[2][0], NONE)) is True:
                    for L in (cov or LEAVES):
                        if (fld[f], L) in want:
                            A.req(name_of((fld[f], L)), False, e.node, f"`{show(nv)}` is evaluated on the path where `{show(nv[2][0])}` is None")
                    continue
                A.req(k_rows, True if cov is not None else None, e.node, f"{fld[f]}[{reg}]", nontrivial=False)
                if cov is None:
                    # rows the rule cannot place: the content of this part is not known from here on
                    state[f] = {L: None for L in LEAVES}
                    fresh[f] = {L: False for L in LEAVES}
                    continue
                newv = {}
                for L in cov:
                    try:
                        lc = LeafConv(P, state, L, (nrb, rfm, save), kname=k, fresh=fresh)
                        newv[L] = lc(e.value)
                        if lc.garbage:
                            newv[L] = F.sym(f"<computed from uninitialised memory#{e.seq}>")
                    except Unsupported as ex:
                        newv[L] = None
                        A.req(name_of((fld[f], L)), None, e.node, f"{ex}: {show(nv)}")
                for L in cov:
                    state[f][L] = newv[L]
                    fresh[f][L] = False
            # which row classes are certainly populated on this path
            some_el = fact_of(P, t_all) is False
            pop = {"RB": fact_of(P, ("truth", ("s", nrb))) is True, "EL": some_el and kdim == 1, "RF": False}
            # ... and which are certainly empty: no rigid-body modes; nothing but rigid-body modes; (full k) the cache holds no factorisation
            # of the block, which is how _pre_calcs records a block without rows
            none_lu = {L: fact_of(P, op("is", ("idx", ("s", save), ("c", nm_)), NONE)) is True for L, nm_ in (("EL", "lup_elastic"), ("RF", "lup_rf"))}
            empty = {"RB": fact_of(P, ("truth", ("s", nrb))) is False, "EL": fact_of(P, t_all) is True or (kdim == 2 and none_lu["EL"]),
                     "RF": fact_of(P, t_all) is True or (kdim == 2 and none_lu["RF"])}
            for f, nm in fld.items():
                for L in LEAVES:
                    if empty[L]:
                        continue
                    key = (nm, L)
                    val, fr_ = state[f][L], fresh[f][L]
                    need = pop[L] or (some_el and nm in ("a", "v") and L == "EL")
                    if fr_ == "filled" and val is not None and (need or val.equals(want[key])):
                        fr_ = False         # created with a definite value: that is what these rows hold
                    if need:
                        A.req(k_every, not fr_, fn, None if not fr_ else f"{nm} on the {LEAF_TEXT[L]} is not assigned on a path on which these rows exist")
                    if fr_:
                        continue            # nothing was written there on this path
                    seen.add(key)
                    if val is None:
                        A.req(name_of(key), None, fn, "content not known")
                        continue
                    ok = _decide(val, want[key], known)
                    A.req(name_of(key), ok, fn, None if ok else {"ends as": repr(val), "documented": repr(want[key])})
            pgv = o.fields.get("pg")
            if pgv is not None:
                npg += 1
                try:
                    ok = _decide(cv0(pgv), PG * suf, known)
                except Unsupported:
                    ok = None
                A.req(f"{tag}: pg is scaled by suf", ok, fn, show(P.norm(pgv)))
        for key in want:
            if key not in seen:
                A.req(name_of(key), None if key[0] in blind else False, fn,
                      "never assigned; assigned: " + ", ".join(sorted(f"{a_} ({LEAF_TEXT[b_]})" for a_, b_ in seen)))
        A.req(f"{tag}: pg is scaled by suf", True if npg else None, fn, "no path sets solout.pg")
        A.flush(fn)
    # factor tuple order
    fn, I, paths, (sol, ufr, m, b, k, nrb, rfm, save) = _au_interp(ctx, 1, True)
    A = Agg(ctx)
    A.req("apply_uf: factor tuple order is (rigid, elastic, dynamic, static)", True if paths else None, fn)
    for P in paths:
        fr = P.frame
        # a[:nrb] is scaled by element 0 and element 3 of uf_reds: (rigid, elastic, dynamic, static)
        o = P.obj(P.ret)
        if o is None:
            continue
        at = P.field(P.ret, "a")
        st = [e for e in P.stores() if e.target == at and _region(P.norm(e.index), nrb, rfm, save) == ":nrb"]
        if not st:
            continue
        ok = None
        if st:
            try:
                ok = _decide(Conv(P)(st[0].value), F.sym(f"{sol}.a") * F.sym("ruf") * F.sym("suf"),
                             {f"{sol}.a", f"{sol}.v", "ruf", "euf", "duf", "suf"})
            except Unsupported:
                ok = None
        A.req("apply_uf: factor tuple order is (rigid, elastic, dynamic, static)", ok, st[0].node if st else fn)
    A.flush(fn)
    # _pre_calcs: genforce - avterm = K d on the elastic rows, for 1-D and 2-D m, b, k, without and with rf modes
    for rf in (False, True):
        for md in ("none", 1, 2):
            for bd in (1, 2):
                for kd in (1, 2):
                    fn, I, paths, (sol, m, b, k, nrb, rfm, save) = _pc_interp(ctx, rf, md, bd, kd)
                    M, B, Kk = F.sym(m), F.sym(b), F.sym(k)
                    a, v, d = (F.sym(f"{sol}.{x}") for x in "avd")
                    mm = F.const(1) if md == "none" else M
                    name = f"_pre_calcs ({'rf modes, ' if rf else ''}m {md}, b {bd}-D, k {kd}-D): genforce = m a + b v + k d and avterm = m a + b v " \
                           "(so d_static + d_dynamic = K^-1 (K d) = d for unit factors)"
                    A = Agg(ctx)
                    A.req(name, True if paths else None, fn, "no path")
                    for P in paths:
                        sv = {}
                        for e in P.stores(lambda e: e.target == ("s", save)):
                            sv[P.norm(e.index)] = e
                        eg, ea = sv.get(("c", "genforce")), sv.get(("c", "avterm"))
                        if eg is None or ea is None or P.obj(eg.value) is None:
                            A.req(name, None, fn, "cache entries not found")
                            continue
                        cont = P.obj(eg.value).content
                        cv = Conv(P)
                        try:
                            av = cv(ea.value)
                            vals = [cv(x) for x in cont.values()]
                        except Unsupported as ex:
                            A.req(name, None, fn, str(ex))
                            continue
                        full = mm * a + B * v + Kk * d
                        ok = av.equals(mm * a + B * v) and any(x.equals(full) for x in vals) and all(x.equals(full) or x.equals(Kk * d) for x in vals) \
                            and len(vals) == (2 if rf else 1)
                        A.req(name, ok, fn, None if ok else {"genforce": [repr(x) for x in vals], "avterm": repr(av)})
                    A.flush(fn)
    # frf_apply_uf: documented factors on a deep copy
    ff = ctx.src.func(EVT, "DR_Event.frf_apply_uf")
    pr = params(ff, True)
    sol, nrb = pr[:2]
    I = Interp(ctx, EVT, "DR_Event.frf_apply_uf", kinds={nrb: "scalar"})
    A = Agg(ctx)
    uf = [F.sym(f"uf{i}") for i in range(4)]
    for P in good_paths(ctx, I):
        cv = Conv(P)
        got = {}
        for e in P.stores():
            t = P.norm(e.target)
            if t[0] == "attr" and t[2] in "avd" and "deep" in repr(t[1]):
                got[(t[2], _region(P.norm(e.index), nrb, "", ""))] = e
        for x in "avd":
            X = F.sym(show(("attr", ("deep", ("s", sol)), x)))
            for reg, w in ((":nrb", uf[0] * uf[3]), ("nrb:", uf[1] * uf[2])):
                name = f"frf_apply_uf: {x}[{reg}] of the deep copy is scaled by {'ruf*suf' if reg == ':nrb' else 'euf*duf'}"
                e = got.get((x, reg))
                if e is None:
                    A.req(name, False, ff, sorted(f"{a_}[{b_}]" for a_, b_ in got))
                    continue
                try:
                    val = cv(e.value)
                    base = [s_ for s_ in (F.sym(n_) for n_ in _syms_of(P, e.value)) if True]
                    ok = any(val.equals(bx * w) for bx in base)
                    if not ok and _decide(val, F.const(0), set(_syms_of(P, e.value)) | {f"uf{i}" for i in range(4)}) is None:
                        ok = None
                except Unsupported as ex:
                    ok = None
                A.req(name, ok, e.node, show(P.norm(e.value)))
        pgs = [e for e in P.events if e.kind == "setattr" and e.name == "pg"]
        if fact_of(P, ("op", "in", ("c", "pg"), ("attr", ("deep", ("s", sol)), "__dict__"))) is True or pgs:
            ok = None
            if pgs:
                try:
                    val = cv(pgs[-1].value)
                    ok = any(val.equals(F.sym(n_) * uf[3]) for n_ in _syms_of(P, pgs[-1].value))
                except Unsupported:
                    ok = None
            A.req("frf_apply_uf: pg of the deep copy is scaled by suf", ok if pgs else False, pgs[-1].node if pgs else ff)
        keys = [e for e in P.stores() if P.obj(e.target) is not None and P.obj(e.target).kind == "dict"]
        ok = len(keys) == 1 and P.norm(keys[0].value)[0] == "new" and "copy.deepcopy" in repr(P.norm(keys[0].value)) and keys[0].index[0] == "elem"
        A.req("frf_apply_uf: each factor tuple gets its own deep copy of the solution, stored under that tuple", ok, keys[0].node if keys else ff)
    A.flush(ff)


def _syms_of(P, t):
    """names of the array-valued atoms of a value (attribute chains)"""
    out = set()

    def walk(x):
        if not isinstance(x, tuple) or not x:
            return
        if x[0] == "attr":
            out.add(show(P.norm(x)))
            return
        for y in x[1:]:
            if isinstance(y, tuple):
                walk(y)

    walk(t)
    return sorted(out)


# ------------------------------------------------------------------------------------------------------------------------- R6
class Spaces:
    """row-space typing of terms: N (all modes), NR (non rigid-body), EL (elastic), RF (residual flexibility), RB"""

    def __init__(self, P, names, rf, cache=None):
        self.P = P
        self.sol, self.m, self.b, self.k, self.nrb, self.rfm, self.save = names
        self.rf = rf
        self.cache = cache or {}
        self.bad = []          # (kind, text, node)
        self.node = None
        self.checked = []      # texts
        self.n = ("idx", ("attr", ("attr", ("s", self.sol), "a"), "shape"), ("c", 0))

    def same(self, a, b):
        if a == b:
            return True
        return (not self.rf) and {a, b} == {"EL", "NR"}

    def dim(self, t):
        t = self.P.norm(t)
        if t == self.n or (t[0] == "idx" and t[2] == ("c", 0) and t[1][0] == "attr" and t[1][2] == "shape" and
                           t[1][1] in (("s", self.k), ("s", self.b), ("attr", ("s", self.sol), "v"), ("attr", ("s", self.sol), "d"))):
            return "N"
        if t[0] == "op" and t[1] == "sub" and self.dim(t[2]) == "N" and t[3] == ("s", self.nrb):
            return "NR"
        return None

    def count(self, t):
        """the space whose number of rows an extent expression is: X.shape[0] / len(X) of a typed array or index vector"""
        t = self.P.norm(t)
        d = self.dim(t)
        if d:
            return d
        X = None
        if t[0] == "idx" and t[2] == ("c", 0) and t[1][0] == "attr" and t[1][2] == "shape":
            X = t[1][1]
        elif t[0] == "call" and t[1] == "len" and len(t[2]) == 1:
            X = t[2][0]
        elif t[0] == "attr" and t[2] == "size":
            X = t[1]
            it = self.itype(X)
            return it[1] if it else None
        if X is None:
            return None
        keep = list(self.bad), list(self.checked)
        r = self.typ(X)
        self.bad, self.checked = keep
        if r and r[0]:
            return r[0]
        it = self.itype(X)
        return it[1] if it else None

    def head(self, n, sp):
        """rows selected by the prefix slice [:n] of an axis living in space sp, n = number of rows of space `n`"""
        if sp is None:
            return None
        if self.same(n, sp):
            return sp                   # the whole axis
        if sp == "N" and n == "RB":
            return "RB"                 # rigid-body modes come first by definition
        return f"the leading |{n}| rows of {sp}"

    def dimT(self, t):
        t = self.P.norm(t)
        if t[0] == "idx" and t[2] == ("c", 1) and t[1][0] == "attr" and t[1][2] == "shape" and \
                t[1][1] in tuple(("attr", ("s", self.sol), x) for x in "avd"):
            return "T"
        d = self.dim(t)
        return d if d else "?"

    def itype(self, i):
        """(dom, cod) of an axis index or None"""
        P = self.P
        i = P.norm(i)
        nrb = ("s", self.nrb)
        if i[0] == "call" and i[1] == "slice":
            i = ("slice",) + tuple(i[2])
        if i[0] == "slice" and i[3] == NONE:
            if i[1] in (NONE, ("c", 0)) and i[2] == nrb:
                return ("N", "RB")
            if i[1] == nrb and i[2] == NONE:
                return ("N", "NR")
            if i[1] in (NONE, ("c", 0)) and self.dim(i[2]) == "NR":
                return ("NR", "NR")
            if i[1] == NONE and i[2] == NONE:
                return ("*", "*")
            if i[1] in (NONE, ("c", 0)):
                n = self.count(i[2])
                if n in ("N", "NR", "EL", "RF", "RB"):
                    return ("^", n)     # a prefix of whatever axis it is applied to, as long as space n has rows
            return None
        if _rf_root(i) == ("s", self.rfm):
            return ("N", "RF")
        if i[0] == "call" and i[1] == "flippv" and len(i[2]) == 2 and self.itype(i[2][0]) == ("N", "RF") and self.dim(i[2][1]) == "N":
            return ("N", "NRF")
        if i[0] == "idx" and self.itype(i[1]) == ("N", "NRF") and i[2] == ("slice", nrb, NONE, NONE):
            return ("N", "EL")
        if i[0] == "op" and i[1] == "sub" and i[3] == nrb:
            t = self.itype(i[2])
            if t and t[0] == "N" and t[1] in ("EL", "RF", "NR"):
                return ("NR", t[1])
            return None
        if i[0] == "call" and i[1] in ("index2slice", "np.asarray", "np.atleast_1d") and i[2]:
            return self.itype(i[2][0])
        if i[0] == "idx" and i[1] == ("s", self.save) and is_const(i[2]):
            v = self.cache.get(i[2][1])
            return v[1] if v and v[0] == "I" else None
        return None

    def typ(self, t):
        """(rows, cols) or None; mismatches are recorded"""
        P = self.P
        k = t[0]
        if k == "s":
            if t[1] in (self.m, self.b, self.k):
                nd = P.I.pins.get(("attr", t, "ndim"))
                return ("N", "N" if nd == ("c", 2) else ("-" if nd == ("c", 1) else None))
            return None
        if k == "attr":
            if t[1] in (("s", self.sol),) and t[2] in ("a", "v", "d"):
                return ("N", "T")
            if t[2] == "T":
                r = self.typ(t[1])
                return (r[1], r[0]) if r else None
            return None
        if k == "ref":
            o = P.heap[t[1]]
            og = o.origin
            if og[0] == "call" and og[1] in ("np.empty", "np.zeros", "np.full") and og[2] and og[2][0][0] == "tup" and len(og[2][0]) >= 2:
                return (self.dim(og[2][0][1]), self.dimT(og[2][0][2]) if len(og[2][0]) >= 3 else "-")
            if og[0] == "call" and og[1] in (".copy", "np.empty_like", "np.zeros_like", "np.ones_like", "np.full_like", "copy.copy", "copy.deepcopy",
                                             "np.array", "np.copy") and og[2]:
                return self.typ(og[2][0])
            return None
        if k in ("idx", "ld"):
            if t[1] == ("s", self.save) and is_const(t[2]):
                v = self.cache.get(t[2][1])
                return v[1] if v and v[0] == "A" else None
            base = self.typ(t[1])
            ix = t[2]
            axes = [ix]
            if ix[0] == "tup":
                axes = list(ix[1:])
            elif ix[0] == "call" and ix[1] == "np.ix_":
                axes = list(ix[2])
            if base is None:
                for a_ in axes:
                    self.itype(a_)
                return None
            out = []
            bi = 0
            nreal = sum(1 for a_ in axes if a_ != NONE)
            txt0 = show(P.norm(("idx", t[1], t[2])))
            if base[1] == "-" and nreal > 1:
                self.bad.append(("rank", f"`{txt0}`: a vector (1-D `{show(P.norm(t[1]))}`) is indexed like a matrix", self.node))
                return None
            if base[1] not in (None, "-") and t[1][0] == "s" and nreal == 1 and len(axes) == 2:
                self.bad.append(("rank", f"`{txt0}`: a full matrix (2-D `{show(P.norm(t[1]))}`) is indexed like a vector of diagonal terms", self.node))
                return None
            for a_ in axes:
                if a_ == NONE:
                    out.append("-" if not out else None)
                    continue
                sp = base[bi] if bi < 2 else None
                it = self.itype(a_)
                if it is not None and it[0] == "^":
                    out.append(self.head(it[1], sp) if sp != "T" else None)
                    bi += 1
                    continue
                if it is not None and sp is not None and it[0] != "*":
                    txt = show(P.norm(("idx", t[1], t[2])))
                    if not self.same(it[0], sp) and sp != "T":
                        self.bad.append(("index-space", f"`{txt}`: axis {bi} of `{show(P.norm(t[1]))}` lives in space {sp} but the index holds positions relative to space {it[0]}", self.node))
                    else:
                        self.checked.append(txt)
                    out.append(it[1])
                elif it is not None and it[0] == "*":
                    out.append(sp)
                else:
                    out.append(None if it is None else it[1])
                bi += 1
            while bi < 2 and len(out) < 2:
                out.append(base[bi])
                bi += 1
            out = (out + [None, None])[:2]
            return (out[0], out[1])
        if k == "op":
            n = t[1]
            if n in ("neg", "abs"):
                return self.typ(t[2])
            ts = [self.typ(x) for x in t[2:]]
            if n == "matmul" and len(ts) == 2:
                a_, b_ = ts
                if a_ and a_[1] == "-":
                    self.bad.append(("rank", f"`{show(P.norm(t))}`: matrix product with a vector of diagonal terms on the left", self.node))
                elif a_ and b_ and a_[1] and b_[0] and a_[1] != "T" and not self.same(a_[1], b_[0]):
                    self.bad.append(("product-space", f"`{show(P.norm(t))}`: columns in space {a_[1]} times rows in space {b_[0]}", self.node))
                elif a_ and b_ and a_[1] and b_[0]:
                    self.checked.append(show(P.norm(t)))
                return (a_[0] if a_ else None, b_[1] if b_ else None)
            if n == "mul" and any(x and x[1] in ("N", "NR", "EL", "RF") for x in ts) and any(x and x[1] == "T" for x in ts):
                self.bad.append(("rank", f"`{show(P.norm(t))}`: elementwise product of a full matrix block with the solution (a matrix product is needed)", self.node))
            if n in ("add", "sub", "mul", "div"):
                two_d = [x for x in ts if x and x[1] != "-"]
                if two_d and any(x and x[1] == "-" for x in ts):
                    # broadcasting: the only axis of a 1-D operand lines up with the columns of a 2-D operand
                    cols = [x[1] for x in two_d if x[1]] + [x[0] for x in ts if x and x[1] == "-" and x[0]]
                    if len(cols) >= 2 and any(not self.same(cols[0], c_) and "T" not in (cols[0], c_) for c_ in cols[1:]):
                        self.bad.append(("elementwise-space", f"`{show(P.norm(t))}`: a vector over space {cols[-1]} is broadcast along columns of space {cols[0]}", self.node))
                    elif len(cols) >= 2 and all(self.same(cols[0], c_) for c_ in cols[1:]):
                        self.checked.append(show(P.norm(t)))
                    r0 = next((x[0] for x in two_d if x[0]), None)
                    c0 = next((x[1] for x in two_d if x[1]), None)
                    return (r0, c0) if (r0 or c0) else None
                rows = [x[0] for x in ts if x and x[0]]
                if len(rows) >= 2:
                    if any(not self.same(rows[0], r) for r in rows[1:]):
                        self.bad.append(("elementwise-space", f"`{show(P.norm(t))}`: operands live in spaces {', '.join(rows)}", self.node))
                    else:
                        self.checked.append(show(P.norm(t)))
                r0 = rows[0] if rows else None
                c0 = next((x[1] for x in ts if x and x[1]), None)
                return (r0, c0) if (r0 or c0) else None
            return None
        if k == "call":
            if t[1] == "la.lu_factor" and t[2]:
                r = self.typ(t[2][0])
                return r
            if t[1] == "la.lu_solve" and len(t[2]) >= 2:
                a_, b_ = self.typ(t[2][0]), self.typ(t[2][1])
                if a_ and b_ and a_[0] and b_[0]:
                    if not self.same(a_[0], b_[0]):
                        self.bad.append(("solve-space", f"`{show(P.norm(t))}`: factorised block of space {a_[0]} applied to rows of space {b_[0]}", self.node))
                    else:
                        self.checked.append(show(P.norm(t)))
                return b_ or a_
            if t[1] in (".copy", "np.asarray", "np.array", "np.copy", "np.asanyarray", "np.ascontiguousarray", "np.asfortranarray") and t[2]:
                return self.typ(t[2][0])
            return None
        return None

    def store(self, e):
        P = self.P
        self.node = e.node
        tt = self.typ(e.target)
        vt = self.typ(e.value)
        if tt is None:
            return
        ix = e.index
        axes = list(ix[1:]) if ix[0] == "tup" else [ix]
        it = self.itype(axes[0])
        txt = f"{show(P.norm(e.target))}[{show(P.norm(ix))}]"
        if it is None or it[0] == "*":
            return
        if it[0] == "^":
            h = self.head(it[1], tt[0])
            if h is None or h == tt[0]:
                return
            it = (tt[0], h)
        if tt[0] and not self.same(it[0], tt[0]):
            self.bad.append(("index-space", f"`{txt}`: axis 0 of `{show(P.norm(e.target))}` lives in space {tt[0]} but the index holds positions relative to space {it[0]}", self.node))
            return
        if vt and vt[0]:
            if not self.same(it[1], vt[0]):
                self.bad.append(("store-space", f"`{txt} = {show(P.norm(e.value))[:80]}`: rows of space {it[1]} receive a value of space {vt[0]}", self.node))
            else:
                self.checked.append(txt + " =")


def _cache_types(S, P, save):
    out = {}
    for e in P.stores(lambda e: e.target == ("s", save)):
        key = P.norm(e.index)
        if not is_const(key):
            continue
        it = S.itype(e.value)
        if it is not None:
            out[key[1]] = ("I", it)
            continue
        tv = S.typ(e.value)
        if tv is not None:
            out[key[1]] = ("A", tv)
    return out


def _parts(t, out=None):
    out = set() if out is None else out
    if isinstance(t, tuple) and t:
        out.add(t)
        for x in (t[2] + tuple(v for _, v in t[3]) if t[0] == "call" else t[1:]):
            if isinstance(x, tuple):
                _parts(x, out)
    return out


def _subst(t, mp):
    if t in mp:
        return mp[t]
    if not isinstance(t, tuple) or not t or t[0] in ("c", "s", "g", "fn", "ref"):
        return t
    if t[0] == "call":
        return ("call", t[1], tuple(_subst(a, mp) for a in t[2]), tuple((k, _subst(v, mp)) for k, v in t[3]))
    if t[0] == "op":
        return op(t[1], *[_subst(a, mp) for a in t[2:]])
    return (t[0],) + tuple(_subst(a, mp) if isinstance(a, tuple) else a for a in t[1:])


def _has_call(t):
    return any(x[0] == "call" for x in _parts(t))


def r6_exits_and_typing(ctx):
    _wrapper(ctx)
    # ---- every exit of apply_uf returns d = d_static + d_dynamic
    for kd, grp in ((1, "diagonal k"), (2, "full k")):
        fn, I, paths, names = _au_interp(ctx, kd, None)
        A = Agg(ctx)
        key = f"apply_uf [{grp}]: on every exit the returned solution has d = d_static + d_dynamic, formed after the last write into either part"
        A.req(key, True if paths else None, fn, "no returning path")
        nexit = set()
        for P in paths:
            o = P.obj(P.ret)
            if o is None:
                A.req(key, None, fn, show(P.norm(P.ret)))
                continue
            d, ds, dd = o.fields.get("d"), o.fields.get("d_static"), o.fields.get("d_dynamic")
            if d is None or ds is None or dd is None:
                A.req(key, False if not unfollowed_writes(P, P.ret) else None, fn, "exit without solout.d / d_static / d_dynamic")
                continue
            sd = [e for e in P.setattrs(P.ret, "d")]
            read = {ds: sd[-1].seq if sd else 0, dd: sd[-1].seq if sd else 0}        # when each part is read to form d
            od = P.obj(d)
            if od is not None and od.kind == "arr" and d not in (ds, dd):
                # d is an array of its own: what it holds is what it was created from (a copy reads its source then) followed by the
                # whole-array stores into it, each of which may read d itself (`d += x`, np.add(a, b, out=d), d[...] = a + b)
                whole = [e for e in P.stores() if e.target == d and _region(P.norm(e.index), "", "", "") == ":"]
                part = [e for e in P.stores() if e.target == d and e not in whole]
                og = od.origin
                cont = og[2][0] if (og[0] == "call" and og[1] in (".copy", "np.array", "np.copy", "copy.copy") and og[2]) else None
                read = {}
                if cont is not None:
                    for p_ in (ds, dd):
                        if p_ in _parts(cont):
                            read[p_] = getattr(od, "seq", 0)
                if not part:
                    for e in whole:
                        v = e.value
                        for p_ in (ds, dd):
                            if p_ in _parts(v):
                                read.setdefault(p_, e.seq)
                        if d in _parts(v) or ("idx", d, e.index) in _parts(v):
                            v = _subst(v, {d: cont, ("idx", d, e.index): cont}) if cont is not None else None
                        cont = v
                        if cont is None:
                            break
                    if cont is not None:
                        d = cont
            last_ok = all(not any(e.seq > read.get(p_, 0) for e in P.stores() if e.target == p_) for p_ in (ds, dd))
            ok = d == op("add", ds, dd) and bool(sd) and last_ok
            if not ok and d != op("add", ds, dd) and _has_call(d) and ds in _parts(d) and dd in _parts(d):
                ok = None           # both parts go into a construction that is not understood
            A.req(key, ok, sd[-1].node if sd else fn, show(P.norm(d)))
        A.flush(fn)
    # ---- index spaces
    for rf in (False, True):
        for kd in (1, 2):
            md = bd = kd
            fn, I, paths, pn = _pc_interp(ctx, rf, md, bd, kd)
            sol, m, b, k, nrb, rfm, save = pn
            A = Agg(ctx)
            tag = f"_pre_calcs [{'rf modes' if rf else 'no rf modes'}, {kd}-D matrices]"
            cache = None
            for P in paths:
                S = Spaces(P, pn, rf)
                for e in P.events:
                    if e.kind == "store" and e.target != ("s", save):
                        S.store(e)
                    elif e.kind == "call" and e.name in ("la.lu_factor",):
                        S.node = e.node
                        S.typ(e.value)
                ct = _cache_types(S, P, save)
                if cache is None:
                    cache = ct
                else:
                    for k_, v_ in ct.items():
                        if k_ in cache and cache[k_] != v_:
                            A.req(f"{tag}: `save[{k_!r}]` has one index space on every path", False, fn, {"one": repr(cache[k_]), "other": repr(v_)})
                _flush_spaces(ctx, A, S, "_pre_calcs", tag, fn)
            # genforce has one row per non-rb equation
            gt = (cache or {}).get("genforce")
            A.req(f"{tag}: genforce has one row per non-rb equation and one column per solution step",
                  (gt is not None and gt[0] == "A" and gt[1][0] == "NR" and gt[1][1] == "T") if gt else None, fn, repr(gt))
            for key_, wantsp in (("elastic", ("N", "EL")), ("elastic_norb", ("NR", "EL")), ("rf_norb", ("NR", "RF"))):
                v_ = (cache or {}).get(key_)
                if key_ == "rf_norb" and not rf:
                    continue
                w = wantsp if rf else (wantsp[0], "NR")
                A.req(f"{tag}: `save[{key_!r}]` holds positions relative to the {'full set' if wantsp[0] == 'N' else 'non-rb rows'} selecting the "
                      f"{'elastic' if wantsp[1] == 'EL' else 'rf'} modes", (v_ is not None and v_[0] == "I" and v_[1] == w) if v_ else None, fn, repr(v_))
            A.flush(fn)
            # apply_uf against what _pre_calcs stores
            fn2, I2, paths2, an = _au_interp(ctx, kd, True, allrb=False, rf=rf)
            sol2, ufr, m2, b2, k2, nrb2, rfm2, save2 = an
            A = Agg(ctx)
            tag2 = f"apply_uf [{'rf modes' if rf else 'no rf modes'}, {kd}-D stiffness]"
            nck = 0
            for P in paths2:
                S = Spaces(P, (sol2, m2, b2, k2, nrb2, rfm2, save2), rf, cache)
                o = P.obj(P.ret)
                if o is None:
                    continue
                for e in P.stores():
                    S.store(e)
                nck += len(S.checked)
                _flush_spaces(ctx, A, S, "apply_uf", tag2, fn2)
            A.req(f"{tag2}: index-space rule bound", True if nck else None, fn2, nontrivial=False)
            A.flush(fn2)


def _wrapper(ctx):
    """DR_Event.apply_uf and the module-level apply_uf are two entries to one computation: the method must hand its own sol, m, b, k, nrb,
    rfmodes over in those roles, each factor tuple of self.UF_reds once, and keep each result under the tuple it was computed with"""
    fn = ctx.src.func(EVT, "DR_Event.apply_uf")
    pr = params(fn, True)
    tfn, tp = _sig(ctx, "apply_uf")
    roles = ("sol", "m", "b", "k", "nrb", "rfmodes")
    if len(pr) < 6 or len(tp) < 8:
        raise_anchor("DR_Event.apply_uf(self, sol, m, b, k, nrb, rfmodes) / apply_uf(sol, uf_reds, m, b, k, nrb, rfmodes, save)")
    mine = {r: r for r in roles} if all(r in pr for r in roles) else dict(zip(roles, pr[:6]))
    I = Interp(ctx, EVT, "DR_Event.apply_uf", noinline={"apply_uf"})
    paths = good_paths(ctx, I)
    A = Agg(ctx)
    k_roles = "DR_Event.apply_uf: the module-level apply_uf receives the method's sol, m, b, k, nrb, rfmodes, each in its own role"
    k_tuple = "DR_Event.apply_uf: each result is computed with an element of self.UF_reds and stored under that element"
    k_cache = "DR_Event.apply_uf: the cache handed to apply_uf is a dict the method created (or none)"
    A.req(k_roles, True if paths else None, fn, "no returning path")
    UF = ("attr", ("s", "self"), "UF_reds")
    for P in paths:
        calls = P.calls("apply_uf")
        if not calls:
            A.req(k_roles, None if unfollowed_writes(P, P.ret) or P.obj(P.ret) is None else False, fn, "apply_uf is not called")
            continue
        for c in calls:
            kw = dict(c.kws)
            if "**" in kw or any(a[0] == "star" for a in c.args):
                A.req(k_roles, None, c.node, "arguments passed through * / ** that could not be spread")
                continue
            got = {}
            for i, nm in enumerate(tp[:8]):
                got[nm] = c.args[i] if i < len(c.args) else kw.get(nm)
            bad = [f"{tp[i]} <- {show(P.norm(got[tp[i]])) if got[tp[i]] is not None else 'missing'}" for i, r in
                   ((0, "sol"), (2, "m"), (3, "b"), (4, "k"), (5, "nrb"), (6, "rfmodes")) if got[tp[i]] is None or P.norm(got[tp[i]]) != ("s", mine[r])]
            A.req(k_roles, not bad, c.node, bad)
            t = got[tp[1]]
            tn = P.norm(t) if t is not None else None
            is_elem = tn is not None and tn[0] == "elem" and (tn[1] == UF or UF in _parts(tn[1]))
            sts = [e for e in P.stores() if e.target == P.ret and e.value == c.value]
            if t is None or not is_elem:
                A.req(k_tuple, False if (tn is not None and free_syms(tn) and "self" not in free_syms(tn)) or t is None else None, c.node,
                      show(tn) if tn is not None else "no factor tuple")
            elif not sts:
                A.req(k_tuple, None if (P.obj(P.ret) is None or unfollowed_writes(P, P.ret)) else False, c.node, "the result is not stored in the returned dict")
            else:
                A.req(k_tuple, all(P.norm(e.index) == tn for e in sts), sts[0].node, [show(P.norm(e.index)) for e in sts])
            sv = got[tp[7]]
            if sv is not None and sv != NONE:
                o = P.obj(sv)
                A.req(k_cache, (o is not None and o.kind == "dict") if (o is not None or sv[0] in ("s", "attr", "idx")) else None, c.node, show(P.norm(sv)))
            else:
                A.req(k_cache, True, c.node)
    A.flush(fn)


def _flush_spaces(ctx, A, S, q, tag, fn):
    seen = set()
    for kind, txt, node in S.bad:
        if txt in seen:
            continue
        seen.add(txt)
        A.req(f"{tag}: {txt.split(':')[0]} full / non-rb / elastic index spaces agree", False, node or fn, txt, fkey=f"C16-R6|{q}|{kind}|{txt[:80]}")
    for txt in S.checked:
        if txt in seen:
            continue
        seen.add(txt)
        A.req(f"{tag}: `{txt[:90]}` full / non-rb / elastic index spaces agree", True, fn)
