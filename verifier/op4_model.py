"""Shared model of OUTPUT4 string/column headers for C04 (write->read identity) and C11 (decoders)."""
from __future__ import annotations

import ast
from fractions import Fraction

from . import e2_formula as F
from .core import AnchorError, Unsupported
from .e1_srcmodel import dotted, walk_no_nested
from .e2_eval import Evaluator, Unknown, is_unknown, need

OP4 = "pyyeti/nastran/op4.py"
OP2 = "pyyeti/nastran/op2.py"

SHIFT = 16


def int_binop(small):
    """integer operators on polynomial values.  `small`: {Rat-repr: bits} values known to lie in [0, 2**bits)"""

    def split(r, k):
        """r = q * 2**k + rem  with rem made of the terms whose coefficients are not multiples of 2**k"""
        r = need(r)
        if not r.d.is_const():
            raise Unsupported("shift of a fraction")
        sc = 1 / r.d.const_value()
        q = F.Poly()
        rem = F.Poly()
        two = 2 ** k
        for m, c in r.n.t.items():
            c = c * sc
            if c.denominator != 1:
                raise Unsupported("shift of a non-integer polynomial")
            if m == ():
                qq, rr = divmod(c.numerator, two)
                q = q + F.Poly.const(qq)
                rem = rem + F.Poly.const(rr)
            elif c.numerator % two == 0:
                q = q + F.Poly({m: c / two})
            else:
                rem = rem + F.Poly({m: c})
        return F.Rat(q), F.Rat(rem)

    def bits_of(rem):
        key = repr(rem)
        if rem.is_zero():
            return 0
        return small.get(key)

    def hook(node, a, b, ev):
        op = node.op
        if isinstance(op, (ast.LShift, ast.RShift, ast.BitAnd, ast.FloorDiv, ast.BitOr)):
            if is_unknown(a) or is_unknown(b):
                return a if is_unknown(a) else b
            a, b = need(a), need(b)
            if isinstance(op, ast.LShift):
                if not b.is_const():
                    return Unknown("variable shift")
                return a * (2 ** int(b.const_value()))
            if isinstance(op, ast.RShift):
                if not b.is_const():
                    return Unknown("variable shift")
                k = int(b.const_value())
                q, rem = split(a, k)
                nb = bits_of(rem)
                if nb is None or nb > k:
                    return Unknown(f"`>> {k}` of a value whose low part `{rem}` is not known to be below 2**{k}")
                return q
            if isinstance(op, ast.BitAnd):
                if not b.is_const():
                    return Unknown("variable mask")
                mask = int(b.const_value())
                k = mask.bit_length()
                if mask != 2 ** k - 1:
                    return Unknown("mask is not 2**k - 1")
                q, rem = split(a, k)
                nb = bits_of(rem)
                if nb is None or nb > k:
                    return Unknown(f"`& {mask:#x}` keeps {k} bits but the low part `{rem}` needs {nb if nb else 'an unknown number of'} bits")
                return rem
            if isinstance(op, ast.FloorDiv):
                if b.is_const() and not b.is_zero():
                    # exact only when every coefficient is divisible
                    c = b.const_value()
                    res = a / c
                    if all(v.denominator == 1 for v in res.n.scale(1 / res.d.const_value()).t.values()):
                        return res
                    return F.fn("floordiv", a, b)
                return F.fn("floordiv", a, b)
        return NotImplemented

    return hook


def func(ctx, q):
    return ctx.src.func(OP4, q)


def string_writer(ctx, qual):
    """evaluate a `_write_data_string(f, string, r0, r1, multiplier, ...)` nested writer:
    returns dict(L=..., header=[values written before the data], node)"""
    fn = func(ctx, qual)
    r0, r1, mult = F.sym("r0"), F.sym("r1"), F.sym("mult")
    written = []

    def call(node, ev):
        d = dotted(node.func)
        if d == "f.write" and node.args:
            a = node.args[0]
            if isinstance(a, ast.JoinedStr):
                vals = []
                for v in a.values:
                    if isinstance(v, ast.FormattedValue):
                        spec = "".join(x.value for x in v.format_spec.values) if v.format_spec is not None else ""
                        vals.append((ev.ev(v.value), spec))
                written.append(("text", vals, node))
            elif isinstance(a, ast.Call) and isinstance(a.func, ast.Attribute) and a.func.attr == "pack":
                written.append(("pack", [ev.ev(x) for x in a.args], ast.unparse(a.func.value), node))
            return F.const(0)
        return NotImplemented

    ev = Evaluator(env={"r0": r0, "r1": r1, "multiplier": mult}, src=ctx.src, call=call, binop=int_binop({}))
    for st in fn.body:
        if isinstance(st, ast.Expr):
            ev.ev(st.value)
        elif isinstance(st, (ast.Assign, ast.AugAssign)):
            ev.stmt(st)
        elif isinstance(st, ast.For):
            break
    return {"L": ev.env.get("L"), "IS": ev.env.get("IS"), "written": written, "fn": fn, "env": ev.env}


def string_reader(ctx, qual, kind, IS_value=None, L_raw=None, r_raw=None):
    """evaluate the inner `while elems/nwords > 0:` body of a string reader with the header values bound symbolically.
    kind: 'nonbigmat' (header word IS) or 'bigmat' (header pair).  Returns env after the header arithmetic."""
    fn = func(ctx, qual)
    inner = None
    for n in ast.walk(fn):
        if isinstance(n, ast.While) and isinstance(n.test, ast.Compare) and ast.unparse(n.test).replace(" ", "") in ("elems>0", "nwords>0"):
            if kind == "nonbigmat" and "IS" in {x.id for x in ast.walk(n) if isinstance(x, ast.Name)}:
                inner = n
            if kind == "bigmat" and "IS" not in {x.id for x in ast.walk(n) if isinstance(x, ast.Name)}:
                inner = n
    if inner is None:
        raise AnchorError(f"{qual}: string loop for {kind} layout")
    small = {repr(F.sym("r0") + 1): SHIFT}
    wper = F.sym("wper")
    cnt_name = ast.unparse(inner.test.left)
    env = {"wper": wper, cnt_name: F.sym("W")}

    def call(node, ev):
        d = dotted(node.func) or ""
        if d == "int" and node.args:
            t = ast.unparse(node.args[0]).replace(" ", "")
            if t == "line" and IS_value is not None:
                return IS_value
            if t == "line[c_slice]" and L_raw is not None:
                return L_raw
            if t == "line[r_slice]" and r_raw is not None:
                return r_raw
            return Unknown(f"int({t})")
        if d in ("s1", "s2"):
            return Unknown("unpack")
        if d.endswith("readline") or d.endswith("read") or d == "put" or d.endswith("_get_ascii_block") or d in ("struct.unpack", "np.fromfile"):
            return F.const(0)
        return NotImplemented

    ev = Evaluator(env=env, src=ctx.src, call=call, binop=int_binop(small))
    for st in inner.body:
        if isinstance(st, ast.Assign) and isinstance(st.value, ast.Subscript) and isinstance(st.value.value, ast.Call) \
                and dotted(st.value.value.func) == "s1" and IS_value is not None:
            ev.env[st.targets[0].id] = IS_value           # IS = s1(fp.read(b1))[0]
            continue
        if isinstance(st, ast.Assign) and isinstance(st.targets[0], ast.Tuple) and isinstance(st.value, ast.Call) \
                and dotted(st.value.func) == "s2" and L_raw is not None:
            a, b = [e.id for e in st.targets[0].elts]
            ev.env[a], ev.env[b] = L_raw, r_raw          # L, r = s2(fp.read(b2))
            continue
        if isinstance(st, ast.If):
            continue
        ev.stmt(st)
    return {"env": ev.env, "count": cnt_name, "loop": inner, "fn": fn}
