"""C04-R10 helper: the reader's format autodetection evaluated on the first bytes the writers produce.

A *finite world of concrete headers*: for every regime of an evaluated writer run the first header line / first header record is rendered from the
fields the run emitted (width, alignment, struct code, value interval -> one representative per digit count / byte count), and the function of OP4
that decides `self._ascii` is interpreted on those bytes by the small concrete interpreter below (only the taken path is executed; bytes are touched
through slices, comparisons, `min` / `strip` / `isdigit` / `np.frombuffer` / `int.from_bytes` / `struct.unpack`).  A construct the interpreter does
not know is `Stop` (-> exit 2), never a verdict.  Nothing of pyyeti is imported or run: the interpreter walks the ast."""
from __future__ import annotations

import ast
import struct
import sys

from .e1_srcmodel import dotted


class Stop(Exception):
    """construct outside the interpreter"""


class Raised(Exception):
    """the interpreted code raises on this input"""


class _Ret(Exception):
    def __init__(self, v):
        self.v = v


class _Brk(Exception):
    pass


class _Cnt(Exception):
    pass


class Opaque:
    def __init__(self, name):
        self.name = name

    def __repr__(self):
        return f"<{self.name}>"


class FileV:
    def __init__(self, data):
        self.data, self.pos = data, 0

    def read(self, n):
        if not isinstance(n, int) or n < 0:
            raise Stop("read() without a constant size")
        if self.pos + n > len(self.data):
            raise Stop(f"the reader looks at more than the {len(self.data)} rendered bytes")
        out = self.data[self.pos:self.pos + n]
        self.pos += n
        return out


class Arr(tuple):
    """a numpy array of integers (np.frombuffer)"""


def _scalar(v):
    if isinstance(v, Arr):
        if len(v) != 1:
            raise Stop("truth / comparison of an array with more than one element")
        return v[0]
    return v


NP_NAMES = {"uint8": "B", "int8": "b", "uint16": "H", "int16": "h", "uint32": "I", "int32": "i", "uint64": "Q", "int64": "q", "ubyte": "B", "byte": "b"}
NP_CODES = {("u", 1): "B", ("i", 1): "b", ("u", 2): "H", ("i", 2): "h", ("u", 4): "I", ("i", 4): "i", ("u", 8): "Q", ("i", 8): "q"}
BYTES_METHODS = {"strip", "lstrip", "rstrip", "isdigit", "isspace", "isalnum", "isalpha", "startswith", "endswith", "decode", "encode", "split", "find",
                 "count", "replace", "upper", "lower", "isascii", "isnumeric", "isdecimal", "index", "rfind", "hex", "isprintable", "partition", "rstrip"}
BUILTINS = {"min": min, "max": max, "len": len, "any": any, "all": all, "bool": bool, "int": int, "ord": ord, "sum": sum, "list": list, "tuple": tuple,
            "set": set, "bytes": bytes, "sorted": sorted, "abs": abs, "str": str, "bytearray": bytes, "frozenset": frozenset, "memoryview": bytes, "reversed": lambda x: list(reversed(x)),
            "enumerate": lambda x, start=0: list(enumerate(x, start)), "zip": lambda *a: list(zip(*a)), "range": lambda *a: list(range(*a))}


def np_dtype(v):
    """dtype value -> struct format (order + code)"""
    if isinstance(v, Opaque) and v.name.startswith("np."):
        code = NP_NAMES.get(v.name[3:])
        if code:
            return "=" + code
    if isinstance(v, str):
        s = v
        order = "="
        if s[:1] in "<>=|":
            order = "=" if s[0] == "|" else s[0]
            s = s[1:]
        if s in NP_NAMES:
            return order + NP_NAMES[s]
        if len(s) == 2 and s[0] in "ui" and s[1].isdigit() and (s[0], int(s[1])) in NP_CODES:
            return order + NP_CODES[(s[0], int(s[1]))]
    raise Stop(f"numpy dtype {v!r}")


class Mini:
    def __init__(self, methods, data, consts=None):
        self.methods, self.data = methods, data
        self.attrs = {}
        self.consts = consts or {}
        self.steps = 0

    # -------------------------------------------------------------------------------------------------------------- functions
    def call_fn(self, fn, args, kwargs):
        names = [a.arg for a in fn.args.args]
        if fn.args.vararg or fn.args.kwarg or fn.args.kwonlyargs or fn.args.posonlyargs:
            raise Stop(f"signature of {fn.name}")
        if names and names[0] == "self":
            names = names[1:]
        env = {}
        defaults = fn.args.defaults
        for i, n in enumerate(names):
            if i < len(args):
                env[n] = args[i]
            elif n in kwargs:
                env[n] = kwargs[n]
            else:
                k = i - (len(names) - len(defaults))
                if k < 0:
                    raise Stop(f"call of {fn.name}: argument {n} missing")
                env[n] = self.ev(defaults[k], {})
        try:
            self.block(fn.body, env)
        except _Ret as r:
            return r.v
        return None

    def run_until_decided(self, fn, attr, then=()):
        """the body of `fn` with opaque parameters, statement by statement, until `self.<attr>` is set - and, when it is set to a false value, until
        the attributes `then` are set as well (a construct outside the interpreter met after `attr` is known is remembered in `self.late`)"""
        env = {a.arg: Opaque(a.arg) for a in fn.args.args if a.arg != "self"}
        self.late = None
        try:
            for st in fn.body:
                try:
                    self.stmt(st, env)
                except Stop as e:
                    if attr in self.attrs:
                        self.late = str(e)
                        return
                    raise
                if attr in self.attrs and (self.truth(self.attrs[attr]) or all(t in self.attrs for t in then)):
                    return
        except _Ret:
            pass

    # ------------------------------------------------------------------------------------------------------------- statements
    def block(self, body, env):
        for st in body:
            self.stmt(st, env)

    def truth(self, v):
        v = _scalar(v)
        if isinstance(v, (Opaque, FileV)):
            raise Stop(f"truth of {v!r}")
        return bool(v)

    def assign(self, t, v, env):
        if isinstance(t, ast.Name):
            env[t.id] = v
        elif isinstance(t, ast.Attribute) and isinstance(t.value, ast.Name) and t.value.id == "self":
            self.attrs[t.attr] = v
        elif isinstance(t, (ast.Tuple, ast.List)):
            if isinstance(v, (Opaque, FileV, int)) or any(isinstance(e, ast.Starred) for e in t.elts):
                raise Stop("unpacking")
            vals = list(v)
            if len(vals) != len(t.elts):
                raise Raised(f"unpacking {len(vals)} values into {len(t.elts)} names")
            for e, x in zip(t.elts, vals):
                self.assign(e, x, env)
        else:
            raise Stop(f"store into {ast.unparse(t)[:60]}")

    def stmt(self, st, env):
        self.steps += 1
        if self.steps > 5000:
            raise Stop("too many steps")
        if isinstance(st, ast.Expr):
            if isinstance(st.value, ast.Constant):
                return
            self.ev(st.value, env)
        elif isinstance(st, ast.Assign):
            v = self.ev(st.value, env)
            for t in st.targets:
                self.assign(t, v, env)
        elif isinstance(st, ast.AnnAssign):
            if st.value is not None:
                self.assign(st.target, self.ev(st.value, env), env)
        elif isinstance(st, ast.AugAssign):
            cur = self.ev(ast.copy_location(ast.Name(id=st.target.id, ctx=ast.Load()), st) if isinstance(st.target, ast.Name) else st.target, env)
            self.assign(st.target, self.binop(st.op, cur, self.ev(st.value, env)), env)
        elif isinstance(st, ast.If):
            self.block(st.body if self.truth(self.ev(st.test, env)) else st.orelse, env)
        elif isinstance(st, ast.Return):
            raise _Ret(self.ev(st.value, env) if st.value is not None else None)
        elif isinstance(st, ast.Raise):
            raise Raised(ast.unparse(st)[:80])
        elif isinstance(st, ast.Pass):
            return
        elif isinstance(st, ast.Assert):
            if not self.truth(self.ev(st.test, env)):
                raise Raised(ast.unparse(st)[:80])
        elif isinstance(st, ast.For):
            it = self.ev(st.iter, env)
            if isinstance(it, (Opaque, FileV, int)):
                raise Stop("loop over an unknown value")
            broke = False
            for x in list(it):
                self.assign(st.target, x, env)
                try:
                    self.block(st.body, env)
                except _Brk:
                    broke = True
                    break
                except _Cnt:
                    continue
            if not broke:
                self.block(st.orelse, env)
        elif isinstance(st, ast.While):
            n = 0
            while self.truth(self.ev(st.test, env)):
                n += 1
                if n > 64:
                    raise Stop("while loop")
                try:
                    self.block(st.body, env)
                except _Brk:
                    break
                except _Cnt:
                    continue
        elif isinstance(st, ast.Break):
            raise _Brk()
        elif isinstance(st, ast.Continue):
            raise _Cnt()
        else:
            raise Stop(f"statement {type(st).__name__}")

    # ------------------------------------------------------------------------------------------------------------ expressions
    def binop(self, op, a, b):
        a, b = _scalar(a), _scalar(b)
        if isinstance(a, (Opaque, FileV)) or isinstance(b, (Opaque, FileV)):
            raise Stop("arithmetic on an unknown value")
        try:
            if isinstance(op, ast.Add):
                return a + b
            if isinstance(op, ast.Sub):
                return a - b
            if isinstance(op, ast.Mult):
                return a * b
            if isinstance(op, ast.FloorDiv):
                return a // b
            if isinstance(op, ast.Mod):
                if isinstance(a, (str, bytes)):
                    raise Stop("% formatting")
                return a % b
            if isinstance(op, ast.BitAnd):
                return a & b
            if isinstance(op, ast.BitOr):
                return a | b
            if isinstance(op, ast.BitXor):
                return a ^ b
            if isinstance(op, ast.LShift):
                return a << b
            if isinstance(op, ast.RShift):
                return a >> b
        except Stop:
            raise
        except Exception as e:  # noqa
            raise Raised(f"{type(e).__name__}: {e}")
        raise Stop(f"operator {type(op).__name__}")

    def cmp(self, op, a, b):
        if isinstance(op, (ast.Is, ast.IsNot)):
            if a is None or b is None or isinstance(a, bool) or isinstance(b, bool):
                r = a is b
                return r if isinstance(op, ast.Is) else not r
            raise Stop("identity test")
        if isinstance(op, (ast.In, ast.NotIn)):
            if isinstance(b, (Opaque, FileV)) or isinstance(a, (Opaque, FileV)):
                raise Stop("membership in an unknown value")
            try:
                r = _scalar(a) in b
            except TypeError as e:
                raise Raised(str(e))
            return r if isinstance(op, ast.In) else not r
        a, b = _scalar(a), _scalar(b)
        if isinstance(a, (Opaque, FileV)) or isinstance(b, (Opaque, FileV)):
            raise Stop("comparison with an unknown value")
        try:
            if isinstance(op, ast.Eq):
                return a == b
            if isinstance(op, ast.NotEq):
                return a != b
            if isinstance(op, ast.Lt):
                return a < b
            if isinstance(op, ast.LtE):
                return a <= b
            if isinstance(op, ast.Gt):
                return a > b
            if isinstance(op, ast.GtE):
                return a >= b
        except TypeError as e:
            raise Raised(str(e))
        raise Stop("comparison")

    def comp(self, node, env):
        if len(node.generators) != 1 or node.generators[0].is_async:
            raise Stop("comprehension")
        g = node.generators[0]
        it = self.ev(g.iter, env)
        if isinstance(it, (Opaque, FileV, int)):
            raise Stop("comprehension over an unknown value")
        out = []
        sub = dict(env)
        for x in list(it):
            self.assign(g.target, x, sub)
            if all(self.truth(self.ev(c, sub)) for c in g.ifs):
                out.append(self.ev(node.elt, sub))
        return out

    def ev(self, e, env):
        self.steps += 1
        if self.steps > 5000:
            raise Stop("too many steps")
        if isinstance(e, ast.Constant):
            return e.value
        if isinstance(e, ast.Name):
            if e.id in env:
                return env[e.id]
            if e.id in self.consts:
                return self.consts[e.id]
            if e.id in ("True", "False", "None"):
                return {"True": True, "False": False, "None": None}[e.id]
            raise Stop(f"name {e.id}")
        if isinstance(e, ast.Attribute):
            d = dotted(e)
            if isinstance(e.value, ast.Name) and e.value.id == "self":
                if e.attr in self.attrs:
                    return self.attrs[e.attr]
                raise Stop(f"self.{e.attr} read before the rule saw it set")
            if d in ("sys.byteorder",):
                return sys.byteorder
            if d and d.split(".")[0] in ("np", "numpy") and d.split(".")[-1] in NP_NAMES:
                return Opaque("np." + d.split(".")[-1])
            raise Stop(f"attribute {ast.unparse(e)[:60]}")
        if isinstance(e, (ast.Tuple, ast.List)):
            return tuple(self.ev(x, env) for x in e.elts)
        if isinstance(e, ast.Subscript):
            v = self.ev(e.value, env)
            if isinstance(v, (Opaque, FileV, int)) or v is None:
                raise Stop("subscript of an unknown value")
            if isinstance(e.slice, ast.Slice):
                lo = self.ev(e.slice.lower, env) if e.slice.lower is not None else None
                hi = self.ev(e.slice.upper, env) if e.slice.upper is not None else None
                stp = self.ev(e.slice.step, env) if e.slice.step is not None else None
                if not all(x is None or isinstance(x, int) for x in (lo, hi, stp)):
                    raise Stop("slice bounds")
                r = v[lo:hi:stp]
                return Arr(r) if isinstance(v, Arr) else r
            i = _scalar(self.ev(e.slice, env))
            if not isinstance(i, int):
                raise Stop("index")
            try:
                return v[i]
            except IndexError as x:
                raise Raised(str(x))
        if isinstance(e, ast.Compare):
            left = self.ev(e.left, env)
            for op, r in zip(e.ops, e.comparators):
                right = self.ev(r, env)
                if not self.cmp(op, left, right):
                    return False
                left = right
            return True
        if isinstance(e, ast.BoolOp):
            v = None
            for x in e.values:
                v = self.ev(x, env)
                t = self.truth(v)
                if isinstance(e.op, ast.And) and not t:
                    return v
                if isinstance(e.op, ast.Or) and t:
                    return v
            return v
        if isinstance(e, ast.UnaryOp):
            v = self.ev(e.operand, env)
            if isinstance(e.op, ast.Not):
                return not self.truth(v)
            v = _scalar(v)
            if isinstance(v, int) and isinstance(e.op, ast.USub):
                return -v
            if isinstance(v, int) and isinstance(e.op, ast.Invert):
                return ~v
            raise Stop("unary operator")
        if isinstance(e, ast.BinOp):
            return self.binop(e.op, self.ev(e.left, env), self.ev(e.right, env))
        if isinstance(e, ast.IfExp):
            return self.ev(e.body if self.truth(self.ev(e.test, env)) else e.orelse, env)
        if isinstance(e, (ast.ListComp, ast.GeneratorExp)):
            return self.comp(e, env)
        if isinstance(e, ast.SetComp):
            return set(self.comp(e, env))
        if isinstance(e, ast.NamedExpr):
            v = self.ev(e.value, env)
            self.assign(e.target, v, env)
            return v
        if isinstance(e, ast.Call):
            return self.call(e, env)
        raise Stop(f"expression {type(e).__name__}")

    def call(self, e, env):
        if any(isinstance(a, ast.Starred) for a in e.args) or any(k.arg is None for k in e.keywords):
            raise Stop("star arguments")
        d = dotted(e.func) or ""
        # methods of the class
        if isinstance(e.func, ast.Attribute) and isinstance(e.func.value, ast.Name) and e.func.value.id in ("self", "OP4") and e.func.attr in self.methods:
            args = [self.ev(a, env) for a in e.args]
            kw = {k.arg: self.ev(k.value, env) for k in e.keywords}
            return self.call_fn(self.methods[e.func.attr], args, kw)
        args = [self.ev(a, env) for a in e.args]
        kw = {k.arg: self.ev(k.value, env) for k in e.keywords}
        if d == "open":
            return FileV(self.data)
        if d in BUILTINS and d not in env:
            if kw or any(isinstance(a, (Opaque, FileV)) for a in args):
                raise Stop(f"{d}() of an unknown value")
            try:
                r = BUILTINS[d](*args)
            except (ValueError, TypeError) as x:
                raise Raised(f"{type(x).__name__}: {x}")
            return r
        if d in ("np.frombuffer", "numpy.frombuffer"):
            buf = args[0] if args else kw.get("buffer")
            dt = args[1] if len(args) > 1 else kw.get("dtype")
            if not isinstance(buf, bytes) or dt is None:
                raise Stop("np.frombuffer arguments")
            fmt = np_dtype(dt)
            size = struct.calcsize(fmt)
            cnt = args[2] if len(args) > 2 else kw.get("count", -1)
            off = args[3] if len(args) > 3 else kw.get("offset", 0)
            buf = buf[off:]
            if cnt == -1:
                if len(buf) % size:
                    raise Raised("buffer size must be a multiple of element size")
                cnt = len(buf) // size
            if cnt * size > len(buf):
                raise Raised("buffer is smaller than requested size")
            return Arr(struct.unpack(fmt[0] + fmt[1] * cnt, buf[:cnt * size]))
        if d == "int.from_bytes":
            bo = args[1] if len(args) > 1 else kw.get("byteorder", "big")
            if not isinstance(args[0], bytes) or bo not in ("little", "big"):
                raise Stop("int.from_bytes arguments")
            return int.from_bytes(args[0], bo, signed=bool(kw.get("signed", False)))
        if d in ("struct.unpack", "struct.unpack_from"):
            if len(args) < 2 or not isinstance(args[0], str) or not isinstance(args[1], bytes):
                raise Stop("struct.unpack arguments")
            try:
                if d == "struct.unpack":
                    return struct.unpack(args[0], args[1])
                return struct.unpack_from(args[0], args[1], args[2] if len(args) > 2 else kw.get("offset", 0))
            except struct.error as x:
                raise Raised(str(x))
        if d in ("np.uint32", "np.int32", "np.uint64", "np.int64", "numpy.uint32", "numpy.int32") and len(args) == 1 and isinstance(_scalar(args[0]), int):
            return _scalar(args[0])
        if isinstance(e.func, ast.Attribute):
            recv = self.ev(e.func.value, env)
            m = e.func.attr
            if isinstance(recv, FileV):
                if m == "read" and len(args) == 1 and not kw:
                    return recv.read(args[0])
                if m == "close":
                    return None
                raise Stop(f"file method {m}")
            if isinstance(recv, (bytes, str)) and m in BYTES_METHODS:
                if any(isinstance(a, (Opaque, FileV)) for a in args):
                    raise Stop("unknown argument")
                try:
                    return getattr(recv, m)(*args, **kw)
                except (ValueError, TypeError, UnicodeDecodeError) as x:
                    raise Raised(f"{type(x).__name__}: {x}")
            if isinstance(recv, Arr):
                if m == "item" and not args:
                    return _scalar(recv)
                if m == "tolist" and not args:
                    return list(recv)
                if m in ("min", "max", "any", "all", "sum") and not args:
                    return {"min": min, "max": max, "any": any, "all": all, "sum": sum}[m](recv)
            raise Stop(f"method .{m} of {type(recv).__name__}")
        raise Stop(f"call of {ast.unparse(e.func)[:60]}")


# ------------------------------------------------------------------------------------------------------------------ rendering
def int_reps(lo, hi, base):
    """one representative per count of `base` digits of |value| in [lo, hi], plus both ends"""
    out = {lo, hi}
    for sign in (1, -1):
        p = base
        while p <= max(abs(lo), abs(hi)):
            for x in (p - 1, p):
                if lo <= sign * x <= hi:
                    out.add(sign * x)
            p *= base
    return sorted(out)


def star(axes):
    """combinations of representatives: every axis varied with the others at either end (not the full product)"""
    ends = [[a[0], a[-1]] for a in axes]
    seen, out = set(), []

    def add(t):
        if t not in seen:
            seen.add(t)
            out.append(t)
    for i, a in enumerate(axes):
        for x in a:
            for pick in range(2):
                add(tuple(x if j == i else ends[j][pick] for j in range(len(axes))))
    return out
