"""C19 value engine: evaluate a function on symbols so that a rule can speak about *values and roles* only.

Differences from e2_eval.AutoEvaluator (all needed to make the C19 rules independent of names, temporaries, helper extraction, control-flow
shape, loop form and numpy spellings):

  * arrays are values: a subscript store `X[i] = v` rebinds X to store(old X, i, v) (a later store under the same index replaces the earlier
    one, storing an element's own value is the identity, a load under the stored index returns the stored value); no local is ever
    represented by its *name*;
  * index arithmetic is evaluated: X[i][j] = X[i, j] for an integer i, X[a:b][k] = X[a + k], X[..., a::s][..., b:c:t] = X[..., a+s*b : a+s*c : s*t],
    np.transpose(X)[k] = X[:, k];
  * tests are values in a small boolean algebra over sign atoms (lt0 / le0 / eq0 of a difference): `a < b`, `b > a`, `abs(x) < c` and
    `-c < x < c`, `x in (u, v)` and `x == u or x == v`, De Morgan forms ... have one normal form; their truth is decided three-valued from the
    rule's *facts* (sign facts on expressions, e.g. "p // math.gcd(p, q) > 1") and constants; undecided `if`s are merged with ite();
  * loops (`for` over range / enumerate / zip / a sequence, counted `while`) are evaluated once on a counter symbol k in [0, N): the loop
    variable is lo + k, elements are seq[k]; variables carried round the loop start a generic iteration as carried(pre-loop value, k) and
    are loopres(k, N, value at the end of the iteration) afterwards; every loop is recorded with its trip count;
  * calls: locals holding callables are applied by value, methods of arrays are the numpy functions (`x.sum(axis=0)` = `np.sum(x, axis=0)`),
    positional / keyword arguments are placed on a signature, `**name` of a literal dict is expanded, hstack / vstack / concatenate are one
    cat(axis, parts...), `x.reshape(-1, 1)` = `x[:, None]` = col(x), logical_and / & etc. are the boolean algebra, max / np.maximum and
    min / np.minimum are decided from the facts, int(np.ceil(x)) = math.ceil(x), functions of the same module (and local functions) are
    followed on the argument values;
  * (pass 3) nothing that may write is skipped: a store through a view (X[:, i] held by a local, a row of a loop over X.T) is composed by the index algebra into a
    store into X, a store through another NAME of an array updates that array (values carry no identity: which array is meant is read from the statement that made
    the view / the alias; if that leaves several candidates they all become unknown), a method the engine does not know makes its object unknown, ufuncs with
    out= / where= are masked stores; lambdas are values that can be applied (immediately, through a local, chosen by a conditional expression), locals that hold a
    function / a library routine are called by value, module-level namedtuple classes, literal dict locals, SimpleNamespace locals are followed;
    itertools.product / a generator expression as a loop iterable are nested loops; zip stops at the shortest argument; one boolean normal form with negation pushed
    to the sign leaves (De Morgan; not (e < 0) = (-e <= 0) over the reals); sign of products of factors whose signs the regime's facts give; ceiling-division and
    shift idioms, min of reciprocals, np.pad / np.append / np.r_ / add.reduce / add.accumulate / logical_and.reduce / clip(min=, max=) have their canonical values;
  * finite-world mode (Shared.concrete): `while` loops whose test has a truth value each time it is reached are executed (break / continue / else), enumerate / zip of
    concrete sequences are unrolled, zeros_like / full / x.size / x.shape[0] of concrete arrays are known.
"""
from __future__ import annotations

import ast
from fractions import Fraction

from . import e2_formula as F
from .core import Unsupported
from .e1_srcmodel import dotted
from .e2_eval import CONSTS, UNARY_FUNCS, DictValue, Unknown, const_from_node, is_unknown, need
from .sem import unfn

NONE = F.sym("None")
TRUE = F.sym("True")
FALSE = F.sym("False")
ELL = F.sym("Ellipsis")


class PyTuple(tuple):
    """a Python tuple / list literal (as opposed to a plain tuple, which nothing here produces any more)"""


class Closure(Unknown):
    """a lambda expression as a value: it can be applied (V.call) - used in any other way it is an unknown value"""

    def __init__(self, fd, env):
        Unknown.__init__(self, "a lambda used as a value")
        self.fd, self.env = fd, env


class NamedTuple(PyTuple):
    """an instance of a collections.namedtuple class defined at module level: a tuple whose members also have names"""
    fields = ()

    @classmethod
    def make(cls, fields, vals):
        t = cls(vals)
        t.fields = tuple(fields)
        return t


def israt(v):
    return isinstance(v, F.Rat)


def eq(a, b):
    if a is None or b is None or is_unknown(a) or is_unknown(b):
        return False
    if isinstance(a, tuple) or isinstance(b, tuple):
        return isinstance(a, tuple) and isinstance(b, tuple) and len(a) == len(b) and all(eq(x, y) for x, y in zip(a, b))
    if isinstance(a, DictValue) or isinstance(b, DictValue):
        return False
    try:
        return a.equals(b)
    except Unsupported:
        return False


def _has_unknown(v):
    if isinstance(v, tuple):
        return any(_has_unknown(x) for x in v)
    return v is None or is_unknown(v)


def as_rat(v):
    """values that may sit inside an opaque application"""
    if isinstance(v, tuple):
        return F.fn("tuple", *[as_rat(x) for x in v])
    if is_unknown(v):
        raise Unsupported(v.why)
    if isinstance(v, DictValue):
        raise Unsupported("dict value inside an application")
    return need(v)


def hi_ok(n):
    """a trip count small enough to execute the loop iteration by iteration"""
    return n <= 64


def const_of(v):
    if israt(v) and v.is_const():
        return v.const_value()
    return None


def int_of(v):
    c = const_of(v)
    if c is not None and c.denominator == 1:
        return int(c)
    return None


def is_sym(v, name):
    return israt(v) and v.equals(F.sym(name))


def mk_slice(lo, hi, st):
    return F.fn("slice", lo if lo is not None else NONE, hi if hi is not None else NONE, st if st is not None else NONE)


def un(v, name):
    """arguments of the opaque application `name(...)` if v is exactly that, else None"""
    u = unfn(v)
    if u is None or u[0] != name:
        return None
    return u[1]


def unslice(v):
    a = un(v, "slice")
    if a is None or len(a) != 3:
        return None
    return [None if is_sym(x, "None") else x for x in a]


def ix_parts(ix):
    a = un(ix, "tuple")
    return list(a) if a is not None else [ix]


def mk_tuple_ix(parts):
    return parts[0] if len(parts) == 1 else F.fn("tuple", *parts)


FULL = mk_slice(None, None, None)

# ------------------------------------------------------------------------------------------------------------------------------ booleans


def _key(v):
    return repr(v)


def fkey(v):
    """structural key of a value (atoms are interned: equal keys <=> same canonical form); much cheaper than the printed form"""
    if isinstance(v, tuple):
        return tuple(fkey(x) for x in v)
    if israt(v):
        return (v.n.key(), v.d.key())
    return repr(v)


def b_const(b):
    return TRUE if b else FALSE


def b_not(v):
    if is_sym(v, "True"):
        return FALSE
    if is_sym(v, "False"):
        return TRUE
    a = un(v, "not")
    if a is not None:
        return a[0]
    # one normal form: negation is pushed down to the sign leaves (over the reals: not (e < 0) = (-e <= 0); De Morgan)
    u = unfn(v)
    if u is not None and u[0] in ("lt0", "le0"):
        return le0(-u[1][0]) if u[0] == "lt0" else lt0(-u[1][0])
    if u is not None and u[0] in ("and", "or"):
        return (b_or if u[0] == "and" else b_and)([b_not(x) for x in u[1]])
    return F.fn("not", v)


def _b_nary(name, vals, absorbing, neutral):
    flat = []
    for v in vals:
        a = un(v, name)
        flat.extend(a if a is not None else [v])
    out = {}
    for v in flat:
        if is_sym(v, absorbing):
            return F.sym(absorbing)
        if is_sym(v, neutral):
            continue
        out[fkey(v)] = v
    if not out:
        return F.sym(neutral)
    if len(out) == 1:
        return next(iter(out.values()))
    return F.fn(name, *[out[k] for k in sorted(out)])


def b_and(vals):
    return _b_nary("and", vals, "False", "True")


def b_or(vals):
    return _b_nary("or", vals, "True", "False")


def lt0(e):
    c = const_of(e)
    if c is not None:
        return b_const(c < 0)
    return F.fn("lt0", e)


def le0(e):
    c = const_of(e)
    if c is not None:
        return b_const(c <= 0)
    return F.fn("le0", e)


def _strsym(v):
    u = None
    try:
        if israt(v) and v.d.is_const() and len(v.n.t) == 1:
            (m, c), = v.n.t.items()
            if c == v.d.const_value() and len(m) == 1 and m[0][1] == 1:
                d = F.atom_desc(m[0][0])
                if d[0] == "s":
                    u = d[1]
    except Exception:  # noqa
        u = None
    return u


def eq0(a, b):
    e = a - b
    c = const_of(e)
    if c is not None:
        return b_const(c == 0)
    sa, sb = _strsym(a), _strsym(b)
    if sa and sb and sa[:1] in "'\"" and sb[:1] in "'\"":
        return b_const(sa == sb)
    m = -e
    return F.fn("eq0", e if fkey(e) <= fkey(m) else m)


def is_bool_value(v):
    u = unfn(v)
    return is_sym(v, "True") or is_sym(v, "False") or (u is not None and u[0] in ("and", "or", "not", "lt0", "le0", "eq0", "is", "ite"))


class Facts:
    """sign facts `e in interval` on expressions and truth values of opaque atoms; three-valued queries"""

    def __init__(self):
        self.signs = []     # (e, lo, lo_open, hi, hi_open)  with lo/hi Fraction or None (infinite)
        self.ne = []        # e != 0
        self.atoms = []     # (value, bool)

    def assert_value(self, v, truth=True):
        if is_sym(v, "True") or is_sym(v, "False"):
            return
        u = unfn(v)
        if u is not None and u[0] == "not":
            return self.assert_value(u[1][0], not truth)
        if u is not None and u[0] == "and" and truth:
            for x in u[1]:
                self.assert_value(x, True)
            return
        if u is not None and u[0] == "or" and not truth:
            for x in u[1]:
                self.assert_value(x, False)
            return
        if u is not None and u[0] in ("lt0", "le0", "eq0"):
            e = u[1][0]
            z = Fraction(0)
            if u[0] == "lt0":
                self.signs.append((e, None, True, z, True) if truth else (e, z, False, None, True))
            elif u[0] == "le0":
                self.signs.append((e, None, True, z, False) if truth else (e, z, True, None, True))
            elif truth:
                self.signs.append((e, z, False, z, False))
            else:
                self.ne.append(e)
            return
        self.atoms.append((v, truth))

    def _interval(self, e):
        """tightest interval known for e: intersect what every fact f with e = +-f + c gives"""
        lo, lo_o, hi, hi_o = None, True, None, True
        found = False
        for f, flo, flo_o, fhi, fhi_o in self.signs:
            for s in (1, -1):
                c = const_of(e - f if s == 1 else e + f)
                if c is None:
                    continue
                if s == 1:
                    a, a_o, b, b_o = flo, flo_o, fhi, fhi_o
                else:
                    a, a_o, b, b_o = (None if fhi is None else -fhi), fhi_o, (None if flo is None else -flo), flo_o
                a = None if a is None else a + c
                b = None if b is None else b + c
                found = True
                if a is not None and (lo is None or a > lo or (a == lo and a_o)):
                    lo, lo_o = a, a_o
                if b is not None and (hi is None or b < hi or (b == hi and b_o)):
                    hi, hi_o = b, b_o
                break
        return (lo, lo_o, hi, hi_o) if found else None

    def leaf(self, kind, e):
        iv = self._interval(e)
        if iv is not None:
            lo, lo_o, hi, hi_o = iv
            neg = hi is not None and (hi < 0 or (hi == 0 and hi_o))          # e < 0
            npos = hi is not None and hi <= 0                                  # e <= 0
            pos = lo is not None and (lo > 0 or (lo == 0 and lo_o))           # e > 0
            nneg = lo is not None and lo >= 0                                  # e >= 0
            if kind == "lt0":
                if neg:
                    return True
                if nneg:
                    return False
            elif kind == "le0":
                if npos:
                    return True
                if pos:
                    return False
            else:
                if neg or pos:
                    return False
                if lo is not None and hi is not None and lo == hi == 0:
                    return True
        if kind == "eq0":
            for f in self.ne:
                if eq(f, e) or eq(f, -e):
                    return False
        sg = self.sign(e)
        if sg is not None:
            return {"lt0": sg < 0, "le0": sg <= 0, "eq0": sg == 0}[kind]
        return None

    def sign(self, e, depth=0):
        """sign (-1 | 0 | 1) of a product / quotient of factors whose signs the facts give (max / min of such factors included); None: not known"""
        if not israt(e) or depth > 4:
            return None
        c = const_of(e)
        if c is not None:
            return (c > 0) - (c < 0)
        if len(e.n.t) != 1 or len(e.d.t) != 1:
            return None
        sg = 1
        for p_ in (e.n, e.d):
            (m, c), = p_.t.items()
            sg *= (c > 0) - (c < 0)
            for a, k in m:
                av = F.Rat(F.Poly.atom(a))
                s1 = None
                iv = self._interval(av)
                if iv is not None:
                    lo, lo_o, hi, hi_o = iv
                    if lo is not None and (lo > 0 or (lo == 0 and lo_o)):
                        s1 = 1
                    elif hi is not None and (hi < 0 or (hi == 0 and hi_o)):
                        s1 = -1
                if s1 is None:
                    u = unfn(av)
                    if u is not None and u[0] in ("max", "min"):
                        ss = [self.sign(x, depth + 1) for x in u[1]]
                        if all(x == 1 for x in ss) or (u[0] == "max" and any(x == 1 for x in ss)):
                            s1 = 1
                        elif all(x == -1 for x in ss) or (u[0] == "min" and any(x == -1 for x in ss)):
                            s1 = -1
                if s1 is None:
                    return None
                sg *= s1 ** k
        return sg

    def atom(self, v):
        for a, t in self.atoms:
            if eq(a, v):
                return t
        return None


# ------------------------------------------------------------------------------------------------------------------------------ records

class CallRec:
    __slots__ = ("name", "pos", "kw", "node", "value", "callee", "loops", "args")

    def __init__(self, name, pos, kw, node, value, callee, loops, args):
        self.name, self.pos, self.kw, self.node, self.value, self.callee, self.loops, self.args = name, pos, kw, node, value, callee, loops, args

    def last(self):
        return self.name.rsplit(".", 1)[-1]


class CellRec:
    __slots__ = ("old", "ix", "val", "new", "node", "loops")

    def __init__(self, old, ix, val, new, node, loops):
        self.old, self.ix, self.val, self.new, self.node, self.loops = old, ix, val, new, node, loops


class LoopRec:
    __slots__ = ("k", "n", "node", "outer", "results")

    def __init__(self, k, n, node, outer):
        self.k, self.n, self.node, self.outer = k, n, node, outer
        self.results = {}       # name -> value after the loop


SIGS = {
    "np.sum": ["a", "axis"], "np.mean": ["a", "axis"], "np.cumsum": ["a", "axis"], "np.all": ["a", "axis"], "np.any": ["a", "axis"],
    "np.max": ["a", "axis"], "np.min": ["a", "axis"], "np.amax": ["a", "axis"], "np.amin": ["a", "axis"],
    "np.interp": ["x", "xp", "fp", "left", "right", "period"],
    "np.swapaxes": ["a", "axis1", "axis2"], "np.diff": ["a", "n", "axis"],
    "signal.lfilter": ["b", "a", "x", "axis", "zi"], "signal.upfirdn": ["h", "x", "up", "down", "axis", "mode", "cval"],
    "interp1d": ["x", "y", "kind", "axis", "copy", "bounds_error", "fill_value", "assume_sorted"],
    "signal.windows.kaiser": ["M", "beta", "sym"],
}
CANON = {"kaiser": "signal.windows.kaiser", "lfilter": "signal.lfilter", "upfirdn": "signal.upfirdn", "interp1d": "interp1d", "gcd": "math.gcd"}
KEEP_POS = 1          # how many leading parameters of a SIGS function stay positional in the value
NP_METHODS = {"sum", "mean", "cumsum", "all", "any", "max", "min", "nonzero", "swapaxes", "transpose", "ravel", "reshape", "std", "var", "prod",
              "argmax", "argmin", "flatten", "squeeze", "conj", "round", "clip", "dot", "argsort", "repeat", "take", "tolist", "item", "cumprod", "searchsorted"}
KEEPDIMS_REDUCTIONS = {"mean", "sum", "max", "min", "amax", "amin", "median", "std", "var", "prod", "nanmean", "nansum", "nanmax", "nanmin", "nanmedian", "nanstd", "nanvar", "ptp"}
IDENT_CALLS = {"float", "np.asarray", "np.array", "np.atleast_1d", "np.asanyarray", "np.real", "complex", "list", "tuple", "np.ascontiguousarray"}
IDENT_METHODS = {"astype", "copy", "view"}
PURE_METHODS = {"index", "count", "get", "keys", "values", "items", "format", "join", "split", "strip", "startswith", "endswith", "lower", "upper", "nonzero", "searchsorted", "tobytes", "diagonal",
                "trace", "is_integer", "bit_length", "isoformat", "total_seconds", "ptp", "argpartition", "compress", "choose", "cumprod", "imag", "real", "conjugate", "byteswap", "newbyteorder"}


class Shared:
    def __init__(self, src=None, facts=None, oracle=None, call=None, rewrite=None, inline=None, consts=None, modnames=(), binop=None, ranks=None):
        self.src = src
        self.ranks = dict(ranks or {})   # symbol name -> number of dimensions (0 scalar, 1 vector, 2 matrix), where the rule knows it
        self.facts = facts or Facts()
        self.oracle = oracle            # (leaf value, evaluator) -> bool | None   for leaves the facts do not decide
        self.call = call                # (node, evaluator) -> value | NotImplemented
        self.rewrite = rewrite          # (base value, index value, evaluator) -> value | NotImplemented   applied to every load X[i]
        self.inline = dict(inline or {})
        self.consts = consts or {}
        self.modnames = set(modnames) | {"np", "numpy", "math", "signal", "scipy", "sp", "la", "linalg", "warnings", "itertools", "operator"}
        self.binop = binop
        self.calls = []
        self.cells = []
        self.loops = []
        self.loop_stack = []
        self.nloop = 0
        self.index_syms = set()
        self.tests = []                 # (value, truth, node, enclosing loops) of every statement-level test met
        self.notes = []
        self.rank_of = {}               # repr(value) -> number of dimensions, declared by the rule for values it has identified by role
        self.scalar_uses = set()        # repr(value) of everything used where numpy / Python require an integer scalar (slice bounds, range / arange / int arguments)
        self.elementwise_where = False  # np.where(c, a, b) selects element by element: only the facts (never the rule's oracle) may decide c
        self.on_unknown = None          # (call node, evaluator) -> value | NotImplemented : consulted when a followed helper returns something not understood
        self.inline_policy = None       # (function def, positional values, keyword values, evaluator) -> bool : follow this call (default: always)
        self.concrete = False           # finite-world evaluation: constant ranges are unrolled (break / for-else executed), zeros(n) is a list of n zeros
        self.namedtuples = {}           # class name -> field names (module-level namedtuple classes)

    def scratch(self):
        s = Shared(self.src, self.facts, None, self.call, None, self.inline, self.consts, self.modnames, self.binop, self.ranks)
        s.index_syms = self.index_syms
        s.concrete = self.concrete
        s.namedtuples = self.namedtuples
        s.rank_of, s.scalar_uses = self.rank_of, self.scalar_uses
        return s


def module_consts(ctx, rel):
    """{name: value node} of module-level names bound once to a literal, including `dict(k=literal, ...)`"""
    m = ctx.src.mod(rel)
    if getattr(m, "_c19_consts", None) is None:
        m._c19_consts = _module_consts(m)
    return m._c19_consts


def _module_consts(m):
    count, val = {}, {}

    def literal(v):
        if isinstance(v, ast.Call):
            if dotted(v.func) in ("partial", "functools.partial"):
                # partial(f, literal..., key=literal...): a module-level callable; applied by value in V.call
                return bool(v.args) and dotted(v.args[0]) is not None and all(isinstance(a, ast.Constant) for a in v.args[1:]) \
                    and all(k.arg is not None and isinstance(k.value, ast.Constant) for k in v.keywords)
            return isinstance(v.func, ast.Name) and v.func.id == "dict" and not v.args and all(k.arg is not None and literal(k.value) for k in v.keywords)
        return all(isinstance(x, (ast.Constant, ast.Tuple, ast.List, ast.Dict, ast.Name, ast.UnaryOp, ast.USub, ast.UAdd, ast.Load, ast.BinOp, ast.operator,
                                  ast.Attribute)) for x in ast.walk(v))
    for st in m.tree.body:
        tg = []
        if isinstance(st, ast.Assign):
            tg = st.targets
        elif isinstance(st, (ast.AnnAssign, ast.AugAssign)):
            tg = [st.target]
        for t in tg:
            for x in ast.walk(t):
                if isinstance(x, ast.Name):
                    count[x.id] = count.get(x.id, 0) + 1
        if isinstance(st, (ast.Assign, ast.AnnAssign)) and len(tg) == 1 and isinstance(tg[0], ast.Name) and st.value is not None and literal(st.value):
            val[tg[0].id] = st.value
    return {k: v for k, v in val.items() if count.get(k) == 1}


def module_namedtuples(ctx, rel):
    """{class name: field names} of the namedtuple classes defined at module level: X = namedtuple("X", "a b") / namedtuple("X", ["a", "b"])"""
    m = ctx.src.mod(rel)
    if getattr(m, "_c19_nt", None) is not None:
        return m._c19_nt
    out = m._c19_nt = {}
    for st in m.tree.body:
        if isinstance(st, ast.Assign) and len(st.targets) == 1 and isinstance(st.targets[0], ast.Name) and isinstance(st.value, ast.Call) \
                and (dotted(st.value.func) or "").rsplit(".", 1)[-1] == "namedtuple" and len(st.value.args) == 2 and not st.value.keywords:
            f = st.value.args[1]
            names = None
            if isinstance(f, ast.Constant) and isinstance(f.value, str):
                names = f.value.replace(",", " ").split()
            elif isinstance(f, (ast.Tuple, ast.List)) and all(isinstance(e, ast.Constant) and isinstance(e.value, str) for e in f.elts):
                names = [e.value for e in f.elts]
            if names:
                out[st.targets[0].id] = names
    return out


def module_names(ctx, rel):
    """names bound by import statements at module level (module aliases and imported callables)"""
    m = ctx.src.mod(rel)
    if getattr(m, "_c19_names", None) is not None:
        return m._c19_names
    out = m._c19_names = set()
    for st in ast.walk(m.tree):
        if isinstance(st, (ast.Import, ast.ImportFrom)):
            for a in st.names:
                out.add((a.asname or a.name).split(".")[0])
    return out


# ------------------------------------------------------------------------------------------------------------------------------ evaluator

class V:
    def __init__(self, shared, env=None, outer=None, depth=0):
        self.sh = shared
        self.env = dict(env or {})
        self.outer = outer              # defining scope of a local function (read-only)
        self.depth = depth
        self.returns = []
        self.done = False
        self.skip = False
        self.mutated = set()
        self.aug = set()                # names updated by an augmented assignment and by nothing else
        self.rebound = set()
        self.brk = False
        self.fn = None                  # the function whose body this frame evaluates (None: the rule's anchor)
        self.view_of = {}               # local -> names of the arrays the statement that bound it took a view of
        self.local_funcs = {}

    # ---- helpers
    def intlike(self, v):
        """an integer built from loop counters and integer constants only"""
        if not israt(v) or not v.d.is_const():
            return False
        sc = 1 / v.d.const_value()
        for m, c in v.n.t.items():
            if (c * sc).denominator != 1:
                return False
            for a, _e in m:
                d = F.atom_desc(a)
                if d[0] != "s" or d[1] not in self.sh.index_syms:
                    return False
        return True

    def lookup(self, name):
        if name in self.env:
            return self.env[name]
        if self.outer is not None and name in self.outer:
            return self.outer[name]
        return None

    # ---- number of dimensions of a value, where it shows (None: unknown)
    def rank(self, v):
        if isinstance(v, tuple) or not israt(v):
            return None
        if self.sh.rank_of or self.sh.scalar_uses:
            key = fkey(v)
            if key in self.sh.rank_of:
                return self.sh.rank_of[key]
            if key in self.sh.scalar_uses:
                return 0
        best = 0
        for p_ in (v.n, v.d):
            for a in p_.atoms():
                r = self._rank_atom(F.atom_desc(a))
                if r is None:
                    return None
                best = max(best, r)
        return best

    def is_array(self, v):
        """certainly an array: some term of v has a factor of known dimension >= 1 (whatever the other factors are)"""
        if not israt(v):
            return False
        if (self.rank(v) or 0) >= 1:
            return True
        return any((self._rank_atom(F.atom_desc(a)) or 0) >= 1 for a in v.n.atoms())

    def _rank_atom(self, d):
        if d[0] == "s":
            if d[1] in self.sh.index_syms:
                return 0
            if self.sh.rank_of or self.sh.scalar_uses:
                key = fkey(F.sym(d[1]))
                if key in self.sh.rank_of:
                    return self.sh.rank_of[key]
                if key in self.sh.scalar_uses:
                    return 0
            return self.sh.ranks.get(d[1])
        if d[0] in ("exp", "sin", "cos", "sqrt"):
            return self.rank(F.Rat(F._poly_from_key(d[1])))
        if d[0] != "fn":
            return None
        nm = d[1]
        args = [k if isinstance(k, str) else F.Rat(F._poly_from_key(k[1]), F._poly_from_key(k[2])) for k in d[2]]
        if nm in ("zeros", "ones", "empty"):
            t = un(args[0], "tuple")
            if t is not None:
                return len(t)
            return 1 if self.rank(args[0]) == 0 else None
        if nm == "col":
            return 2
        if nm in ("store", "carried", "abs", "log", "call:np.cumsum", "call:np.sinc", "call:np.abs", "call:np.sqrt", "call:np.log10", "call:np.log2"):
            return self.rank(args[0])
        if nm == "loopres":
            return self.rank(args[2])
        if nm in ("len", "attr:size", "attr:ndim"):
            return 0
        if nm in ("floor", "int"):
            return self.rank(args[0])
        if nm == "attr:shape":
            return 1
        if nm in ("floordiv", "max", "min", "pow", "mod"):
            rs = [self.rank(x) for x in args]
            return None if any(r is None for r in rs) else max(rs)
        if nm == "call:np.diff":
            return self.rank(args[0])
        if nm in ("call:np.arange", "call:np.linspace"):
            return 1
        if nm in ("call:np.mean", "call:np.sum", "call:np.argmax", "call:np.argmin", "call:np.max", "call:np.min") and len(args) == 1:
            return 0          # (no axis: over the whole array)
        if nm in ("call:round", "int", "floor"):
            return self.rank(args[0])
        if nm == "call:np.searchsorted":
            pos_ = call_args(args)[0]
            return self.rank(pos_[1]) if len(pos_) >= 2 else None          # one insertion point per value searched for
        if nm == "cat":
            rs = [self.rank(x) for x in args[1:]]
            if any(r is None for r in rs):
                return None
            return max(max(rs), 2 if is_sym(args[0], "'v'") else 1)
        if nm == "idx":
            r = self.rank(args[0])
            if r is None:
                return None
            for p_ in ix_parts(args[1]):
                if unslice(p_) is not None or is_sym(p_, "Ellipsis"):
                    continue
                if is_sym(p_, "None"):
                    r += 1
                elif self.rank(p_) == 0:
                    r -= 1
                else:
                    return None
            return r if r >= 0 else None
        return None

    def shape_carrier(self, v, depth=0):
        """The array X an element-wise expression v certainly has the shape of (numpy broadcasting), or None.  v is a sum / product / quotient whose factors are
        X itself, scalars, and reductions of (an array shaped like) X along one axis with keepdims=True - these have X's shape with one extent replaced by 1, so they
        broadcast against X to X's shape: `(data - data.mean(axis=-1, keepdims=True)).shape` is `data.shape` whatever the number of dimensions."""
        if not israt(v) or depth > 4:
            return None
        carrier, plain = None, False
        for p_ in (v.n, v.d):
            for a in p_.atoms():
                d = F.atom_desc(a)
                if d[0] not in ("s", "fn"):
                    return None
                av = F.Rat(F.Poly.atom(a))
                if self.rank(av) == 0:
                    continue
                red = self._keepdims_reduced(av)
                if red is not None:
                    cand = self.shape_carrier(red, depth + 1)          # (the array reduced: X itself or again an expression shaped like X)
                    if cand is None:
                        return None
                elif d[0] == "s" and d[1][:1] not in "'\"" and d[1] not in ("None", "True", "False", "Ellipsis"):
                    cand, plain = av, True
                else:
                    return None
                if carrier is None:
                    carrier = cand
                elif not eq(carrier, cand):
                    return None
        return carrier if plain else None

    @staticmethod
    def _keepdims_reduced(av):
        """A when av is np.<reduction>(A, axis=<one integer>, keepdims=True) - or the reduction along the LAST axis with that axis put back as a trailing axis of length 1
        (`A.mean(axis=-1)[..., None]`, `np.expand_dims(A.mean(axis=-1), -1)`) - else None"""
        def reduction(v, keep):
            u = unfn(v)
            if u is None or not u[0].startswith("call:np.") or u[0][8:] not in KEEPDIMS_REDUCTIONS:
                return None
            pos, kw = call_args(u[1])
            if not pos or not israt(pos[0]) or len(pos) > 2 or set(kw) - {"axis", "keepdims", "dtype"}:
                return None
            ax = kw.get("axis", pos[1] if len(pos) > 1 else None)
            kd = kw.get("keepdims")
            if ax is None or int_of(ax) is None:
                return None
            if keep:
                return pos[0] if kd is not None and is_sym(kd, "True") else None
            return pos[0] if int_of(ax) == -1 and (kd is None or is_sym(kd, "False")) else None
        r = reduction(av, True)
        if r is not None:
            return r
        ix = un(av, "idx")
        if ix is not None:
            parts = ix_parts(ix[1])
            if len(parts) == 2 and is_sym(parts[0], "Ellipsis") and (is_sym(parts[1], "None") or is_sym(parts[1], "np.newaxis")):
                return reduction(ix[0], False)
            return None
        ex = un(av, "call:np.expand_dims")
        if ex is not None:
            pos, kw = call_args(ex)
            ax = kw.get("axis", pos[1] if len(pos) > 1 else None)
            if pos and ax is not None and int_of(ax) == -1:
                return reduction(pos[0], False)
        return None

    def shape_dim(self, v, k):
        """X.shape[k] for a constant k, where the value X shows it (None: not shown - the load stays symbolic)"""
        if not israt(v):
            return None
        if k == -1:
            r = self._last_extent(v)
            if r is not None:
                return r
        if unfn(v) is None and k in (1, -1) and _strsym(v) is None and self.rank(v) == 2:
            # an element-wise expression of matrices, column vectors (extent 1: broadcast) and scalars: the number of columns is the one its matrices agree on
            exts = []
            for p_ in (v.n, v.d):
                for a in p_.atoms():
                    av = F.Rat(F.Poly.atom(a))
                    r = self.rank(av)
                    if r is None:
                        return None
                    if r == 0 or un(av, "col") is not None:
                        continue
                    if r == 1:
                        exts.append(self.np_call("len", [av], {}, None))
                    else:
                        d = self.shape_dim(av, k) if unfn(av) is not None else None
                        exts.append(d if d is not None else F.fn("idx", F.fn("attr:shape", av), F.const(1)))
            if not exts:
                return F.const(1)
            return exts[0] if all(eq(x, exts[0]) for x in exts[1:]) else None
        for nm in ("zeros", "ones", "empty"):
            z = un(v, nm)
            if z is not None:
                t = un(z[0], "tuple")
                if t is not None and -len(t) <= k < len(t):
                    return t[k]
                return None
        c = un(v, "col")
        if c is not None:
            if k in (1, -1):
                return F.const(1)
            if k in (0, -2) and self.rank(c[0]) == 1:
                return self.np_call("len", [c[0]], {}, None)
            return None
        for nm in ("store", "carried", "call:np.cumsum"):
            a = un(v, nm)
            if a is not None:
                return self.shape_dim(a[0], k)
        a = un(v, "loopres")
        if a is not None:
            return self.shape_dim(a[2], k)
        a = un(v, "cat")
        if a is not None:
            ax = int_of(a[0])
            rs = [self.rank(x) for x in a[1:]]
            if ax is None or any(r is None for r in rs) or len(set(rs)) != 1 or rs[0] < 2:
                return None
            r = rs[0]
            kk, aa = (k + r if k < 0 else k), (ax + r if ax < 0 else ax)
            if not (0 <= kk < r) or kk == aa:
                return None
            for x in a[1:]:          # along an axis that is not the concatenation axis all parts have the same extent
                d = self.shape_dim(x, k)
                if d is not None:
                    return d
        return None

    def _last_extent(self, v, depth=0):
        """extent of an array value along its last axis, where the value shows it: a zero buffer whose shape was edited, a concatenation along the last axis,
        the output of a filter (as long as its input), a tail slice of one of these"""
        if not israt(v) or depth > 6:
            return None
        for nm in ("zeros", "ones", "empty"):
            z = un(v, nm)
            if z is not None:
                shp = z[0]
                st = un(shp, "store")
                if st is not None and int_of(st[1]) == -1:
                    return st[2]
                t = un(shp, "tuple")
                if t is not None:
                    return t[-1]
                sc = un(shp, "seqcat")
                if sc is not None and un(sc[1], "tuple") is not None and len(un(sc[1], "tuple")) >= 1:
                    return un(sc[1], "tuple")[-1]
                return None
        a = un(v, "store") or un(v, "carried")
        if a is not None:
            return self._last_extent(a[0], depth + 1)
        a = un(v, "cat")
        if a is not None and int_of(a[0]) == -1:
            ds = [self._last_extent(x, depth + 1) for x in a[1:]]
            if all(d is not None for d in ds):
                tot = F.const(0)
                for d in ds:
                    tot = tot + d
                return tot
            return None
        u = unfn(v)
        if u is not None and u[0] == "call:signal.lfilter":
            x = placed("signal.lfilter", u[1]).get("x")
            ax = placed("signal.lfilter", u[1]).get("axis")
            return self._last_extent(x, depth + 1) if x is not None and (ax is None or int_of(ax) == -1) else None
        a = un(v, "idx")
        if a is not None:
            parts = ix_parts(a[1])
            if len(parts) == 2 and is_sym(parts[0], "Ellipsis"):
                sl = unslice(parts[1])
                if sl is not None and sl[1] is None and sl[2] is None:
                    n = self._last_extent(a[0], depth + 1)
                    if n is not None:
                        lo = sl[0] if sl[0] is not None else F.const(0)
                        c = const_of(lo)
                        if (c is not None and c >= 0) or (c is None and V(self.sh.scratch()).truth(le0(-lo)) is True):
                            return n - lo
        return None

    def cat(self, name, parts, axis):
        """hstack / vstack / concatenate: one value when the dimensions of the parts make them the same operation"""
        rs = [self.rank(x) if israt(x) else None for x in parts]
        known = all(r is not None for r in rs)
        if name == "np.hstack":
            if known and max(rs) <= 1:
                return F.const(0)
            if known and min(rs) >= 2:
                return F.const(1)
            return F.sym("'h'")
        if name in ("np.vstack", "np.row_stack"):
            if known and min(rs) >= 2:
                return F.const(0)
            return F.sym("'v'")
        return axis

    # ---- truth
    def truth(self, v):
        if v is None or is_unknown(v) or isinstance(v, DictValue):
            return None
        if isinstance(v, tuple):
            return len(v) > 0 if isinstance(v, PyTuple) else None
        if is_sym(v, "True"):
            return True
        if is_sym(v, "False") or is_sym(v, "None"):
            return False
        c = const_of(v)
        if c is not None:
            return c != 0
        u = unfn(v)
        if u is not None:
            nm, a = u
            if nm == "not":
                r = self.truth(a[0])
                return None if r is None else (not r)
            if nm == "and":
                rs = [self.truth(x) for x in a]
                if any(r is False for r in rs):
                    return False
                return True if all(r is True for r in rs) else None
            if nm == "or":
                rs = [self.truth(x) for x in a]
                if any(r is True for r in rs):
                    return True
                return False if all(r is False for r in rs) else None
            if nm == "ite":
                r = self.truth(a[0])
                if r is not None:
                    return self.truth(a[1] if r else a[2])
                return None
            if nm in ("lt0", "le0", "eq0"):
                r = self.sh.facts.leaf(nm, a[0])
                if r is not None:
                    return r
        r = self.sh.facts.atom(v)
        if r is None and self.sh.oracle is not None:
            r = self.sh.oracle(v, self)
        return r

    # ---- index algebra
    def mk_idx(self, base, ix):
        if is_unknown(base):
            return base
        if is_unknown(ix):
            return ix
        if isinstance(base, DictValue):
            return Unknown("subscript of a dict with a computed key")
        if isinstance(base, tuple):
            k = int_of(ix) if israt(ix) else None
            if k is not None:
                try:
                    return base[k]
                except IndexError:
                    return Unknown("index out of range")
            sl = unslice(ix) if israt(ix) else None
            if sl is not None:
                b = [None if x is None else int_of(x) for x in sl]
                if all(x is None or y is not None for x, y in zip(sl, b)):
                    return PyTuple(base[slice(*b)])
            return Unknown("computed index into a tuple")
        ix = as_rat(ix)
        parts = ix_parts(ix)
        # x[:, None] : column vector
        if len(parts) == 2 and eq(parts[0], FULL) and (is_sym(parts[1], "None") or is_sym(parts[1], "np.newaxis")):
            return F.fn("col", base)
        st = un(base, "store")
        if st is not None and eq(st[1], ix):
            return st[2]
        inner = un(base, "idx")
        if inner is not None:
            X, jx = inner
            jparts = ix_parts(jx)
            if all(self.intlike(p) for p in jparts):
                return self.mk_idx(X, mk_tuple_ix(jparts + parts))
            r = self._compose_slices(X, jparts, parts)
            if r is None:
                r = self._compose_open(X, jparts, parts)
            if r is not None:
                return r
        tr = un(base, "call:np.transpose")
        if tr is not None and len(tr) == 1 and len(parts) == 1 and self.intlike(parts[0]):
            return self.mk_idx(tr[0], F.fn("tuple", FULL, parts[0]))
        shp = un(base, "attr:shape")
        if shp is not None and len(parts) == 1 and int_of(parts[0]) is not None:
            d = self.shape_dim(shp[0], int_of(parts[0]))
            if d is not None:
                return d
        if all(self.intlike(p_) for p_ in parts):
            r = self._elementwise(base, parts, top=True)          # (A / B)[i] = A[i] / B[i],  log(A)[i] = log(A[i]),  (v[:, None] * M)[i, j] = v[i] * M[i, j]
            if r is not None:
                return r
        if self.sh.rewrite is not None:
            r = self.sh.rewrite(base, ix, self)
            if r is not NotImplemented:
                return r
        return F.fn("idx", base, ix)

    def _elementwise(self, v, parts, top=False):
        """the element `parts` (integers / loop counters, one per dimension) of an expression made of element-wise operations on arrays of known
        dimensions (numpy broadcasting: an operand of r dimensions sees the last r indices; v[:, None] sees the first).  None: not that."""
        if not israt(v):
            return None
        r = self.rank(v)
        if r is None or r > len(parts) or (top and r != len(parts)):
            return None
        if r == 0:
            return v
        sub = parts[len(parts) - r:]
        single = v.d.is_const() and len(v.n.t) == 1 and next(iter(v.n.t.values())) == v.d.const_value() and len(next(iter(v.n.t))) == 1 and next(iter(v.n.t))[0][1] == 1
        if single:
            a = next(iter(v.n.t))[0][0]
            d = F.atom_desc(a)
            if d[0] == "exp":
                x = self._elementwise(F.Rat(F._poly_from_key(d[1])), parts)
                return None if x is None else F.exp(x)
            if d[0] == "fn" and d[1] in ("log", "abs") and len(d[2]) == 1:
                x = self._elementwise(F.Rat(F._poly_from_key(d[2][0][1]), F._poly_from_key(d[2][0][2])), parts)
                if x is None:
                    return None
                return F.log(x) if d[1] == "log" else self.np_call("abs", [x], {}, None)
            if d[0] == "fn" and d[1] == "col" and r == 2:
                x = F.Rat(F._poly_from_key(d[2][0][1]), F._poly_from_key(d[2][0][2]))
                return None if self.rank(x) != 1 else self._elementwise(x, [sub[0]]) if not top else None
            if top:
                return None          # a plain array: the ordinary load
            if d[0] == "s" or (d[0] == "fn" and d[1] in ("idx", "store", "carried", "loopres", "zeros", "cat")):
                return self.mk_idx(v, mk_tuple_ix(list(sub)))
            return None

        def poly(p_):
            tot = F.const(0)
            for m, c in p_.t.items():
                term = F.const(c)
                for a, e in m:
                    x = self._elementwise(F.Rat(F.Poly.atom(a)), parts)
                    if x is None:
                        return None
                    term = term * x ** e
                tot = tot + term
            return tot
        n_, d_ = poly(v.n), poly(v.d)
        if n_ is None or d_ is None or d_.is_zero():
            return None
        return n_ / d_

    def _compose_open(self, X, jparts, parts):
        """X[i, a:b, c:d][k, l] -> X[i, a + k, c + l]: integer parts of the outer index fill the sliced (open) axes of the inner one in order"""
        if any(is_sym(p_, "Ellipsis") or is_sym(p_, "None") for p_ in jparts + parts):
            return None
        if not all(self.intlike(p_) for p_ in parts):
            return None
        out = []
        rest = list(parts)
        for p_ in jparts:
            sl = unslice(p_)
            if sl is None:
                if not self.intlike(p_):
                    return None
                out.append(p_)
                continue
            if not rest:
                out.append(p_)
                continue
            a, b, st = sl
            a0 = a if a is not None else F.const(0)
            s0 = st if st is not None else F.const(1)
            if (const_of(a0) is not None and const_of(a0) < 0) or (const_of(s0) is not None and const_of(s0) <= 0):
                return None
            o = rest.pop(0)
            if const_of(o) is not None and const_of(o) < 0:
                return None
            out.append(a0 + s0 * o)
        if len(rest) == len(parts):
            return None
        return self.mk_idx(X, mk_tuple_ix(out + rest))

    def _compose_slices(self, X, jparts, parts):
        """X[pre, a:b:s][pre, k] -> X[pre, a + s k] ;  X[pre, a::s][pre, c:d:t] -> X[pre, a + s c : a + s d : s t]   (pre: nothing or `...`)"""
        if len(jparts) != len(parts) or len(parts) not in (1, 2):
            return None
        if len(parts) == 2 and not (is_sym(jparts[0], "Ellipsis") and is_sym(parts[0], "Ellipsis")):
            return None
        pre = parts[:-1]
        sl = unslice(jparts[-1])
        if sl is None:
            return None
        a, b, s = sl
        a0 = a if a is not None else F.const(0)
        s0 = s if s is not None else F.const(1)
        if (const_of(a0) is not None and const_of(a0) < 0) or (const_of(s0) is not None and const_of(s0) <= 0):
            return None
        o = parts[-1]
        k = int_of(o)
        if k is not None and k >= 0:
            return self.mk_idx(X, mk_tuple_ix(pre + [a0 + s0 * k]))
        if self.intlike(o) and const_of(o) is None:
            # a loop counter over that very slice: in range by construction
            return self.mk_idx(X, mk_tuple_ix(pre + [a0 + s0 * o]))
        osl = unslice(o)
        if osl is None or b is not None:
            return None
        c, d, t = osl
        for x in (c, d):
            if x is not None and const_of(x) is not None and const_of(x) < 0:
                return None
        if t is not None and const_of(t) is not None and const_of(t) <= 0:
            return None
        c0 = c if c is not None else F.const(0)
        t0 = t if t is not None else F.const(1)
        start = a0 + s0 * c0
        stop = None if d is None else a0 + s0 * d
        step = s0 * t0
        return self.mk_idx(X, mk_tuple_ix(pre + [mk_slice(None if eq(start, F.const(0)) else start, stop, None if eq(step, F.const(1)) else step)]))

    def mk_store(self, old, ix, v):
        if is_unknown(old) or is_unknown(ix) or is_unknown(v):
            return old if is_unknown(old) else (ix if is_unknown(ix) else v)
        if isinstance(old, tuple):
            k = int_of(ix) if israt(ix) else None
            if k is not None and -len(old) <= k < len(old):
                lst = list(old)
                lst[k] = v
                return PyTuple(lst)
            return Unknown("computed store into a tuple")
        ix = as_rat(ix)
        v = as_rat(v)
        st = un(old, "store")
        if st is not None and eq(st[1], ix):
            return self.mk_store(st[0], ix, v)
        cur = self.mk_idx(old, ix)
        if eq(cur, v):
            return old
        return F.fn("store", old, ix, v)

    @staticmethod
    def _view_root(v):
        """the array a numpy view value is a view of (None: v is not a view of another array)"""
        root = None
        while israt(v):
            a = un(v, "idx")
            if a is not None:
                parts = ix_parts(a[1])
                if any(un(p_, "lt0") or un(p_, "le0") or un(p_, "eq0") or un(p_, "and") or un(p_, "or") or un(p_, "not") for p_ in parts) or \
                        find_atoms(a[1], lambda n_, a_: n_ in ("call:np.searchsorted", "call:np.nonzero", "call:np.flatnonzero", "call:np.arange", "call:np.argsort", "call:np.where")):
                    break          # a mask / an index array selects a copy
                if un(a[0], "attr:shape") is not None:
                    break
                v = root = a[0]
                continue
            a = un(v, "call:np.transpose") or un(v, "col") or un(v, "call:np.ravel") or un(v, "call:np.swapaxes")
            if a is not None and not isinstance(a[0], str):
                v = root = a[0]
                continue
            break
        return root

    def index_value(self, sl):
        if isinstance(sl, ast.Tuple):
            parts = [as_rat(self.index_value(e)) for e in sl.elts]
            while len(parts) > 1 and (is_sym(parts[-1], "Ellipsis") or eq(parts[-1], FULL)) and not any(is_sym(p_, "Ellipsis") for p_ in parts[:-1]):
                parts.pop()          # X[i, ...] = X[i, :] = X[i]
            return parts[0] if len(parts) == 1 else F.fn("tuple", *parts)
        if isinstance(sl, ast.Slice):
            parts = []
            for p in (sl.lower, sl.upper, sl.step):
                if p is None:
                    parts.append(None)
                else:
                    v = self.ev(p)
                    if is_unknown(v):
                        return v
                    parts.append(as_rat(v))
                    self.sh.scalar_uses.add(fkey(parts[-1]))          # a slice bound is an integer scalar
                    b_ = parts[-1]
                    if b_.d.is_const() and b_.d.const_value() == 1 and len([m for m in b_.n.t if m]) == 1:
                        (m_, c_), = [(m, c) for m, c in b_.n.t.items() if m]
                        if abs(c_) == 1 and len(m_) == 1 and m_[0][1] == 1 and b_.n.const_value().denominator == 1:
                            self.sh.scalar_uses.add(fkey(F.Rat(F.Poly.atom(m_[0][0]))))          # x + k an integer, k an integer: so is x
            return mk_slice(*parts)
        v = self.ev(sl)
        if isinstance(v, tuple):
            return as_rat(v)
        return v

    # ---- expressions
    def ev(self, node):
        try:
            return self._ev(node)
        except Unsupported as e:
            return Unknown(str(e))

    def expr(self, text):
        return self.ev(ast.parse(text, mode="eval").body)

    def _name(self, name):
        v = self.lookup(name)
        if v is not None:
            return v
        if name in self.sh.consts and name not in getattr(self, "_folding", ()):
            self._folding = getattr(self, "_folding", set()) | {name}
            try:
                return V(self.sh.scratch(), {})._ev(self.sh.consts[name])
            finally:
                self._folding = self._folding - {name}
        if name in CONSTS:
            return F.sym(CONSTS[name])
        return F.sym(name)

    def _ev(self, node):
        if isinstance(node, ast.Constant):
            v = node.value
            if v is None:
                return NONE
            if v is True:
                return TRUE
            if v is False:
                return FALSE
            if v is Ellipsis:
                return ELL
            if isinstance(v, str):
                return F.sym(repr(v))
            if isinstance(v, complex):
                return F.I * F.const(Fraction(repr(v.imag)))
            if isinstance(v, (int, float)):
                return F.const(const_from_node(node, self.sh.src))
            return Unknown(f"constant {v!r}")
        if isinstance(node, ast.Name):
            return self._name(node.id)
        if isinstance(node, ast.Attribute):
            d = dotted(node)
            if d is not None:
                root = d.split(".")[0]
                if self.lookup(root) is None and (root in self.sh.modnames or root in self.sh.inline):
                    return F.sym(CONSTS[d]) if d in CONSTS else F.sym(d)
            if d is not None and "." in d and self.lookup(d) is not None:
                return self.lookup(d)          # ns.x after `ns.x = v` (a local namespace object; also seen from a closure)
            base = self._ev(node.value)
            if is_unknown(base):
                return base
            if isinstance(base, NamedTuple):
                return base[base.fields.index(node.attr)] if node.attr in base.fields else Unknown(f"attribute {node.attr} of a named tuple")
            if isinstance(base, PyTuple) and self.sh.concrete and node.attr in ("size", "shape", "ndim", "T"):
                # finite-world evaluation: a 1-D array of known length
                return {"size": F.const(len(base)), "shape": PyTuple((F.const(len(base)),)), "ndim": F.const(1), "T": base}[node.attr]
            if isinstance(base, tuple) or isinstance(base, DictValue):
                return Unknown(f"attribute of a tuple {ast.unparse(node)}")
            if israt(base):
                for ns_ in ("call:SimpleNamespace", "call:types.SimpleNamespace"):
                    a_ = un(base, ns_)
                    if a_ is not None:
                        kw_ = call_args(a_)[1]
                        return kw_[node.attr] if node.attr in kw_ else Unknown(f"attribute {node.attr} of a namespace")
            if node.attr == "T":
                return self.np_call("np.transpose", [base], {}, node)
            if node.attr == "real":
                return base
            if node.attr in ("shape", "ndim", "size") and israt(base):
                like = self.shape_carrier(base)          # (X - X.mean(axis=-1, keepdims=True)).shape = X.shape: broadcasting
                if like is not None:
                    base = like
            return F.fn("attr:" + node.attr, base)
        if isinstance(node, ast.UnaryOp):
            v = self._ev(node.operand)
            if is_unknown(v):
                return v
            if isinstance(node.op, (ast.Not, ast.Invert)):
                if isinstance(v, tuple):
                    return b_const(len(v) == 0) if isinstance(node.op, ast.Not) and isinstance(v, PyTuple) else Unknown("not of a tuple")
                if isinstance(node.op, ast.Not) and not is_bool_value(v):
                    c = const_of(v)
                    if c is not None:
                        return b_const(c == 0)
                return b_not(need(v))
            if isinstance(v, tuple):
                return Unknown("sign of a tuple")
            return -need(v) if isinstance(node.op, ast.USub) else need(v)
        if isinstance(node, ast.BinOp):
            a, b = self._ev(node.left), self._ev(node.right)
            return self.binop(node.op, a, b, node)
        if isinstance(node, ast.Compare):
            return self.compare(node)
        if isinstance(node, ast.BoolOp):
            vs = []
            for x in node.values:
                v = self._ev(x)
                if is_unknown(v):
                    return v
                if isinstance(v, tuple):
                    v = b_const(len(v) > 0)
                vs.append(need(v))
                if is_sym(v, "False" if isinstance(node.op, ast.And) else "True"):
                    break          # Python does not evaluate the operands after the one that decides
            return b_and(vs) if isinstance(node.op, ast.And) else b_or(vs)
        if isinstance(node, ast.IfExp):
            cv = self._ev(node.test)
            c = self.truth(cv)
            self.sh.tests.append((cv, c, node, tuple(self.sh.loop_stack)))
            if c is True:
                return self._ev(node.body)
            if c is False:
                return self._ev(node.orelse)
            a, b = self._ev(node.body), self._ev(node.orelse)
            return self.ite(cv, a, b)
        if isinstance(node, ast.Subscript):
            base = self._ev(node.value)
            if is_unknown(base):
                return base
            if isinstance(base, DictValue):
                if isinstance(node.slice, ast.Constant) and node.slice.value in base.d:
                    return base.d[node.slice.value]
                return Unknown("key not in the literal table")
            if is_sym(base, "np.r_") or is_sym(base, "numpy.r_"):
                # np.r_[a, B, ...] of scalars and 1-D arrays: their concatenation (no slice / string directives)
                elts = node.slice.elts if isinstance(node.slice, ast.Tuple) else [node.slice]
                if any(isinstance(e, (ast.Slice, ast.Starred)) or (isinstance(e, ast.Constant) and isinstance(e.value, str)) for e in elts):
                    return Unknown("np.r_ with a slice or a directive")
                return self.np_call("np.hstack", [PyTuple(self.ev(e) for e in elts)], {}, node)
            ix = self.index_value(node.slice)
            return self.mk_idx(base, ix)
        if isinstance(node, ast.Call):
            return self.call(node)
        if isinstance(node, (ast.Tuple, ast.List)):
            out = []
            for e in node.elts:
                if isinstance(e, ast.Starred):
                    v = self._ev(e.value)
                    if isinstance(v, tuple):
                        out.extend(v)
                    elif len(node.elts) == 1:
                        return v            # [*x] / (*x,): the sequence x itself
                    elif self._shape_seq(v) and e is node.elts[0] and not any(isinstance(x, ast.Starred) for x in node.elts[1:]):
                        rest = PyTuple(self.ev(x) for x in node.elts[1:])          # (*shape[:-1], n)  =  shape[:-1] + [n]
                        try:
                            return F.fn("seqcat", as_rat(v), as_rat(rest))
                        except Unsupported as ex:
                            return Unknown(str(ex))
                    else:
                        return Unknown("starred element of unknown length")
                else:
                    out.append(self.ev(e))
            return PyTuple(out)
        if isinstance(node, (ast.GeneratorExp, ast.ListComp)) and len(node.generators) == 1 and node.generators[0].ifs:
            # [e for x in literal sequence if cond]: element by element, every condition decided
            g = node.generators[0]
            seq = self._ev(g.iter)
            if not (isinstance(seq, tuple) and len(seq) <= 16):
                return Unknown("comprehension with a condition over a computed sequence")
            out = []
            saved = dict(self.env)
            try:
                for x in seq:
                    self.assign(g.target, x, node)
                    keep = True
                    for c_ in g.ifs:
                        t_ = self.truth(self.ev(c_))
                        if t_ is None:
                            return Unknown(f"comprehension condition {ast.unparse(c_)} is not decided")
                        if not t_:
                            keep = False
                            break
                    if keep:
                        out.append(self.ev(node.elt))
            finally:
                self.env = saved
            return PyTuple(out)
        if isinstance(node, (ast.GeneratorExp, ast.ListComp)) and len(node.generators) == 1 and not node.generators[0].ifs:
            g = node.generators[0]
            seq = self._ev(g.iter)
            if isinstance(seq, tuple) and len(seq) <= 16:
                out = []
                saved = dict(self.env)
                for x in seq:
                    self.assign(g.target, x, node)
                    out.append(self.ev(node.elt))
                self.env = saved
                return PyTuple(out)
            # a computed sequence: the element expression once, for a generic element (counter k in [0, N))
            sh = self.sh
            sh.nloop += 1
            kname = f"@k{sh.nloop}"
            sh.index_syms.add(kname)
            k = F.sym(kname)
            elem, n = self._elem(g.iter, k)
            if n is None or n == "unroll" or is_unknown(elem):
                return Unknown("comprehension over a sequence that is not understood")
            saved = dict(self.env)
            self.assign(g.target, elem, node)
            rec = LoopRec(k, n, node, tuple(sh.loop_stack))
            sh.loops.append(rec)
            sh.loop_stack.append(rec)
            v = self.ev(node.elt)
            sh.loop_stack.pop()
            self.env = saved
            if is_unknown(v):
                return v
            try:
                return F.fn("comp", k, as_rat(n), as_rat(v))
            except Unsupported as e:
                return Unknown(str(e))
        if isinstance(node, ast.Dict) and all(isinstance(k, ast.Constant) for k in node.keys):
            return DictValue({k.value: self.ev(v) for k, v in zip(node.keys, node.values)})
        if isinstance(node, ast.NamedExpr):
            v = self._ev(node.value)
            self.assign(node.target, v, node)
            return v
        if isinstance(node, ast.JoinedStr):
            return F.sym("<fstring>")
        if isinstance(node, ast.Starred):
            return self._ev(node.value)
        if isinstance(node, ast.Lambda):
            return Closure(self._lambda_def(node, "<lambda>"), self.env)
        return Unknown(f"node {type(node).__name__}")

    def ite(self, c, a, b):
        if eq(a, b):
            return a
        if is_unknown(a) or is_unknown(b) or is_unknown(c):
            return next(x for x in (c, a, b) if is_unknown(x))
        if isinstance(a, tuple) and isinstance(b, tuple) and len(a) == len(b):
            return PyTuple(self.ite(c, x, y) for x, y in zip(a, b))
        try:
            return F.fn("ite", need(c), as_rat(a), as_rat(b))
        except Unsupported as e:
            return Unknown(str(e))

    def binop(self, op, a, b, node=None):
        if is_unknown(a):
            return a
        if is_unknown(b):
            return b
        if isinstance(a, tuple) and isinstance(b, tuple) and isinstance(op, ast.Add):
            return PyTuple(tuple(a) + tuple(b))
        if isinstance(a, tuple) and isinstance(op, ast.Mult) and int_of(b) is not None:
            return PyTuple(tuple(a) * int_of(b))
        if isinstance(a, PyTuple) and isinstance(op, ast.Mult) and israt(b):
            try:
                return F.fn("seqrep", as_rat(a), b)          # [x] * n for a computed n
            except Unsupported as ex:
                return Unknown(str(ex))
        if isinstance(op, ast.Add) and israt(a) and un(a, "seqrep") is not None and isinstance(b, PyTuple):
            try:
                return F.fn("seqcat", a, as_rat(b))          # [x] * n + [y]
            except Unsupported as ex:
                return Unknown(str(ex))
        if isinstance(op, ast.Add) and ((isinstance(a, PyTuple) and self._shape_seq(b)) or (isinstance(b, PyTuple) and self._shape_seq(a))):
            return F.fn("seqcat", as_rat(a), as_rat(b))          # list(shape)[:-1] + [n]
        if isinstance(a, (tuple, DictValue)) or isinstance(b, (tuple, DictValue)):
            return Unknown("arithmetic on a tuple")
        a, b = need(a), need(b)
        if isinstance(op, (ast.BitAnd, ast.BitOr)):
            return b_and([a, b]) if isinstance(op, ast.BitAnd) else b_or([a, b])
        if isinstance(op, (ast.Add, ast.Sub, ast.Mult)):
            a, b = [F.const(1 if is_sym(x, "True") else 0) if (is_sym(x, "True") or is_sym(x, "False")) else x for x in (a, b)]          # True == 1
        if isinstance(op, ast.FloorDiv):
            return self.floordiv(a, b)
        if isinstance(op, (ast.LShift, ast.RShift)) and int_of(b) is not None and 0 <= int_of(b) <= 62:
            # integer shifts by a constant:  x << k = x * 2**k,  x >> k = x // 2**k
            return a * F.const(2 ** int_of(b)) if isinstance(op, ast.LShift) else self.floordiv(a, F.const(2 ** int_of(b)))
        if self.sh.binop is not None and node is not None:
            r = self.sh.binop(node, a, b, self)
            if r is not NotImplemented:
                return r
        try:
            if isinstance(op, ast.Add):
                return a + b
            if isinstance(op, ast.Sub):
                return a - b
            if isinstance(op, (ast.Mult, ast.MatMult)):
                return a * b
            if isinstance(op, ast.Div):
                if b.is_zero():
                    return Unknown("division by zero")
                return a / b
            if isinstance(op, ast.Pow):
                k = int_of(b)
                if k is not None:
                    return a ** k
                return F.fn("pow", a, b)
            if isinstance(op, ast.Mod):
                return F.fn("mod", a, b)
        except Unsupported as e:
            return Unknown(str(e))
        return Unknown(f"operator {type(op).__name__}")

    def _shape_tuple(self, v):
        """X.shape / X.shape[i:j] as a Python tuple of its elements when the number of dimensions of X is known (else v itself)"""
        sl = [None, None, None]
        base = v
        inner = un(v, "idx")
        if inner is not None:
            base, sl = inner[0], unslice(inner[1])
            if sl is None:
                return v
        shp = un(base, "attr:shape")
        r = self.rank(shp[0]) if shp is not None else None
        if r is None:
            return v
        b = [None if x is None else int_of(x) for x in sl]
        if any(x is not None and y is None for x, y in zip(sl, b)):
            return v
        return PyTuple([self.mk_idx(base, F.const(k)) for k in range(r)][slice(*b)])

    @staticmethod
    def _shape_seq(v):
        """a value that is (a slice of / an edited copy of) an array's shape: a Python sequence, not an array"""
        while israt(v):
            if un(v, "attr:shape") is not None:
                return True
            a = un(v, "idx") or un(v, "store") or un(v, "seqcat")
            if a is None:
                return False
            v = a[0]
        return False

    def floordiv(self, a, b):
        """a // b on integer-valued quantities: exact when the quotient is a polynomial with integer coefficients"""
        if b.is_zero():
            return Unknown("division by zero")
        try:
            r = a / b
            if r.d.is_const():
                sc = 1 / r.d.const_value()
                if all((c * sc).denominator == 1 for c in r.n.t.values()):
                    return r
        except Unsupported:
            pass
        try:
            # (x + b - 1) // b = ceil(x / b) for integers x and b > 0 (the ceiling-division idiom): the same value as math.ceil(x / b) and -(-x // b)
            x = a - b + 1
            if israt(x) and len(x.n.t) < len(a.n.t) and self.integral(x) and self.integral(b) and V(self.sh.scratch()).truth(lt0(-b)) is True:
                return -F.fn("floor", -x / b)
        except Unsupported:
            pass
        try:
            return F.fn("floor", a / b)          # a // b = floor(a / b);  ceil(x) = -floor(-x): `-(-a // b)` and `ceil(a / b)` are one value
        except Unsupported:
            return F.fn("floordiv", a, b)

    def integral(self, v):
        """integer-valued by construction: integer combinations of floor(...) atoms, loop counters and integers"""
        if not israt(v) or not v.d.is_const():
            return False
        sc = 1 / v.d.const_value()
        for m, c in v.n.t.items():
            if (c * sc).denominator != 1:
                return False
            for a, _e in m:
                d = F.atom_desc(a)
                if (d[0] == "s" and d[1] in self.sh.index_syms) or (d[0] == "fn" and d[1] in ("floor", "len", "attr:size", "attr:ndim")):
                    continue
                if d[0] == "fn" and d[1] == "idx" and not isinstance(d[2][0], str):
                    base_ = F.Rat(F._poly_from_key(d[2][0][1]), F._poly_from_key(d[2][0][2]))
                    ix_ = F.Rat(F._poly_from_key(d[2][1][1]), F._poly_from_key(d[2][1][2]))
                    if un(base_, "attr:shape") is not None and int_of(ix_) is not None:
                        continue          # an extent of an array
                return False
        return True

    def compare(self, node):
        vals = [self._ev(node.left)] + [self._ev(c) for c in node.comparators]
        for v in vals:
            if is_unknown(v):
                return v
        out = []
        for (a, op, b) in zip(vals, node.ops, vals[1:]):
            out.append(self.cmp1(a, op, b))
            if is_unknown(out[-1]):
                return out[-1]
        return b_and(out)

    def cmp1(self, a, op, b):
        if isinstance(op, (ast.In, ast.NotIn)):
            if isinstance(b, tuple) and israt(a):
                r = b_or([eq0(a, need(x)) for x in b])
                return r if isinstance(op, ast.In) else b_not(r)
            if isinstance(b, DictValue) and _strsym(a):
                return b_const((ast.literal_eval(_strsym(a)) in b.d) == isinstance(op, ast.In))
            try:
                r = F.fn("in", as_rat(a), as_rat(b))
            except Unsupported as e:
                return Unknown(str(e))
            return r if isinstance(op, ast.In) else b_not(r)
        if isinstance(a, tuple) or isinstance(b, tuple) or isinstance(a, DictValue) or isinstance(b, DictValue):
            if isinstance(op, (ast.Eq, ast.NotEq)):
                # X.shape[i:j] == (m, n): element-wise, when the number of dimensions of X is known
                a = self._shape_tuple(a) if israt(a) else a
                b = self._shape_tuple(b) if israt(b) else b
            if isinstance(a, tuple) and isinstance(b, tuple) and isinstance(op, (ast.Eq, ast.NotEq)):
                if len(a) != len(b):
                    return b_const(isinstance(op, ast.NotEq))
                if all(israt(x) for x in tuple(a) + tuple(b)):
                    r = b_and([eq0(x, y) for x, y in zip(a, b)])
                    return r if isinstance(op, ast.Eq) else b_not(r)
            return Unknown("comparison of tuples")
        a, b = need(a), need(b)
        if isinstance(op, (ast.Is, ast.IsNot)):
            if eq(a, b):
                r = TRUE
            elif (_strsym(a) in ("None", "True", "False") or const_of(a) is not None) and (_strsym(b) in ("None", "True", "False") or const_of(b) is not None):
                r = FALSE
            else:
                x, y = (a, b) if fkey(a) <= fkey(b) else (b, a)
                r = F.fn("is", x, y)
            return r if isinstance(op, ast.Is) else b_not(r)
        # |x| < c  /  |x| <= c  (c on either side): a window, the same value as  -c < x < c
        for (l, r_, flip) in ((a, b, False), (b, a, True)):
            ab = un(l, "abs")
            if ab is not None and isinstance(op, (ast.Lt, ast.LtE) if not flip else (ast.Gt, ast.GtE)):
                f = lt0 if isinstance(op, (ast.Lt, ast.Gt)) else le0
                return b_and([f(ab[0] - r_), f(-ab[0] - r_)])
            if ab is not None and isinstance(op, (ast.Gt, ast.GtE) if not flip else (ast.Lt, ast.LtE)):
                f = lt0 if isinstance(op, (ast.Lt, ast.Gt)) else le0
                return b_or([f(r_ - ab[0]), f(r_ + ab[0])])
        if isinstance(op, ast.Lt):
            return lt0(a - b)
        if isinstance(op, ast.Gt):
            return lt0(b - a)
        if isinstance(op, ast.LtE):
            return le0(a - b)
        if isinstance(op, ast.GtE):
            return le0(b - a)
        if isinstance(op, ast.Eq):
            return eq0(a, b)
        if isinstance(op, ast.NotEq):
            return b_not(eq0(a, b))
        return Unknown("comparison operator")

    # ---- calls
    def _args(self, node):
        pos, kw = [], {}
        for a in node.args:
            if isinstance(a, ast.Starred):
                v = self.ev(a.value)
                if isinstance(v, tuple):
                    pos.extend(v)
                else:
                    return None, None, Unknown("*args of unknown length")
            else:
                pos.append(self.ev(a))
        for k in node.keywords:
            v = self.ev(k.value)
            if k.arg is None:
                if isinstance(v, DictValue) and all(isinstance(x, str) for x in v.d):
                    kw.update(v.d)
                else:
                    return None, None, Unknown("**kwargs of a computed mapping")
            else:
                kw[k.arg] = v
        return pos, kw, None

    def call(self, node):
        if self.sh.call is not None:
            r = self.sh.call(node, self)
            if r is not NotImplemented:
                return r
        f = node.func
        name = dotted(f)
        callee = None
        if isinstance(f, ast.Lambda):
            # (lambda args: expr)(values): a local function with one return, applied on the spot
            r = self.inline_call(node, self._lambda_def(f, "<lambda>"), self.env)
            return r if r is not NotImplemented else Unknown("lambda applied with arguments that cannot be placed")
        if isinstance(f, ast.Attribute) and f.attr in ("append", "extend") and isinstance(f.value, ast.Name) and isinstance(self.env.get(f.value.id), PyTuple) \
                and len(node.args) == 1 and not node.keywords and not isinstance(node.args[0], ast.Starred):
            # a list local built up with append / extend
            v = self.ev(node.args[0])
            if f.attr == "extend" and not isinstance(v, tuple):
                self.env[f.value.id] = Unknown("list extended by a computed sequence")
            else:
                self.env[f.value.id] = PyTuple(tuple(self.env[f.value.id]) + (tuple(v) if f.attr == "extend" else (v,)))
            return NONE
        if name is not None and name in self.sh.namedtuples and self.lookup(name) is None:
            pos, kw, err = self._args(node)
            if err is not None:
                return err
            fields = self.sh.namedtuples[name]
            if len(pos) > len(fields) or set(kw) - set(fields[len(pos):]) or len(pos) + len(kw) != len(fields):
                return Unknown(f"arguments of the namedtuple {name}")
            return NamedTuple.make(fields, list(pos) + [kw[f_] for f_ in fields[len(pos):]])
        if name is not None:
            root = name.split(".")[0]
            bound = self.lookup(root)
            if "." not in name:
                target = name
                if bound is not None and name not in self.local_funcs and _strsym(bound) in self.sh.inline and self.lookup(_strsym(bound)) is None:
                    target, bound = _strsym(bound), None          # a local that holds a function of the module: finder = _find_x ; finder(a, b)
                if target in self.local_funcs or (bound is None and target in self.sh.inline):
                    fn_, outer = self.local_funcs.get(target, (self.sh.inline.get(target), None))
                    r = self.inline_call(node, fn_, outer)
                    if r is not NotImplemented and self.sh.on_unknown is not None and outer is None and _has_unknown(r):
                        r2 = self.sh.on_unknown(node, self)          # a helper that cannot be followed cleanly: the rule may name its result instead
                        if r2 is not NotImplemented:
                            return r2
                    if r is not NotImplemented:
                        return r
                    if target != name:
                        name = target
                pn = self.sh.consts.get(name) if bound is None else None
                if isinstance(pn, ast.Call) and dotted(pn.func) in ("partial", "functools.partial") and self.lookup(dotted(pn.args[0]).split(".")[0]) is None:
                    # NAME = partial(f, a..., k=v...) at module level:  NAME(x..., j=w...) = f(a..., x..., k=v..., j=w...)
                    return self.call(ast.copy_location(ast.Call(func=pn.args[0], args=list(pn.args[1:]) + list(node.args), keywords=list(pn.keywords) + list(node.keywords)), node))
                if isinstance(bound, Closure):
                    r = self.inline_call(node, bound.fd, bound.env)
                    return r if r is not NotImplemented else Unknown("lambda applied with arguments that cannot be placed")
                if bound is not None and not is_unknown(bound) and israt(bound):
                    nm_ = _strsym(bound)
                    if nm_ and "." in nm_ and nm_.split(".")[0] in self.sh.modnames and self.lookup(nm_.split(".")[0]) is None:
                        pos, kw, err = self._args(node)          # a local that holds a library routine: scale = np.log ; scale(x)
                        return err if err is not None else self.np_call(nm_, pos, kw, node)
                if bound is not None:
                    pa = un(bound, "call:partial") or un(bound, "call:functools.partial")
                    f0 = _strsym(pa[0]) if pa else None
                    if f0 and self.lookup(f0.split(".")[0]) is None:
                        # a local bound to partial(f, ...): applied by value
                        pos, kw, err = self._args(node)
                        if err is not None:
                            return err
                        ppos, pkw = call_args(pa[1:])
                        pkw = dict(pkw)
                        pkw.update(kw)
                        return self.np_call(f0, list(ppos) + pos, pkw, node)
                    callee, name = bound, None
            elif bound is not None or root not in self.sh.modnames:
                # a method of a value
                recv = self._ev(f.value)
                return self.method(recv, f.attr, node)
        elif isinstance(f, ast.Attribute):
            recv = self._ev(f.value)
            return self.method(recv, f.attr, node)
        else:
            callee = self._ev(f)
        pos, kw, err = self._args(node)
        if err is not None:
            return err
        if callee is not None:
            if isinstance(callee, Closure):
                r = self.inline_call(node, callee.fd, callee.env)
                return r if r is not NotImplemented else Unknown("lambda applied with arguments that cannot be placed")
            if is_unknown(callee):
                return callee
            nm_ = _strsym(callee)
            if nm_ and nm_[:1] not in "'\"@" and self.lookup(nm_.split(".")[0]) is None:
                # the callee is a value that names a function: a function of the module (followed), or a library routine (np.log held in a local)
                if "." not in nm_ and (nm_ in self.local_funcs or nm_ in self.sh.inline):
                    fn_, outer = self.local_funcs.get(nm_, (self.sh.inline.get(nm_), None))
                    r = self.inline_call(node, fn_, outer)
                    if r is not NotImplemented:
                        return r
                elif nm_.split(".")[0] in self.sh.modnames:
                    return self.np_call(nm_, pos, kw, node)
            return self.record("<apply>", pos, kw, node, callee)
        outk = next((k for k in node.keywords if k.arg == "out"), None)
        if outk is None and name is not None and name.split(".")[0] in ("np", "numpy") and "where" in kw and not is_sym(kw["where"], "True") and name.rsplit(".", 1)[-1] != "where":
            return Unknown(f"{name} with where= and no out=: the other elements are not initialised")
        if outk is not None and name is not None and name.split(".")[0] in ("np", "numpy") and isinstance(outk.value, (ast.Name, ast.Subscript)):
            # np.f(a, b, out=X): X receives the result (in place) and is the value of the call
            kw = {k: v for k, v in kw.items() if k != "out"}
            m_ = kw.pop("where", None)
            if m_ is not None and not is_sym(m_, "True"):
                # ufunc(x..., out=X, where=m):  X[m] = ufunc(x[m]...) , the other elements of X keep their value
                short = name[3:] if name.startswith("np.") else name[6:]
                if not (("np." + short) in UNARY_FUNCS or short in ("add", "subtract", "multiply", "divide", "true_divide", "negative", "abs", "absolute", "maximum", "minimum", "power")) \
                        or not all(israt(x) for x in pos) or not israt(m_) or kw:
                    val = Unknown(f"{name} with where= is not modelled")
                else:
                    import copy
                    ld = copy.copy(outk.value)
                    ld.ctx = ast.Load()
                    cur = self.ev(ld)
                    args_ = [x if (const_of(x) is not None or self.rank(x) == 0) else self.mk_idx(x, m_) for x in pos]
                    inner = self.np_call(name, args_, {}, node)
                    val = self.mk_store(cur, m_, inner) if not (is_unknown(cur) or is_unknown(inner)) else (cur if is_unknown(cur) else inner)
                    if isinstance(outk.value, ast.Name):
                        self.env[outk.value.id] = val
                        self.mutated.add(outk.value.id)
                        self.sh.cells.append(CellRec(cur, m_, inner, val, node, tuple(self.sh.loop_stack)))
                        return val
            else:
                val = self.np_call(name, pos, kw, node)
            self.assign(outk.value, val, node)
            if isinstance(outk.value, ast.Name):
                self.mutated.add(outk.value.id)
            return val
        return self.np_call(name, pos, kw, node)

    def method(self, recv, attr, node):
        if is_unknown(recv):
            return recv
        pos, kw, err = self._args(node)
        if err is not None:
            return err
        if isinstance(recv, DictValue) and attr in ("values", "keys", "items") and not pos and not kw:
            if attr == "values":
                return PyTuple(recv.d.values())
            if attr == "keys":
                return PyTuple(F.sym(repr(k_)) if isinstance(k_, str) else F.const(k_) for k_ in recv.d)
            return PyTuple(PyTuple((F.sym(repr(k_)) if isinstance(k_, str) else F.const(k_), v_)) for k_, v_ in recv.d.items())
        if isinstance(recv, (tuple, DictValue)):
            return Unknown(f"method {attr} of a tuple")
        if attr in IDENT_METHODS:
            return recv
        if attr in NP_METHODS:
            return self.np_call("np." + attr, [recv] + pos, kw, node)
        val = self.record("." + attr, [recv] + pos, kw, node, None)
        f_ = node.func
        if isinstance(f_, ast.Attribute) and isinstance(f_.value, ast.Name) and f_.value.id in self.env and attr not in PURE_METHODS:
            # a method the engine does not know may change its object in place (fill, sort, put, resize ...): nothing that may write is skipped
            z = next((un(recv, k0) for k0 in ("zeros", "empty", "ones") if un(recv, k0) is not None), None)
            if attr == "fill" and len(pos) == 1 and not kw and z is not None and israt(pos[0]) and const_of(pos[0]) in (0, 1):
                self.env[f_.value.id] = F.fn("zeros" if const_of(pos[0]) == 0 else "ones", z[0])          # buffer.fill(0) on a fresh buffer
            else:
                self.env[f_.value.id] = Unknown(f"possibly changed in place by .{attr}()")
            self.mutated.add(f_.value.id)
        return val

    def np_call(self, name, pos, kw, node):
        """numpy / builtin spellings with one meaning get one value"""
        if name.startswith("numpy."):
            name = "np." + name[6:]
        for v in list(pos) + list(kw.values()):
            if is_unknown(v):
                return v
        n = len(pos)
        if name in UNARY_FUNCS and n == 1 and not kw and israt(pos[0]):
            try:
                return UNARY_FUNCS[name](pos[0])
            except Unsupported:
                pass
        if name in IDENT_CALLS and n >= 1:
            return pos[0]
        if name in ("abs", "np.abs", "np.absolute", "np.fabs", "math.fabs") and n == 1 and not kw and israt(pos[0]):
            c = const_of(pos[0])
            return F.const(abs(c)) if c is not None else F.fn("abs", pos[0])
        if name == "dict" and not pos:
            return DictValue(dict(kw))
        if name == "np.take" and n >= 2 and israt(pos[0]) and israt(pos[1]) and set(kw) <= {"axis"} and n <= 3:
            ax = kw.get("axis", pos[2] if n == 3 else None)
            if ax is None or is_sym(ax, "None") or int_of(ax) == 0:
                return self.mk_idx(pos[0], pos[1])          # take(a, i) / take(a, i, axis=0) = a[i]  (axis None: for the 1-D arrays this is used on)
        if name == "slice" and 1 <= n <= 3 and not kw and all(israt(x) for x in pos):
            lo, hi, st = (None, pos[0], None) if n == 1 else (pos[0], pos[1], pos[2] if n == 3 else None)
            parts = [None if x is None or is_sym(x, "None") else x for x in (lo, hi, st)]
            for x in parts:
                if x is not None:
                    self.sh.scalar_uses.add(fkey(x))
            return mk_slice(*parts)          # the slice object slice(a, b) is the index a:b
        if name == "len" and n == 1:
            if isinstance(pos[0], tuple):
                return F.const(len(pos[0]))
            if isinstance(pos[0], DictValue):
                return F.const(len(pos[0].d))
            tr_ = un(pos[0], "call:np.transpose") if israt(pos[0]) else None
            if tr_ is not None and len(tr_) == 1 and self.rank(tr_[0]) == 2:
                return self.mk_idx(F.fn("attr:shape", tr_[0]), F.const(1))          # len(X.T) = X.shape[1] for a matrix
            inner = un(pos[0], "idx")
            if inner is not None and len(ix_parts(inner[1])) == 1 and self.intlike(inner[1]):
                return self.mk_idx(F.fn("attr:shape", inner[0]), F.const(1))      # the length of a row of a 2-D array
            sl = unslice(inner[1]) if inner is not None else None
            if sl is not None and sl[2] is None:
                # len(X[a:b]) = b - a, negative constants counted from the end (the slice is taken not to be empty)
                n0 = F.fn("len", inner[0])
                lo, hi = sl[0], sl[1]
                lo = F.const(0) if lo is None else (n0 + lo if const_of(lo) is not None and const_of(lo) < 0 else lo)
                hi = n0 if hi is None else (n0 + hi if const_of(hi) is not None and const_of(hi) < 0 else hi)
                return hi - lo
            return F.fn("len", as_rat(pos[0]))
        if name in ("np.isclose", "np.allclose", "math.isclose") and 2 <= n <= 4 and all(israt(x) for x in list(pos) + list(kw.values())):
            # the documented tests:  |a - b| <= atol + rtol |b|   (numpy, rtol = 1e-5, atol = 1e-8)
            #                        |a - b| <= max(rel_tol max(|a|, |b|), abs_tol)   (math, rel_tol = 1e-9, abs_tol = 0)
            ab = lambda x: self.np_call("abs", [x], {}, node)      # noqa
            if name.startswith("np."):
                a_ = dict(zip(("rtol", "atol"), pos[2:]))
                a_.update(kw)
                if set(a_) <= {"rtol", "atol"}:
                    tol = a_.get("atol", F.const(Fraction("1e-8"))) + a_.get("rtol", F.const(Fraction("1e-5"))) * ab(pos[1])
                    d_ = pos[0] - pos[1]
                    return b_and([le0(d_ - tol), le0(-d_ - tol)])
            elif n == 2 and set(kw) <= {"rel_tol", "abs_tol"}:
                tol = self.extremum("max", [kw.get("rel_tol", F.const(Fraction("1e-9"))) * self.extremum("max", [ab(pos[0]), ab(pos[1])]), kw.get("abs_tol", F.const(0))])
                d_ = pos[0] - pos[1]
                return b_and([le0(d_ - tol), le0(-d_ - tol)])
        if name in ("np.logical_and", "np.logical_or") and n == 2 and not kw and all(israt(x) for x in pos):
            return b_and(pos) if name.endswith("and") else b_or(pos)
        if name == "np.logical_not" and n == 1 and not kw and israt(pos[0]):
            return b_not(pos[0])
        if name in ("np.add", "np.subtract", "np.multiply", "np.divide", "np.true_divide", "np.power", "np.floor_divide") and n == 2 and not kw:
            op = {"add": ast.Add, "subtract": ast.Sub, "multiply": ast.Mult, "divide": ast.Div, "true_divide": ast.Div, "power": ast.Pow,
                  "floor_divide": ast.FloorDiv}[name[3:]]()
            return self.binop(op, pos[0], pos[1])
        if name == "np.negative" and n == 1 and not kw and israt(pos[0]):
            return -pos[0]
        if name in ("max", "min", "np.maximum", "np.minimum", "np.fmax", "np.fmin") and n >= 2 and not kw and all(israt(x) for x in pos):
            return self.extremum("max" if "max" in name else "min", pos)
        if name == "np.clip" and 1 <= n <= 3 and israt(pos[0]) and set(kw) <= {"a_min", "a_max", "min", "max"}:
            lo_ = pos[1] if n >= 2 else kw.get("a_min", kw.get("min", NONE))
            hi_ = pos[2] if n >= 3 else kw.get("a_max", kw.get("max", NONE))
            if israt(lo_) and israt(hi_) and not (n >= 2 and ("a_min" in kw or "min" in kw)) and not (n >= 3 and ("a_max" in kw or "max" in kw)):
                v = pos[0]
                if not is_sym(lo_, "None"):
                    v = self.extremum("max", [v, lo_])
                if not is_sym(hi_, "None"):
                    v = self.extremum("min", [v, hi_])
                return v
        if name == "np.where" and n == 3 and not kw:
            c = V(self.sh.scratch()).truth(pos[0]) if self.sh.elementwise_where else self.truth(pos[0])          # (scratch: facts only, no oracle)
            self.sh.tests.append((pos[0], c, node, tuple(self.sh.loop_stack)))
            if c is not None:
                return pos[1] if c else pos[2]
            return self.ite(pos[0], pos[1], pos[2])
        if name == "int" and n == 1 and israt(pos[0]):
            if int_of(pos[0]) is not None or self.integral(pos[0]):
                return pos[0]
            return F.fn("int", pos[0])
        if name in ("math.ceil", "math.floor", "np.ceil", "np.floor") and n == 1 and not kw and israt(pos[0]):
            if self.integral(pos[0]):
                return pos[0]
            return F.fn("floor", pos[0]) if name.endswith("floor") else -F.fn("floor", -pos[0])
        if name == "np.arange" and "dtype" in kw and (is_sym(kw["dtype"], "float") or is_sym(kw["dtype"], "np.float64") or is_sym(kw["dtype"], "'float64'") or is_sym(kw["dtype"], "'float'")):
            kw = {k: v for k, v in kw.items() if k != "dtype"}          # (the counts as floats: the same numbers)
        if name == "np.arange" and n == 3 and not kw and israt(pos[2]) and eq(pos[2], F.const(1)):
            return self.np_call(name, pos[:2], kw, node)
        if name == "np.arange" and n == 2 and not kw and israt(pos[0]) and pos[0].is_zero():
            return self.np_call(name, pos[1:], kw, node)
        if name in ("np.add.reduce", "np.add.accumulate") and n >= 1 and ("axis" in kw or n >= 2) and set(kw) <= {"axis"}:
            return self.np_call("np.sum" if name.endswith("reduce") else "np.cumsum", pos, kw, node)          # (the ufunc methods np.sum / np.cumsum call; the default axis differs)
        if name in ("np.logical_and.reduce", "np.logical_or.reduce") and n == 1 and not kw and isinstance(pos[0], tuple) and all(israt(x) for x in pos[0]):
            return b_and(list(pos[0])) if "and" in name else b_or(list(pos[0]))
        if name == "np.pad" and n == 2 and israt(pos[0]) and (not kw or (set(kw) <= {"mode", "constant_values"} and is_sym(kw.get("mode", F.sym("'constant'")), "'constant'")
                                                                 and const_of(kw.get("constant_values", F.const(0))) == 0)):
            # np.pad(x, pad_width): zeros before / after along the LAST axis only ((0, 0) for every other axis), as the concatenation it equals
            pw, last = pos[1], None
            zero_pair = lambda t_: isinstance(t_, tuple) and len(t_) == 2 and all(israt(y) and const_of(y) == 0 for y in t_)      # noqa
            if isinstance(pw, PyTuple) and pw and all(isinstance(t_, tuple) and len(t_) == 2 for t_ in pw) and all(zero_pair(t_) for t_ in pw[:-1]):
                last = pw[-1]
            elif israt(pw):
                sc = un(pw, "seqcat")
                rep = un(sc[0], "seqrep") if sc is not None else None
                it_, tl_ = (un(rep[0], "tuple") if rep is not None else None), (un(sc[1], "tuple") if sc is not None else None)
                if it_ is not None and tl_ is not None and len(it_) == 1 and len(tl_) == 1:
                    z_, l_ = un(it_[0], "tuple"), un(tl_[0], "tuple")
                    if z_ is not None and l_ is not None and len(z_) == 2 and len(l_) == 2 and all(const_of(y) == 0 for y in z_):
                        last = PyTuple(l_)
            if last is not None and all(israt(y) for y in last):
                blk = lambda n_: F.fn("zeros", F.fn("tuple", ELL, n_))      # noqa  (a block of zeros with n_ samples along the last axis)
                val = F.fn("cat", F.const(-1), blk(last[0]), pos[0], blk(last[1]))
                self._rec("np.concatenate", [PyTuple((blk(last[0]), pos[0], blk(last[1])))], {"axis": F.const(-1)}, node, val, None)
                return val
            return Unknown("np.pad with a pad width that is not understood")
        if name == "np.insert" and n == 3 and set(kw) <= {"axis"} and all(israt(x) for x in pos) and int_of(pos[1]) == 0 and const_of(pos[2]) is not None:
            # np.insert(X, 0, c, axis=0): a row of the constant c (1-D: one element) in front of X
            r_ = self.rank(pos[0])
            ax = kw.get("axis")
            if r_ == 2 and ax is not None and int_of(ax) == 0:
                ncol = self.mk_idx(F.fn("attr:shape", pos[0]), F.const(1))
                row = self.np_call("np.zeros", [PyTuple((F.const(1), ncol))], {}, node) if const_of(pos[2]) == 0 else pos[2] * self.np_call("np.ones", [PyTuple((F.const(1), ncol))], {}, node)
                return self.np_call("np.vstack", [PyTuple((row, pos[0]))], {}, node)
            if r_ == 1 and (ax is None or int_of(ax) == 0):
                return self.np_call("np.hstack", [PyTuple((pos[2], pos[0]))], {}, node)
        if name == "np.append" and n == 2 and set(kw) == {"axis"} and all(israt(x) for x in pos):
            return self.np_call("np.concatenate", [PyTuple(pos)], kw, node)          # np.append(a, b, axis=k) with an axis is the concatenation
        if self.sh.concrete and name in ("np.zeros", "np.ones", "np.empty") and n >= 1 and int_of(pos[0]) is not None and 0 <= int_of(pos[0]) <= 64:
            return PyTuple([F.const(1 if name == "np.ones" else 0)] * int_of(pos[0]))          # a 1-D array of known length, element by element
        if self.sh.concrete and name in ("np.zeros_like", "np.ones_like", "np.empty_like", "np.full_like") and n >= 1 and isinstance(pos[0], PyTuple):
            fill = F.const(1) if name == "np.ones_like" else (pos[1] if name == "np.full_like" and n >= 2 else kw.get("fill_value", F.const(0)))
            return PyTuple([fill] * len(pos[0]))
        if self.sh.concrete and name == "np.full" and n >= 2 and int_of(pos[0]) is not None and 0 <= int_of(pos[0]) <= 64:
            return PyTuple([pos[1]] * int_of(pos[0]))
        if self.sh.concrete and name in ("np.zeros", "np.ones", "np.empty") and n >= 1 and isinstance(pos[0], PyTuple) and len(pos[0]) == 1 and int_of(pos[0][0]) is not None \
                and 0 <= int_of(pos[0][0]) <= 64:
            return PyTuple([F.const(1 if name == "np.ones" else 0)] * int_of(pos[0][0]))          # np.zeros((n,)) / np.zeros(x.shape)
        if name == "np.full" and n == 2 and set(kw) <= {"dtype"} and israt(pos[1]) and const_of(pos[1]) in (0, 1):
            return self.np_call("np.zeros" if const_of(pos[1]) == 0 else "np.ones", [pos[0]], {}, node)
        if name in ("np.zeros", "np.ones", "np.empty") and (n >= 1 or "shape" in kw):
            return F.fn(name[3:], as_rat(pos[0] if n else kw["shape"]))
        if name in ("np.zeros_like", "np.ones_like", "np.empty_like") and n >= 1 and israt(pos[0]):
            kind = name[3:-5]
            if kw.get("shape") is not None:
                return F.fn(kind, as_rat(kw["shape"]))          # np.zeros_like(X, shape=s): only dtype / order are taken from X
            for k0 in ("zeros", "ones", "empty"):
                a = un(pos[0], k0)
                if a is not None:
                    return F.fn(kind, a[0])
            return F.fn(kind + "_like", pos[0])
        if name in ("np.hstack", "np.vstack", "np.concatenate", "np.row_stack") and n >= 1 and isinstance(pos[0], tuple):
            axis = kw.get("axis", pos[1] if n > 1 else F.const(0))
            parts = []
            for p_ in pos[0]:
                if isinstance(p_, tuple):
                    parts.extend(p_)          # a list literal [x] among the parts: its elements
                else:
                    parts.append(p_)
            axis = self.cat(name, parts, axis)
            try:
                val = F.fn("cat", as_rat(axis), *[as_rat(x) for x in parts])
            except Unsupported as e:
                return Unknown(str(e))
            self._rec("np.concatenate", [PyTuple(parts)], {"axis": axis}, node, val, None)
            return val
        if name == "np.reshape" and israt(pos[0]):
            shp = pos[1:] if n != 2 or not isinstance(pos[1], tuple) else list(pos[1])
            if "newshape" in kw or "shape" in kw:
                s_ = kw.get("newshape", kw.get("shape"))
                shp = list(s_) if isinstance(s_, tuple) else [s_]
            if len(shp) == 2 and int_of(shp[0]) == -1 and int_of(shp[1]) == 1:
                return F.fn("col", pos[0])
        return self.record(name, pos, kw, node, None)

    def extremum(self, kind, vals):
        """max / min of values: decided pairwise from the facts where possible; otherwise a commutative atom"""
        keep = []
        facts_only = V(self.sh.scratch())          # (the rule's oracle answers for the code's own tests, not for these comparisons)
        for v in vals:
            dominated = False
            for w in list(keep):
                t = facts_only.truth(le0(v - w))          # v <= w ?
                if t is None:
                    continue
                v_small = t
                if (kind == "max" and v_small) or (kind == "min" and not v_small):
                    dominated = True          # w wins
                    break
                keep.remove(w)
            if not dominated and not any(eq(v, w) for w in keep):
                keep.append(v)
        if len(keep) == 1:
            return keep[0]
        # min(c / a, c / b) = c / max(a, b) for positive a, b and a constant c > 0 (reciprocals reverse the order)
        nums = {fkey(F.Rat(v.n)) for v in keep}
        if len(nums) == 1 and keep[0].n.is_const() and keep[0].n.const_value() > 0 and not any(v.d.is_const() for v in keep) \
                and all(facts_only.truth(lt0(-F.Rat(v.d))) is True for v in keep):
            return F.Rat(keep[0].n) / self.extremum("min" if kind == "max" else "max", [F.Rat(v.d) for v in keep])
        ks = sorted(keep, key=fkey)
        return F.fn(kind, *ks)

    def record(self, name, pos, kw, node, callee):
        """an opaque application; positional arguments beyond the first are placed on the signature when it is known"""
        args = None
        if name.startswith("numpy."):
            name = "np." + name[6:]
        name = CANON.get(name.rsplit(".", 1)[-1], name) if not name.startswith("np.") else name      # one name for a library routine however it was imported
        if name in SIGS:
            sig = SIGS[name]
            if len(pos) <= len(sig):
                args = dict(zip(sig, pos))
                args.update(kw)
                kw = {k: v for k, v in args.items() if k not in sig[:KEEP_POS]}
                pos = [args[k] for k in sig[:KEEP_POS] if k in args]
        try:
            parts = ([as_rat(callee)] if callee is not None else []) + [as_rat(x) for x in pos] + [F.fn("kw:" + k, as_rat(kw[k])) for k in sorted(kw)]
            val = F.fn("apply" if callee is not None else "call:" + name, *parts)
        except Unsupported as e:
            val = Unknown(str(e))
        self._rec(name, pos, kw, node, val, callee, args)
        return val

    def _rec(self, name, pos, kw, node, val, callee, args=None):
        if args is None:
            args = dict(kw)
        self.sh.calls.append(CallRec(name, list(pos), dict(kw), node, val, callee, tuple(self.sh.loop_stack), args))

    @staticmethod
    def _lambda_def(lam, name):
        fd = ast.FunctionDef(name=name, args=lam.args, body=[ast.copy_location(ast.Return(value=lam.body), lam)], decorator_list=[], returns=None, type_comment=None)
        ast.copy_location(fd, lam)
        ast.fix_missing_locations(fd)
        return fd

    def inline_call(self, node, fn, outer):
        if fn is None or self.depth >= 5:
            return NotImplemented
        a = fn.args
        params = [x.arg for x in a.posonlyargs + a.args]
        if a.vararg or a.kwarg:
            return NotImplemented
        pos, kw, err = self._args(node)
        if err is not None or len(pos) > len(params):
            return NotImplemented
        if self.sh.inline_policy is not None and outer is None and not self.sh.inline_policy(fn, pos, kw, self):
            return NotImplemented
        env = dict(zip(params, pos))
        kwonly = [x.arg for x in a.kwonlyargs]
        for k, v in kw.items():
            if k not in params and k not in kwonly:
                return NotImplemented
            env[k] = v
        sub0 = V(self.sh.scratch(), {}, None)
        dflt = dict(zip(params[::-1], (a.defaults or [])[::-1]))
        for p_ in params:
            if p_ not in env:
                if p_ not in dflt:
                    return NotImplemented
                env[p_] = sub0.ev(dflt[p_])
        for p_, d in zip(kwonly, a.kw_defaults):
            if p_ not in env:
                if d is None:
                    return NotImplemented
                env[p_] = sub0.ev(d)
        sub = V(self.sh, env, outer, self.depth + 1)
        sub.fn = fn
        if outer is not None:
            sub.local_funcs = dict(self.local_funcs)          # a closure sees the other local functions of the scope that defines it
        sub.run(fn.body)
        # in-place updates of a mutable argument are visible to the caller
        for p_, an in zip(params, node.args):
            if p_ in sub.mutated and isinstance(an, ast.Name) and p_ in sub.env:
                self.env[an.id] = sub.env[p_]
                self.mutated.add(an.id)
            elif p_ in sub.aug and isinstance(an, ast.Name) and p_ in sub.env and self.is_array(env[p_]):
                self.env[an.id] = sub.env[p_]          # x += y on an array argument works in place (numpy)
                self.mutated.add(an.id)
        if not sub.returns:
            return NONE
        if len(sub.returns) != 1:
            return Unknown(f"several returns in {fn.name}")
        v = sub.returns[0][0]
        return NONE if v is None else v

    # ---- statements
    def run(self, stmts):
        for st in stmts:
            if self.done or self.skip:
                break
            self.stmt(st)

    def assign(self, target, v, st):
        if isinstance(target, ast.Name):
            self.env[target.id] = v
            if isinstance(st, ast.AugAssign):
                if target.id not in self.rebound:
                    self.aug.add(target.id)
            else:
                self.rebound.add(target.id)
                self.aug.discard(target.id)
        elif isinstance(target, ast.Starred):
            self.assign(target.value, v, st)
        elif isinstance(target, (ast.Tuple, ast.List)):
            n = len(target.elts)
            if any(isinstance(e, ast.Starred) for e in target.elts):
                for e in target.elts:
                    self.assign(e, Unknown("starred unpacking"), st)
            elif isinstance(v, tuple) and len(v) == n:
                for t, x in zip(target.elts, v):
                    self.assign(t, x, st)
            elif israt(v) and (_strsym(v) or "").startswith("@"):
                for k, t in enumerate(target.elts):
                    self.assign(t, F.sym(f"{_strsym(v)}.{k}"), st)          # the members of the tuple an opaque helper returns: one symbol each
            elif israt(v):
                for k, t in enumerate(target.elts):
                    self.assign(t, self.mk_idx(v, F.const(k)), st)
            else:
                for t in target.elts:
                    self.assign(t, v if is_unknown(v) else Unknown("unpacking"), st)
        elif isinstance(target, ast.Subscript):
            b = target.value
            if isinstance(b, ast.Name) and isinstance(self.env.get(b.id), DictValue):
                # d["key"] = v on a literal dict local
                if isinstance(target.slice, ast.Constant) and isinstance(target.slice.value, (str, int)):
                    d_ = dict(self.env[b.id].d)
                    d_[target.slice.value] = v
                    self.env[b.id] = DictValue(d_)
                else:
                    self.env[b.id] = Unknown("a dict local stored under a computed key")
                return
            if isinstance(b, ast.Name):
                old = self._name(b.id)
                ix = self.index_value(target.slice)
                root = self._view_root(old)
                if root is not None:
                    # a store through a view (row / column / slice / transpose / reshape of another array) also changes that array: nothing that may write is skipped.
                    # view = X[jx] held by a local: view[ix] = v  is  X[jx o ix] = v  (composed by the index algebra); otherwise the arrays involved become unknown
                    a_ = un(old, "idx")
                    comp = None
                    if a_ is not None and eq(a_[0], root) and not is_unknown(ix) and not is_unknown(v):
                        if eq(ix, FULL) or is_sym(ix, "Ellipsis"):
                            comp = a_[1]
                        else:
                            loc = self.mk_idx(old, ix)
                            l_ = un(loc, "idx") if israt(loc) else None
                            comp = l_[1] if l_ is not None and eq(l_[0], root) else None
                    holders = [k_ for k_, x_ in self.env.items() if k_ != b.id and israt(x_) and eq(x_, root)]
                    if len(holders) > 1:
                        # several arrays with the same content: values do not tell which one is viewed, the statement that made the view does
                        named = [k_ for k_ in holders if k_ in self.view_of.get(b.id, ())]
                        holders = named if len(named) == 1 else holders
                    if comp is not None and len(holders) == 1:
                        newroot = self.mk_store(root, comp, v)
                        for k_ in holders:
                            self.env[k_] = newroot
                            self.mutated.add(k_)
                        self.sh.cells.append(CellRec(root, comp, v, newroot, st, tuple(self.sh.loop_stack)))
                        for k_, x_ in list(self.env.items()):
                            if k_ != b.id and k_ not in holders and israt(x_) and holders[0] in self.view_of.get(k_, holders) \
                                    and find_atoms(x_, lambda n_, a2, r_=fkey(root): n_ == "idx" and fkey(a2[0]) == r_):
                                self.env[k_] = Unknown(f"a view of an array written through the view {b.id}")
                        self.env[b.id] = self.mk_idx(newroot, a_[1])
                        self.mutated.add(b.id)
                        return
                    for k_, x_ in list(self.env.items()):
                        if k_ != b.id and israt(x_) and (eq(x_, root) or find_atoms(x_, lambda n_, a2, r_=fkey(root): n_ == "idx" and fkey(a2[0]) == r_)):
                            self.env[k_] = Unknown(f"written through the view {b.id}")
                new = self.mk_store(old, ix, v)
                if root is None and israt(old):
                    # the local may be another NAME of an array (dest = cal ; dest[...] = v): the store changes that array too.  Values do not carry identity:
                    # one candidate with this value is updated, several candidates (equal content) all become unknown
                    cands = [m_ for m_ in self.view_of.get(b.id, ()) if m_ != b.id and israt(self.env.get(m_)) and eq(self.env[m_], old)]
                    if len(cands) == 1:
                        self.env[cands[0]] = new
                        self.mutated.add(cands[0])
                    elif cands:
                        for m_ in cands:
                            self.env[m_] = Unknown(f"possibly written through its other name {b.id}")
                        new = Unknown(f"{b.id} is another name of one of {sorted(cands)}")
                self.env[b.id] = new
                self.mutated.add(b.id)
                self.sh.cells.append(CellRec(old, ix, v, new, st, tuple(self.sh.loop_stack)))
            # stores into attributes / nested containers: not modelled (none in the anchored functions)
        elif isinstance(target, ast.Attribute):
            d = dotted(target)
            if d:
                self.env[d] = v

    def stmt(self, st):
        if self.done or self.skip:
            return
        if isinstance(st, (ast.Assign, ast.For)):
            al = self._alias_roots(ast.Assign(targets=st.targets, value=st.value) if isinstance(st, ast.Assign) else ast.For(target=st.target, iter=st.iter, body=[], orelse=[]))
            for k_ in {x.id for t_ in (st.targets if isinstance(st, ast.Assign) else [st.target]) for x in ast.walk(t_) if isinstance(x, ast.Name) and isinstance(x.ctx, ast.Store)}:
                self.view_of[k_] = al.get(k_, set())
        if isinstance(st, ast.Assign):
            if isinstance(st.value, ast.Lambda) and len(st.targets) == 1 and isinstance(st.targets[0], ast.Name):
                # name = lambda args: expr  -- a local function with one return
                fd = self._lambda_def(st.value, st.targets[0].id)
                self.local_funcs[fd.name] = (fd, self.env)
                self.env.pop(fd.name, None)
                return
            v = self.ev(st.value)
            for t in st.targets:
                self.assign(t, v, st)
        elif isinstance(st, ast.AnnAssign):
            if st.value is not None:
                self.assign(st.target, self.ev(st.value), st)
        elif isinstance(st, ast.AugAssign):
            import copy
            ld = copy.copy(st.target)
            ld.ctx = ast.Load()
            cur = self.ev(ld)
            v = self.ev(st.value)
            self.assign(st.target, self.binop(st.op, cur, v, ast.BinOp(left=ld, op=st.op, right=st.value)), st)
        elif isinstance(st, ast.Expr):
            self.ev(st.value)
        elif isinstance(st, ast.If):
            self._if(st)
        elif isinstance(st, (ast.For, ast.While)):
            self._loop(st)
        elif isinstance(st, ast.Return):
            self.returns.append((self.ev(st.value) if st.value is not None else None, st))
            self.done = True
        elif isinstance(st, ast.Continue):
            self.skip = True
        elif isinstance(st, ast.Break) and self.sh.concrete:
            self.skip = self.brk = True          # (only reached under decided tests: an undecided `if` that contains a break is not followed)
        elif isinstance(st, ast.Raise):
            self.done = True
        elif isinstance(st, (ast.FunctionDef,)):
            self.local_funcs[st.name] = (st, self.env)
        elif isinstance(st, (ast.With, ast.Try, ast.Break, ast.Delete, ast.Match)) or type(st).__name__ in ("TryStar",):
            self._havoc(st, f"assigned inside {type(st).__name__}")
        # Pass, Assert, Import, Global, Nonlocal, ClassDef: no effect on values

    @staticmethod
    def _alias_roots(st):
        """{local: names of the arrays it may be a view of}, read off the assignments / loop targets inside st (N = M[...], N = M.T, for N in M, for A, B in zip(M.T, K))"""
        def root(e):
            while True:
                if isinstance(e, ast.Subscript):
                    e = e.value
                elif isinstance(e, ast.Attribute) and e.attr in ("T", "flat", "real"):
                    e = e.value
                elif isinstance(e, ast.Call) and (dotted(e.func) or "").rsplit(".", 1)[-1] in ("transpose", "ravel", "reshape", "swapaxes", "atleast_1d", "atleast_2d", "asarray", "squeeze", "view") \
                        and (e.args or isinstance(e.func, ast.Attribute)):
                    e = e.func.value if isinstance(e.func, ast.Attribute) and not (dotted(e.func) or "").startswith(("np.", "numpy.")) else (e.args[0] if e.args else None)
                else:
                    return e.id if isinstance(e, ast.Name) else None
        out = {}

        def bind(tg, val):
            if isinstance(tg, ast.Name):
                r = root(val) if val is not None else None
                if r is not None and r != tg.id and isinstance(val, (ast.Subscript, ast.Attribute, ast.Call, ast.Name)):
                    out.setdefault(tg.id, set()).add(r)
            elif isinstance(tg, (ast.Tuple, ast.List)):
                if isinstance(val, (ast.Tuple, ast.List)) and len(val.elts) == len(tg.elts):
                    for t_, v_ in zip(tg.elts, val.elts):
                        bind(t_, v_)
                elif isinstance(val, ast.Call) and (dotted(val.func) or "") == "zip" and len(val.args) == len(tg.elts):
                    for t_, v_ in zip(tg.elts, val.args):
                        bind(t_, v_)
                elif isinstance(val, ast.Call) and (dotted(val.func) or "") == "enumerate" and val.args and len(tg.elts) == 2:
                    bind(tg.elts[1], val.args[0])
        for n in ast.walk(st):
            if isinstance(n, ast.Assign):
                for t_ in n.targets:
                    bind(t_, n.value)
            elif isinstance(n, ast.For):
                if isinstance(n.iter, (ast.Tuple, ast.List)):
                    for e_ in n.iter.elts:          # the target is bound to every element in turn
                        bind(n.target, e_)
                else:
                    bind(n.target, n.iter)
            elif isinstance(n, ast.NamedExpr):
                bind(n.target, n.value)
        return out

    def _written(self, st):
        out = set()
        alias = None
        for n in ast.walk(st):
            tg = []
            if isinstance(n, ast.Assign):
                tg = n.targets
            elif isinstance(n, (ast.AugAssign, ast.AnnAssign)):
                tg = [n.target]
            elif isinstance(n, (ast.For, ast.comprehension)):
                tg = [n.target]
            elif isinstance(n, ast.NamedExpr):
                tg = [n.target]
            elif isinstance(n, ast.Call) and isinstance(n.func, ast.Attribute) and n.func.attr in ("append", "extend", "insert", "pop", "remove", "sort", "reverse", "clear") \
                    and isinstance(n.func.value, ast.Name):
                out.add(n.func.value.id)          # in-place list edits
            for t in tg:
                for x in ast.walk(t):
                    if isinstance(x, ast.Name) and isinstance(x.ctx, ast.Store):
                        out.add(x.id)
                    elif isinstance(x, ast.Subscript) and isinstance(x.value, ast.Name) and isinstance(x.ctx, ast.Store):
                        out.add(x.value.id)
                        if alias is None:
                            alias = self._alias_roots(st)
                        todo = [x.value.id]
                        while todo:          # a store through a view writes the array viewed
                            for r_ in alias.get(todo.pop(), ()):
                                if r_ not in out:
                                    out.add(r_)
                                    todo.append(r_)
        return out

    def _havoc(self, st, why):
        for n in self._written(st):
            self.env[n] = Unknown(why)

    @staticmethod
    def _only_raises(stmts):
        return bool(stmts) and all(isinstance(s, (ast.Raise, ast.Expr, ast.Pass)) for s in stmts) and any(isinstance(s, ast.Raise) for s in stmts)

    def _if(self, st):
        cv = self.ev(st.test)
        c = self.truth(cv)
        self.sh.tests.append((cv, c, st, tuple(self.sh.loop_stack)))
        if c is True:
            return self.run(st.body)
        if c is False:
            return self.run(st.orelse)
        # undecided.  An arm that only raises is the error exit: the analysis follows the other one.
        if self._only_raises(st.body):
            return self.run(st.orelse)
        if self._only_raises(st.orelse):
            return self.run(st.body)
        if any(isinstance(x, (ast.Return, ast.Continue, ast.Break, ast.Raise)) for arm in (st.body, st.orelse) for s in arm for x in ast.walk(s)) or is_unknown(cv):
            return self._havoc(st, f"assigned under undecided test {ast.unparse(st.test)}")
        before = dict(self.env)
        self.run(st.body)
        e1 = self.env
        self.env = dict(before)
        self.run(st.orelse)
        e2 = self.env
        merged = {}
        for k in set(e1) | set(e2):
            a, b = e1.get(k), e2.get(k)
            if a is None or b is None:
                merged[k] = Unknown(f"bound on one arm of undecided test {ast.unparse(st.test)}")
            elif a is b:
                merged[k] = a
            else:
                merged[k] = self.ite(cv, a, b)
        self.env = merged

    # ---- loops
    def _elem(self, it, k):
        """(value of the k-th element, trip count) of an iterable expression; k the loop counter symbol"""
        if isinstance(it, ast.Call) and isinstance(it.func, ast.Name) and self.lookup(it.func.id) is None and not it.keywords:
            f = it.func.id
            if f == "range" and 1 <= len(it.args) <= 3:
                a = [self.ev(x) for x in it.args]
                if any(not israt(x) for x in a):
                    return Unknown("range bounds"), None
                lo, hi = (F.const(0), a[0]) if len(a) == 1 else (a[0], a[1])
                if len(a) == 3 and not eq(a[2], F.const(1)):
                    return Unknown("range with a step"), None
                if self.sh.concrete and int_of(lo) is not None and int_of(hi) is not None and hi_ok(int_of(hi) - int_of(lo)):
                    return PyTuple(F.const(i) for i in range(int_of(lo), int_of(hi))), "unroll"
                return lo + k, hi - lo
            if f == "enumerate" and 1 <= len(it.args) <= 2:
                x, n = self._elem(it.args[0], k)
                s = self.ev(it.args[1]) if len(it.args) == 2 else F.const(0)
                if not israt(s):
                    return Unknown("enumerate start"), None
                if n == "unroll":
                    return PyTuple(PyTuple((s + i_, y)) for i_, y in enumerate(x)), n          # a sequence known element by element
                return PyTuple((s + k, x)), n
            if f == "zip" and it.args:
                xs, ns = [], []
                for a in it.args:
                    x, n = self._elem(a, k)
                    xs.append(x)
                    ns.append(n)
                if any(n == "unroll" for n in ns):
                    if all(n == "unroll" for n in ns):
                        return PyTuple(PyTuple(t_) for t_ in zip(*xs)), "unroll"
                    return Unknown("zip of a literal sequence with a computed one"), None
                n0 = ns[0]
                for n_ in ns[1:]:
                    # zip stops at the shortest argument: decided when the lengths differ by a constant
                    if n0 is None or n_ is None:
                        return Unknown("zip of a sequence that is not understood"), None
                    if eq(n0, n_):
                        continue
                    c_ = const_of(n_ - n0) if israt(n_) and israt(n0) else None
                    if c_ is None:
                        return Unknown("zip of sequences whose lengths are not comparable"), None
                    if c_ < 0:
                        n0 = n_
                return PyTuple(xs), n0
            if f == "reversed":
                return Unknown("reversed iteration"), None
        seq = self.ev(it)
        if is_unknown(seq):
            return seq, None
        if isinstance(seq, tuple):
            return seq, "unroll"
        if isinstance(seq, DictValue):
            return Unknown("iteration over a dict"), None
        return self.mk_idx(seq, k), self.np_call("len", [seq], {}, it)

    def _loop(self, st):
        sh = self.sh
        written = self._written(st)
        if isinstance(st, ast.For) and isinstance(st.iter, ast.Call) and (dotted(st.iter.func) or "") in ("product", "itertools.product") and self.lookup("product") is None \
                and len(st.iter.args) >= 2 and not st.iter.keywords and not st.orelse and isinstance(st.target, (ast.Tuple, ast.List)) and len(st.target.elts) == len(st.iter.args) \
                and not any(isinstance(a, ast.Starred) for a in st.iter.args) and not any(isinstance(x, ast.Break) for x in ast.walk(st)):
            # for a, b in product(X, Y): body   ==   for a in X: for b in Y: body      (same order of the iterations)
            body = st.body
            for tg, it_ in reversed(list(zip(st.target.elts, st.iter.args))):
                body = [ast.copy_location(ast.For(target=tg, iter=it_, body=body, orelse=[], type_comment=None), st)]
            ast.fix_missing_locations(body[0])
            return self._loop(body[0])
        if isinstance(st, ast.For) and isinstance(st.iter, (ast.GeneratorExp, ast.ListComp)) and not st.orelse and not any(g.ifs or g.is_async for g in st.iter.generators) \
                and not any(isinstance(x, ast.Break) for x in ast.walk(st)):
            # for T in (E for a in X for b in Y): body   ==   for a in X: for b in Y: T = E; body
            import copy
            comp = copy.deepcopy(st.iter)          # (the comprehension has a scope of its own: its variables get fresh names)
            own = {x.id for g in comp.generators for x in ast.walk(g.target) if isinstance(x, ast.Name)}

            class _Ren(ast.NodeTransformer):
                def visit_Name(self, n_):
                    return ast.copy_location(ast.Name(id="@g_" + n_.id, ctx=n_.ctx), n_) if n_.id in own else n_
            first_iter = copy.deepcopy(comp.generators[0].iter)          # (evaluated in the enclosing scope)
            comp = _Ren().visit(comp)
            comp.generators[0].iter = first_iter
            body = [ast.copy_location(ast.Assign(targets=[st.target], value=comp.elt, type_comment=None), st)] + list(st.body)
            for g in reversed(comp.generators):
                body = [ast.copy_location(ast.For(target=g.target, iter=g.iter, body=body, orelse=[], type_comment=None), st)]
            ast.fix_missing_locations(body[0])
            return self._loop(body[0])
        if isinstance(st, ast.For):
            sh.nloop += 1
            kname = f"@k{sh.nloop}"
            sh.index_syms.add(kname)
            k = F.sym(kname)
            elem, n = self._elem(st.iter, k)
            if n == "unroll":
                broke = False
                lit = st.iter.elts if isinstance(st.iter, (ast.Tuple, ast.List)) and len(st.iter.elts) == len(elem) else None
                for i_, x in enumerate(elem):
                    self.assign(st.target, x, st)
                    if lit is not None:
                        # the element of a literal sequence names the arrays the targets stand for in this iteration
                        al = self._alias_roots(ast.Assign(targets=[st.target], value=lit[i_]))
                        for k_ in {y.id for y in ast.walk(st.target) if isinstance(y, ast.Name)}:
                            self.view_of[k_] = al.get(k_, set())
                    self.skip = False
                    self.run(st.body)
                    self.skip = False
                    if self.done:
                        return
                    if self.brk:
                        self.brk, broke = False, True
                        break
                if not broke and st.orelse:
                    self.run(st.orelse)
                return
            if n is None or is_unknown(elem):
                return self._havoc(st, "assigned inside a loop that is not understood")
            tnames = {x.id for x in ast.walk(st.target) if isinstance(x, ast.Name)}
            pre = self._enter(written - tnames, k)
            self.assign(st.target, elem, st)
            rec = LoopRec(k, n, st, tuple(sh.loop_stack))
            sh.loops.append(rec)
            sh.loop_stack.append(rec)
            self.run(st.body)
            sh.loop_stack.pop()
            self.skip = False
            self._leave(pre, written, k, n, rec)
            return
        if sh.concrete and self._while_concrete(st, written):
            return
        # counted while:  `while c < n:` ... `c += 1`
        t = st.test
        ctr = lo = hi = None
        if isinstance(t, ast.Compare) and len(t.ops) == 1 and not st.orelse:
            l, r_, op = t.left, t.comparators[0], t.ops[0]
            if isinstance(op, (ast.Gt, ast.GtE)):
                l, r_, op = r_, l, (ast.Lt() if isinstance(op, ast.Gt) else ast.LtE())
            if isinstance(l, ast.Name) and isinstance(op, (ast.Lt, ast.LtE)):
                incs = [x for x in ast.walk(st) if isinstance(x, (ast.AugAssign, ast.Assign, ast.NamedExpr, ast.For)) and l.id in self._written(x)]
                cur = self.lookup(l.id)
                if len(incs) == 1 and incs[0] in st.body and isinstance(incs[0], ast.AugAssign) and isinstance(incs[0].op, ast.Add) \
                        and isinstance(incs[0].value, ast.Constant) and incs[0].value.value == 1 and israt(cur) \
                        and not any(isinstance(x, (ast.Continue, ast.Break)) for x in ast.walk(st)):
                    bound = self.ev(r_)
                    if israt(bound) and l.id not in {x.id for x in ast.walk(r_) if isinstance(x, ast.Name)}:
                        ctr, lo, hi = l.id, cur, bound + (1 if isinstance(op, ast.LtE) else 0)
        if ctr is None:
            return self._havoc(st, "assigned inside a while loop that is not a counted loop")
        sh.nloop += 1
        kname = f"@k{sh.nloop}"
        sh.index_syms.add(kname)
        k = F.sym(kname)
        n = hi - lo
        pre = self._enter(written - {ctr}, k)
        self.env[ctr] = lo + k
        rec = LoopRec(k, n, st, tuple(sh.loop_stack))
        sh.loops.append(rec)
        sh.loop_stack.append(rec)
        self.run(st.body)
        sh.loop_stack.pop()
        self.skip = False
        self._leave(pre, written - {ctr}, k, n, rec)
        self.env[ctr] = hi

    def _while_concrete(self, st, written, limit=256):
        """finite-world evaluation: a `while` loop whose test has a truth value each time it is reached is executed iteration by iteration (break, continue and the
        else arm as in Python).  -> False when the very first test is not decided (nothing was executed: the caller's generic treatment applies); once an iteration
        has run, a test that is not decided (or too many iterations) leaves everything the loop writes unknown."""
        for it in range(limit):
            c = self.truth(self.ev(st.test))
            if c is None:
                if it == 0 and not any(isinstance(x, ast.NamedExpr) for x in ast.walk(st.test)):
                    return False
                self._havoc(st, "assigned inside a while loop whose test is not decided on this world")
                return True
            if not c:
                self.run(st.orelse)
                return True
            self.skip = False
            self.run(st.body)
            self.skip = False
            if self.done:
                return True
            if self.brk:
                self.brk = False
                return True
        self._havoc(st, f"assigned inside a while loop that runs more than {limit} times")
        return True

    def _enter(self, names, k):
        """variables written in the loop start a generic iteration with an unknown (carried) value"""
        pre = {}
        for nm in names:
            v = self.lookup(nm)
            if v is None:
                continue
            pre[nm] = v
            if israt(v):
                self.env[nm] = F.fn("carried", v, k)
            else:
                self.env[nm] = Unknown("a sequence carried round a loop")
        return pre

    def _leave(self, pre, written, k, n, rec):
        for nm in written:
            v = self.env.get(nm)
            if v is None:
                continue
            if nm in pre and israt(pre[nm]) and eq(v, F.fn("carried", pre[nm], k)):
                self.env[nm] = pre[nm]            # not changed by the iteration
            elif nm in pre and israt(v):
                self.env[nm] = F.fn("loopres", k, as_rat(n), v)
                rec.results[nm] = self.env[nm]
            else:
                self.env[nm] = Unknown("assigned inside a loop")


# ------------------------------------------------------------------------------------------------------------------------------ front end

class Run:
    """evaluate `fn` in one regime: `pins` binds parameters to values, `facts` are test expressions (texts over the parameters and over the
    symbols the call hook returns) taken to be true"""

    def __init__(self, ctx, fn, rel, pins=None, facts=(), oracle=None, call=None, rewrite=None, exclude=(), run=True, syms=None, ranks=None):
        self.ctx, self.fn = ctx, fn
        m = ctx.src.mod(rel)
        inline = {q: f for q, f in m.funcs.items() if "." not in q and "#" not in q and f is not fn and q not in exclude}
        self.sh = Shared(src=ctx.src, call=call, rewrite=rewrite, inline=inline, consts=module_consts(ctx, rel), modnames=module_names(ctx, rel),
                         oracle=oracle, ranks=ranks)
        self.sh.namedtuples = module_namedtuples(ctx, rel)
        a = fn.args
        env = {}
        for x in a.posonlyargs + a.args + a.kwonlyargs:
            env[x.arg] = F.sym(x.arg)
        self.pins = {}
        for k_, v in (pins or {}).items():
            env[k_] = self.pins[k_] = v if not isinstance(v, str) else V(self.sh.scratch(), {}).expr(v)
        self.syms = dict(syms or {})
        self.roots = dict(env)
        for t in facts:
            neg = t.startswith("not:")
            self.sh.facts.assert_value(self.E(t[4:] if neg else t), not neg)
        self.ev = V(self.sh, env)
        if run:
            self.ev.run(fn.body)

    def E(self, text, **env):
        e = dict(self.roots)
        e.update(self.syms)
        e.update(env)
        return V(self.sh.scratch(), e).expr(text)

    def same(self, got, want, **env):
        w = self.E(want, **env) if isinstance(want, str) else want
        return eq(got, w)

    def ret(self):
        return self.ev.returns[-1][0] if self.ev.returns else None

    def ret_node(self):
        return self.ev.returns[-1][1] if self.ev.returns else self.fn

    def calls(self, *last):
        return [c for c in self.sh.calls if c.last() in last or c.name in last]

    @property
    def cells(self):
        return self.sh.cells

    @property
    def loops(self):
        return self.sh.loops


def find_atoms(v, pred, seen=None, out=None):
    """every opaque application inside value v (recursively through arguments) for which pred(name, args) holds -> [(value, name, args)]"""
    if out is None:
        out, seen = [], set()
    if isinstance(v, tuple):
        for x in v:
            find_atoms(x, pred, seen, out)
        return out
    if not israt(v):
        return out
    for p in (v.n, v.d):
        for a in p.atoms():
            if a in seen:
                continue
            seen.add(a)
            d = F.atom_desc(a)
            if d[0] == "fn":
                args = []
                for k in d[2]:
                    args.append(k if isinstance(k, str) else F.Rat(F._poly_from_key(k[1]), F._poly_from_key(k[2])))
                av = F.Rat(F.Poly.atom(a))
                if pred(d[1], args):
                    out.append((av, d[1], args))
                for x in args:
                    if not isinstance(x, str):
                        find_atoms(x, pred, seen, out)
            elif d[0] in ("exp", "sin", "cos", "sqrt"):
                find_atoms(F.Rat(F._poly_from_key(d[1])), pred, seen, out)
    return out


def top_atoms(v):
    """the opaque applications that occur at the top level of v (not inside arguments) -> [(value, name, args)]"""
    out = []
    if not israt(v):
        return out
    seen = set()
    for p in (v.n, v.d):
        for a in p.atoms():
            if a in seen:
                continue
            seen.add(a)
            d = F.atom_desc(a)
            if d[0] == "fn":
                args = [k if isinstance(k, str) else F.Rat(F._poly_from_key(k[1]), F._poly_from_key(k[2])) for k in d[2]]
                out.append((F.Rat(F.Poly.atom(a)), d[1], args))
    return out


def call_args(args):
    """arguments of a call:/apply atom -> (positional values, {keyword: value})"""
    pos, kw = [], {}
    for a in args:
        u = unfn(a) if not isinstance(a, str) else None
        if u is not None and u[0].startswith("kw:"):
            kw[u[0][3:]] = u[1][0]
        else:
            pos.append(a)
    return pos, kw


def placed(name, args):
    """arguments of a call atom placed on its signature (SIGS) -> {parameter: value}"""
    pos, kw = call_args(args)
    out = dict(zip(SIGS.get(name, []), pos))
    out.update(kw)
    return out


# ------------------------------------------------------------------------------------------------------------------------------ what the rules know

# Library routines whose meaning the rules' expected values are written in (or that the engine gives a value to).  An application of anything else inside a value
# that fails a comparison is an idiom the checker does not know - "np.pad(...)", a method of an object, a ufunc with where= - and the verdict is "not decided".
KNOWN_CALLS = {
    "np.mean", "np.sum", "np.cumsum", "np.cumprod", "np.prod", "np.all", "np.any", "np.max", "np.min", "np.amax", "np.amin", "np.argmax", "np.argmin", "np.diff",
    "np.interp", "interp1d", "signal.lfilter", "signal.upfirdn", "signal.windows.kaiser", "np.sinc", "np.arange", "np.transpose", "np.swapaxes", "np.ravel", "np.searchsorted",
    "np.nonzero", "np.flatnonzero", "np.log10", "np.log2", "np.sqrt", "np.round", "round", "np.linspace", "np.std", "np.var", "np.median", "np.nanmean", "np.average",
    "np.expand_dims", "np.column_stack", "np.stack", "np.array_equal", "np.count_nonzero", "np.argsort", "np.sort", "np.repeat", "np.tile", "np.floor", "np.ceil",
    "ceil", "floor", "trunc", "int", "float", "abs", "len", "max", "min", "sum", "math.ceil", "math.floor", "math.gcd", "np.gcd", "np.sign", "np.dot", "np.take", "np.squeeze", "np.flatten", "np.reshape", "np.where", "np.argwhere", "np.unique", "np.isnan", "np.isfinite",
}


MODULE_VALUES = {"np.inf", "np.nan", "np.newaxis", "np.pi", "np.e", "np.int64", "np.int32", "np.float64", "np.float32", "np.bool_", "np.complex128", "math.inf", "math.pi", "math.e", "math.nan",
                 "numpy.inf", "numpy.nan", "numpy.newaxis", "numpy.pi"}


def unrecognised(vals, defined=None):
    """names of the applications inside the values that are not library routines the rules know (methods of unknown objects, unknown functions, ufunc keywords).
    `defined`: the names that mean something in the module - a call of another bare name is an undefined name (a run-time error), which is not reported here"""
    out = []

    def pred(n, a):
        if n.startswith("call:") and n[5:] not in KNOWN_CALLS:
            if defined is None or "." in n[5:] or n[5:] in defined:
                out.append(n[5:])
        elif n in ("kw:where", "kw:out", "kw:initial"):
            out.append(n)
        return False
    def syms(v, seen):
        """module attributes used as values (np.r_, np.s_, np.ogrid ...): objects with a meaning of their own the checker does not model"""
        for p_ in (v.n, v.d):
            for a in p_.atoms():
                if a in seen:
                    continue
                seen.add(a)
                d = F.atom_desc(a)
                if d[0] == "s":
                    if d[1].split(".")[0] in ("np", "numpy", "signal", "scipy", "math", "itertools", "operator") and "." in d[1] and d[1] not in MODULE_VALUES:
                        out.append(d[1])
                elif d[0] == "fn":
                    for k in d[2]:
                        if not isinstance(k, str):
                            syms(F.Rat(F._poly_from_key(k[1]), F._poly_from_key(k[2])), seen)
                else:
                    syms(F.Rat(F._poly_from_key(d[1])), seen)
    for v in vals:
        if isinstance(v, tuple):
            out.extend(unrecognised(list(v), defined))
        elif israt(v):
            find_atoms(v, pred)
            syms(v, set())
    return sorted(set(out))
