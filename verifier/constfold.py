"""Constant folding of literal expressions (numbers, strings, %-formatting and f-strings of literals, len/find/upper...).
Only expressions built from literals are folded; Python's own formatting of a *literal* is part of the language definition."""
from __future__ import annotations

import ast

from .core import Unsupported

_STR_METHODS = {"find", "index", "upper", "lower", "strip", "lstrip", "rstrip", "replace", "split", "startswith", "endswith", "count", "zfill", "format"}


def fold(node, env=None):
    env = env or {}
    if isinstance(node, ast.Constant) and isinstance(node.value, (int, float, str, bool)):
        return node.value
    if isinstance(node, ast.Name):
        if node.id in env:
            return env[node.id]
        raise Unsupported(f"not a constant: {node.id}")
    if isinstance(node, ast.Tuple):
        return tuple(fold(e, env) for e in node.elts)
    if isinstance(node, ast.UnaryOp) and isinstance(node.op, (ast.USub, ast.UAdd)):
        v = fold(node.operand, env)
        return -v if isinstance(node.op, ast.USub) else v
    if isinstance(node, ast.BinOp):
        a, b = fold(node.left, env), fold(node.right, env)
        op = type(node.op)
        try:
            if op is ast.Mod:
                return a % b
            if op is ast.Add:
                return a + b
            if op is ast.Sub:
                return a - b
            if op is ast.Mult:
                return a * b
            if op is ast.FloorDiv:
                return a // b
            if op is ast.Pow and isinstance(a, (int, float)) and isinstance(b, int) and abs(b) < 64:
                return a ** b
        except Exception as e:  # noqa
            raise Unsupported(f"constant expression raises: {e}")
        raise Unsupported(f"operator {op.__name__}")
    if isinstance(node, ast.JoinedStr):
        out = []
        for v in node.values:
            if isinstance(v, ast.Constant):
                out.append(str(v.value))
            elif isinstance(v, ast.FormattedValue):
                val = fold(v.value, env)
                spec = fold(v.format_spec, env) if v.format_spec is not None else ""
                if v.conversion == ord("r"):
                    val = repr(val)
                elif v.conversion == ord("s"):
                    val = str(val)
                out.append(format(val, spec))
            else:
                raise Unsupported("f-string part")
        return "".join(out)
    if isinstance(node, ast.Call):
        if isinstance(node.func, ast.Name) and node.func.id in ("len", "int", "float", "str", "abs", "min", "max") and not node.keywords:
            args = [fold(a, env) for a in node.args]
            return {"len": len, "int": int, "float": float, "str": str, "abs": abs, "min": min, "max": max}[node.func.id](*args)
        if isinstance(node.func, ast.Attribute) and node.func.attr in _STR_METHODS and not node.keywords:
            base = fold(node.func.value, env)
            if isinstance(base, str):
                return getattr(base, node.func.attr)(*[fold(a, env) for a in node.args])
        raise Unsupported(f"call {ast.unparse(node.func)}")
    if isinstance(node, ast.Subscript):
        base = fold(node.value, env)
        if isinstance(node.slice, ast.Slice):
            lo = fold(node.slice.lower, env) if node.slice.lower is not None else None
            hi = fold(node.slice.upper, env) if node.slice.upper is not None else None
            return base[lo:hi]
        return base[fold(node.slice, env)]
    raise Unsupported(f"not a constant expression: {ast.unparse(node)[:60]}")


def fold_assignments(stmts, env=None):
    """run through simple `name = <constant expression>` statements, collecting what folds; returns env"""
    env = dict(env or {})
    for st in stmts:
        if isinstance(st, ast.Assign) and len(st.targets) == 1:
            t = st.targets[0]
            key = t.id if isinstance(t, ast.Name) else (ast.unparse(t) if isinstance(t, ast.Attribute) else None)
            if key is None:
                continue
            try:
                env[key] = fold(st.value, env)
            except Unsupported:
                env.pop(key, None)
    return env
