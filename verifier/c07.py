"""C07 -- matrix exponential, its integrals, getEPQ variants (partial claim)."""
from __future__ import annotations

import ast
from fractions import Fraction
from math import factorial

from . import e2_formula as F
from .core import AnchorError, Unsupported
from .e1_srcmodel import dotted, walk_no_nested, utext
from .e2_eval import Evaluator, is_unknown, need, const_from_node

EXPM = "pyyeti/expmint.py"

# Al-Mohy & Higham 2009 (SIAM J. Matrix Anal. Appl. 31) theta_m for m = 3, 5, 7, 9, 13 -- published constants,
# not copied from the repository
THETA = {3: Fraction("1.495585217958292e-2"), 5: Fraction("2.539398330063230e-1"),
         7: Fraction("9.504178996162932e-1"), 9: Fraction("2.097847961257068"), 13: Fraction("4.25")}


def _scalar_env(prefix, maxpow=10):
    """self.A -> x, self.A2 -> x^2 ..., self.ident -> 1 (the scalar homomorphism of the matrix polynomial)."""
    x = F.sym("x")
    env = {f"{prefix}.A": x, f"{prefix}.ident": F.const(1), f"{prefix}.ssA": x}
    for k in range(2, maxpow + 1):
        env[f"{prefix}.A{k}"] = x ** k
    return env


def _call_hook(scipy_uv):
    def call(node, ev):
        d = dotted(node.func)
        if d in ("mf._smart_matrix_product", "np.dot") and len(node.args) >= 2:
            a, b = ev.ev(node.args[0]), ev.ev(node.args[1])
            if is_unknown(a):
                return a
            if is_unknown(b):
                return b
            return need(a) * need(b)
        if d in ("self.pade7", "self.pade9") and not node.args:
            return scipy_uv[d]
        return NotImplemented
    return call


def _exp_trunc(n):
    x = F.sym("x")
    return sum((x ** k / factorial(k) for k in range(n + 1)), F.const(0))


def _phi1_trunc(n):   # (e^x - 1)/x = sum x^k/(k+1)!
    x = F.sym("x")
    return sum((x ** k / factorial(k + 1) for k in range(n + 1)), F.const(0))


def _phi2_trunc(n):   # int_0^1 t e^{xt} dt = sum x^k/((k+2) k!)
    x = F.sym("x")
    return sum((x ** k / ((k + 2) * factorial(k)) for k in range(n + 1)), F.const(0))


def _low_order(expr, upto):
    """first exponent k <= upto of x with non-zero coefficient in Rat expr (polynomial in x), or None."""
    expr = F._R(expr)
    if not expr.d.is_const():
        raise Unsupported(f"not a polynomial in x: {expr}")
    co = F.coeffs_in(expr.n, "x")
    ks = sorted(k for k in co if k <= upto)
    return ks[0] if ks else None


def _degree(expr):
    expr = F._R(expr)
    co = F.coeffs_in(expr.n, "x")
    return max(co) if co else 0


def _run_method(ctx, fn, prefix, extra_env=None, scipy_uv=None):
    env = _scalar_env(prefix)
    env["h"] = F.sym("h")
    env["s"] = F.sym("s")
    if extra_env:
        env.update(extra_env)
    ev = Evaluator(env=env, src=ctx.src, call=_call_hook(scipy_uv or {}),
                   store_accept=lambda b, i, st: True)
    ev.run(fn.body)
    if not ev.returns:
        raise AnchorError(f"{fn.name}: no return")
    return ev.returns[-1][0], ev


def _scipy_uv(N):
    """scipy's own pade7/pade9 (trusted library): the diagonal Pade approximant written as V+U / V-U."""
    x = F.sym("x")
    c = [Fraction(factorial(2 * N - j) * factorial(N), factorial(2 * N) * factorial(N - j) * factorial(j)) for j in range(N + 1)]
    U = sum((c[j] * x ** j for j in range(1, N + 1, 2)), F.const(0))
    V = sum((c[j] * x ** j for j in range(0, N + 1, 2)), F.const(0))
    return (U, V)


def _double_exact(num, den, series, N):
    """the order conditions hold when every literal is read as the double Python computes with: the residual coefficients r_k =
    num_k - sum_j den_j * series_{k-j}, k <= 2N, are within the rounding of the literals (2^-52 relative per coefficient).
    A table retyped with 17 significant digits is the same program; a table with a wrong digit is not."""
    x = F.sym("x")
    sub = {"h": F.const(1), "s": F.const(0)}
    try:
        num, den, series = (F._R(v).subs(sub) for v in (num, den, series))
        if not (num.d.is_const() and den.d.is_const() and series.d.is_const()):
            return False
        cn = {k: (v.const_value() / num.d.const_value()) for k, v in F.coeffs_in(num.n, "x").items()}
        cd = {k: (v.const_value() / den.d.const_value()) for k, v in F.coeffs_in(den.n, "x").items()}
        cs = {k: (v.const_value() / series.d.const_value()) for k, v in F.coeffs_in(series.n, "x").items()}
    except Exception:  # noqa  (a coefficient that is not a number)
        return False
    eps = Fraction(1, 2 ** 52)
    for k in range(2 * N + 1):
        r = cn.get(k, 0) - sum(cd.get(j, 0) * cs.get(k - j, 0) for j in range(k + 1))
        bound = eps * (abs(cn.get(k, 0)) + sum(abs(cd.get(j, 0) * cs.get(k - j, 0)) for j in range(k + 1)))
        if abs(r) > bound:
            return False
    return True


def _check_exp(ctx, tag, where, U, V, N):
    try:
        U, V = need(U, f"{tag} U"), need(V, f"{tag} V")
        resid = (V + U) - (V - U) * _exp_trunc(2 * N + 1)
        lo = _low_order(resid, 2 * N + 1)
    except Unsupported as e:
        ctx.error(f"{tag}: exp table", where, str(e))
        return
    ok = lo == 2 * N + 1 or _double_exact(V + U, V - U, _exp_trunc(2 * N + 1), N)
    ctx.check(ok, f"{tag}: (V+U)/(V-U) = exp(x) + O(x^{2*N+1}) exactly (diagonal Pade [{N}/{N}])", where,
              None if ok else {"first non-zero residual order": lo, "expected": 2 * N + 1})


def _check_int(ctx, tag, where, P, Q, N, which, scale):
    """P/Q == scale * phi(x) + O(x^{2N+1})"""
    try:
        P, Q = need(P, f"{tag} P"), need(Q, f"{tag} Q")
        phi = _phi1_trunc(2 * N + 1) if which == 1 else _phi2_trunc(2 * N + 1)
        resid = P - Q * scale * phi
        lo = _low_order(resid, 2 * N + 1)
        dP, dQ = _degree(P), _degree(Q)
    except Unsupported as e:
        ctx.error(f"{tag}: integral table", where, str(e))
        return
    ok = lo == 2 * N + 1 or _double_exact(P, Q, F._R(scale) * phi, N)
    nm = "sum x^k/(k+1)!" if which == 1 else "sum x^k/((k+2) k!)"
    ctx.check(ok, f"{tag}: P/Q = scale * {nm} + O(x^{2*N+1}) exactly ([{N}/{N}] approximant of the documented series)", where,
              None if ok else {"first non-zero residual order": lo, "expected": 2 * N + 1, "deg P": dP, "deg Q": dQ})


def r1_pade_tables(ctx):
    h = F.sym("h")
    cls = "_ExpmIntPadeHelper"
    for N, name in ((3, "pade3_i"), (5, "pade5_i"), (7, "pade7_i"), (9, "pade9_i")):
        fn = ctx.src.func(EXPM, f"{cls}.{name}")
        uv = {"self.pade7": _scipy_uv(7), "self.pade9": _scipy_uv(9)}
        ret, ev = _run_method(ctx, fn, "self", scipy_uv=uv)
        if not (isinstance(ret, tuple) and len(ret) == 4):
            ctx.error(f"{name}: return", fn, "expected (U, V, P, Q)")
            continue
        U, V, P, Q = ret
        if N in (3, 5):
            _check_exp(ctx, f"{cls}.{name}", fn, U, V, N)
        _check_int(ctx, f"{cls}.{name}", fn, P, Q, N, 1, h)
    # pade13 with scaling: B = A 2^-s, h -> h 2^-s
    fn = ctx.src.func(EXPM, f"{cls}.pade13_scaled_i")
    ret, ev = _run_method(ctx, fn, "self")
    if isinstance(ret, tuple) and len(ret) == 4:
        U, V, P, Q = ret
        sig = F.sym("2^s")
        try:
            # substitute x -> y * 2^s : everything must become a function of y = x 2^-s (and h 2^-s) only
            sub = {"x": F.sym("x") * sig}
            U2, V2, P2, Q2 = (need(t).subs(sub) for t in (U, V, P, Q))
            for nm, t in (("U", U2), ("V", V2), ("Q", Q2)):
                ok = not t.depends_on("2^s")
                ctx.check(ok, f"{cls}.pade13_scaled_i: {nm} is a function of A*2^-s only (every B_k carries 2^(-k s))", fn,
                          None if ok else repr(t)[:300])
            _check_exp(ctx, f"{cls}.pade13_scaled_i", fn, U2, V2, 13)
            Pn = P2 * sig  # P carries h 2^-s
            ok = not Pn.depends_on("2^s")
            ctx.check(ok, f"{cls}.pade13_scaled_i: P is (h 2^-s) times a function of A*2^-s", fn, None if ok else repr(Pn)[:300])
            _check_int(ctx, f"{cls}.pade13_scaled_i", fn, Pn, Q2, 13, 1, h)
        except Unsupported as e:
            ctx.error(f"{cls}.pade13_scaled_i", fn, str(e))
    else:
        ctx.error("pade13_scaled_i: return", fn, "expected (U, V, P, Q)")
    # _geti2: arms selected by `pade <= k`
    fn = ctx.src.func(EXPM, "_geti2")
    arms = [n for n in fn.body if isinstance(n, ast.If) and isinstance(n.test, ast.Compare)
            and isinstance(n.test.left, ast.Name) and n.test.left.id == "pade"]
    if len(arms) < 4:
        raise AnchorError("_geti2: expected four `pade <= k` arms")
    armdeg = []
    for arm in arms:
        env = _scalar_env("H")
        env["h"] = h
        ev = Evaluator(env=env, src=ctx.src, call=_call_hook({}))
        ev.run(arm.body)
        P, Q = ev.env.get("P"), ev.env.get("Q")
        if P is None or Q is None or is_unknown(P) or is_unknown(Q):
            ctx.error(f"_geti2 arm `{ast.unparse(arm.test)}`", arm, "no P/Q")
            armdeg.append((arm, None))
            continue
        k = _degree(need(Q))
        armdeg.append((arm, k))
        _check_int(ctx, f"_geti2[degree {k} table]", arm, P, Q, k, 2, h * h)
    # which arm does each order passed by expmint select?  (guards evaluated in source order)
    for v in (3, 5, 7, 9, 13):
        sel = None
        for arm, k in armdeg:
            try:
                hit = eval(compile(ast.Expression(arm.test), "<guard>", "eval"), {"__builtins__": {}}, {"pade": v})
            except Exception:  # noqa
                hit = None
            if hit:
                sel = (arm, k)
                break
        if v == 13:
            ctx.check(sel is None, "_geti2: order 13 selects no Pade table (direct solve / power series)", fn,
                      None if sel is None else ast.unparse(sel[0].test))
        else:
            ok = sel is not None and sel[1] == v
            ctx.check(ok, f"_geti2: order {v} (as passed by expmint) selects the degree-{v} table", sel[0] if sel else fn,
                      None if ok else {"selected degree": sel[1] if sel else None})
    # _ExpmPadeHelper_SS exp tables (block structure abstracted to the scalar homomorphism)
    cls = "_ExpmPadeHelper_SS"
    for N, name in ((3, "pade3"), (5, "pade5"), (7, "pade7"), (9, "pade9")):
        fn = ctx.src.func(EXPM, f"{cls}.{name}")
        ret, ev = _run_method(ctx, fn, "self")
        if not (isinstance(ret, tuple) and len(ret) == 2):
            ctx.error(f"{cls}.{name}: return", fn, "expected (U, V)")
            continue
        _check_exp(ctx, f"{cls}.{name}", fn, ret[0], ret[1], N)
    fn = ctx.src.func(EXPM, f"{cls}.pade13_scaled")
    ret, ev = _run_method(ctx, fn, "self")
    if isinstance(ret, tuple) and len(ret) == 2:
        try:
            sub = {"x": F.sym("x") * F.sym("2^s")}
            U2, V2 = (need(t).subs(sub) for t in ret)
            ok = not (U2.depends_on("2^s") or V2.depends_on("2^s"))
            ctx.check(ok, f"{cls}.pade13_scaled: U, V are functions of A*2^-s only", fn)
            _check_exp(ctx, f"{cls}.pade13_scaled", fn, U2, V2, 13)
        except Unsupported as e:
            ctx.error(f"{cls}.pade13_scaled", fn, str(e))
    else:
        ctx.error(f"{cls}.pade13_scaled: return", fn, "expected (U, V)")


def _double_rounding(ctx):
    """every Pade literal is represented by a double within 2^-53 relative of its decimal text"""
    m = ctx.src.mod(EXPM)
    n = bad = 0
    for node in ast.walk(m.tree):
        if isinstance(node, ast.Tuple) and len(node.elts) >= 4 and all(
                isinstance(e, ast.Constant) or (isinstance(e, ast.UnaryOp) and isinstance(e.operand, ast.Constant))
                for e in node.elts):
            for e in node.elts:
                c = e.operand if isinstance(e, ast.UnaryOp) else e
                if isinstance(c.value, float):
                    exact = const_from_node(c, ctx.src)
                    dbl = Fraction(c.value)
                    n += 1
                    if exact and abs(dbl - exact) / abs(exact) > Fraction(1, 2 ** 53):
                        bad += 1
    return n, bad


def r2_thresholds(ctx):
    """arms of expmint / _expm_SS: threshold constant, _ell order, table function and Return order agree"""
    n, bad = _double_rounding(ctx)
    ctx.check(bad == 0 and n >= 150, f"all {n} Pade-table literals are within 2^-53 relative of their decimal text", EXPM + ":1",
              {"literals": n, "badly rounded": bad})
    for q, pat in (("expmint", "pade{}_i"), ("_expm_SS", "pade{}")):
        fn = ctx.src.func(EXPM, q)
        arms = [n_ for n_ in fn.body if isinstance(n_, ast.If) and isinstance(n_.test, ast.BoolOp)]
        found = {}
        for arm in arms:
            cmp_ = [v for v in arm.test.values if isinstance(v, ast.Compare) and isinstance(v.left, ast.Name)
                    and v.left.id.startswith("eta")]
            ell = [c for c in ast.walk(arm.test) if isinstance(c, ast.Call) and dotted(c.func) == "mf._ell"]
            if not cmp_ or not ell:
                continue
            thr = const_from_node(cmp_[0].comparators[0], ctx.src)
            m = ast.literal_eval(ell[0].args[1])
            calls = [dotted(c.func) for st in arm.body for c in ast.walk(st) if isinstance(c, ast.Call)]
            tbl = [c for c in calls if c and ("pade" in c)]
            ret_order = None
            for st in arm.body:
                for c in ast.walk(st):
                    if isinstance(c, ast.Call) and dotted(c.func) == "Return" and c.args:
                        ret_order = ast.literal_eval(c.args[-1])
            found[m] = (thr, tbl, ret_order, arm)
        for m in (3, 5, 7, 9):
            if m not in found:
                ctx.fail(f"{q}: arm for Pade order {m} present", fn, sorted(found))
                continue
            thr, tbl, ret_order, arm = found[m]
            ok = thr == THETA[m] and isinstance(arm.test.values[0].ops[0], ast.Lt)
            ctx.check(ok, f"{q}: order-{m} arm uses theta_{m} (Al-Mohy & Higham) with `<`", arm,
                      None if ok else {"threshold": str(thr), "theta": str(THETA[m])})
            want = pat.format(m)
            ok = any(t.endswith("." + want) for t in tbl)
            ctx.check(ok, f"{q}: order-{m} arm calls {want}", arm, None if ok else tbl)
            if q == "expmint":
                ctx.check(ret_order == m, f"{q}: order-{m} arm tells _geti2 pade={m}", arm, ret_order)
        # theta_13 and the scaling
        th13 = [n_ for n_ in walk_no_nested(fn) if isinstance(n_, ast.Assign) and isinstance(n_.targets[0], ast.Name)
                and n_.targets[0].id == "theta_13"]
        ok = bool(th13) and const_from_node(th13[0].value, ctx.src) == THETA[13]
        ctx.check(ok, f"{q}: theta_13 == 4.25", th13[0] if th13 else fn)
        sdef = [n_ for n_ in walk_no_nested(fn) if isinstance(n_, ast.Assign) and isinstance(n_.targets[0], ast.Name)
                and n_.targets[0].id == "s"]
        txt = [ast.unparse(s_.value).replace(" ", "").replace("2**(-s)", "2**-s") for s_ in sdef]
        ok = len(txt) == 2 and txt[0] == "max(int(np.ceil(np.log2(eta_5/theta_13))),0)" and "mf._ell(2**-s*" in txt[1] \
            and txt[1].endswith(",13)")
        ctx.check(ok, f"{q}: s = max(ceil(log2(eta_5/theta_13)), 0) + ell(2^-s A, 13)", sdef[0] if sdef else fn, txt)
    # getEPQ switch == theta_9 (the largest norm for which getEPQ1's expmint needs no squaring beyond Pade 9)
    fn = ctx.src.func(EXPM, "getEPQ")
    cmps = [n_ for n_ in walk_no_nested(fn) if isinstance(n_, ast.Compare)]
    ok = len(cmps) == 1 and isinstance(cmps[0].ops[0], ast.LtE) and \
        const_from_node(cmps[0].comparators[0], ctx.src) == THETA[9]
    ctx.check(ok, "getEPQ: switches between getEPQ1 and getEPQ2 at norm1 <= theta_9 = 2.097847961257068", fn)
    norm = [n_ for n_ in walk_no_nested(fn) if isinstance(n_, ast.Assign) and isinstance(n_.targets[0], ast.Name)
            and n_.targets[0].id == "norm1"]
    ok = bool(norm) and ast.unparse(norm[0].value).replace(" ", "") in ("h*np.linalg.norm(A,1)", "np.linalg.norm(A,1)*h")
    ctx.check(ok, "getEPQ: the switch variable is h * ||A||_1", norm[0] if norm else fn)
    rets = [n_ for n_ in walk_no_nested(fn) if isinstance(n_, ast.Return)]
    sig = [ast.unparse(r.value).replace(" ", "") for r in rets]
    ok = sig == ["getEPQ1(A,h,order,B,half)", "getEPQ2(A,h,order,B,half)"]
    ctx.check(ok, "getEPQ: both variants receive (A, h, order, B, half) unchanged", fn, sig)


def r3_squaring(ctx):
    fn = ctx.src.func(EXPM, "expmint")
    loops = [n for n in fn.body if isinstance(n, ast.For)]
    if len(loops) != 1:
        raise AnchorError("expmint: squaring loop")
    lp = loops[0]
    ok = ast.unparse(lp.iter).replace(" ", "") == "range(s)"
    ctx.check(ok, "expmint: squaring loop runs s times", lp, ast.unparse(lp.iter))
    E, I = F.sym("E"), F.sym("Int")

    def call(node, ev):
        if isinstance(node.func, ast.Attribute) and node.func.attr == "dot" and len(node.args) == 1:
            a, b = ev.ev(node.func.value), ev.ev(node.args[0])
            if is_unknown(a) or is_unknown(b):
                return a if is_unknown(a) else b
            return need(a) * need(b)
        return NotImplemented

    ev = Evaluator(env={"E": E, "I": I}, src=ctx.src, call=call)
    ev.run(lp.body)
    e2, i2 = ev.env["E"], ev.env["I"]
    if is_unknown(e2) or is_unknown(i2):
        ctx.error("expmint squaring body", lp, f"{e2} {i2}")
        return
    ok = i2.equals(I + I * E)
    ctx.check(ok, "expmint: integral doubling uses E before it is squared: I <- I + I.E  (int_0^2h = int_0^h + e^{Ah} int_0^h)", lp,
              None if ok else repr(i2))
    ok = e2.equals(E * E)
    ctx.check(ok, "expmint: E <- E.E", lp, None if ok else repr(e2))
    # the helper is built on A*h
    helper = [n for n in walk_no_nested(fn) if isinstance(n, ast.Call) and dotted(n.func) == "_ExpmIntPadeHelper"]
    ok = bool(helper) and ast.unparse(helper[0].args[0]).replace(" ", "") in ("A*h", "h*A")
    ctx.check(ok, "expmint: the Pade helper works on A*h", helper[0] if helper else fn)
    # Return(): E from (U, V), I from (P, Q), I2 from _geti2 with the same h
    ret = ctx.src.func(EXPM, "expmint.Return")
    txt = utext(ret)
    ok = "E=mf._solve_P_Q(U,V,structure=structure)" in txt and "I=_solve_P_Q_2(P,Q,structure=structure)" in txt \
        and "_geti2(H,E,I,h,pade)" in txt
    ctx.check(ok, "expmint.Return: E = solve(V-U, V+U), I = solve(Q, P), I2 = _geti2(H, E, I, h, pade)", ret)
    sp = ctx.src.func(EXPM, "_solve_P_Q_2")
    calls = [utext(c) for c in ast.walk(sp) if isinstance(c, ast.Call)]
    ok = "mf.spsolve(Q,P)" in calls and "mf.solve(Q,P)" in calls and "mf.solve_triangular(Q,P)" in calls
    ctx.check(ok, "_solve_P_Q_2 solves Q X = P on all three structures", sp, calls)


def _unroll_series(ctx, fn, loop, env, iters):
    def call(node, ev):
        if isinstance(node.func, ast.Attribute) and node.func.attr == "dot" and len(node.args) == 1:
            a, b = ev.ev(node.func.value), ev.ev(node.args[0])
            if is_unknown(a) or is_unknown(b):
                return a if is_unknown(a) else b
            return need(a) * need(b)
        d = dotted(node.func)
        if d == "np.eye":
            return F.const(1)
        return NotImplemented

    ev = Evaluator(env=env, src=ctx.src, call=call)
    pre = []
    for st in fn.body:
        if st is loop:
            break
        pre.append(st)
    # only straight-line assignments before the loop
    ev.run([s for s in pre if isinstance(s, (ast.Assign, ast.AugAssign))])
    for _ in range(iters):
        ev.run(loop.body)
    return ev


def r4_siblings(ctx):
    # getEPQ1 vs getEPQ_pow: P, Q from (I, I2) identically
    res = {}
    for q, callee in (("getEPQ1", "expmint"), ("getEPQ_pow", "expmint_pow")):
        fn = ctx.src.func(EXPM, q)
        for order in (0, 1):
            E, I, I2 = F.sym("E"), F.sym("I"), F.sym("I2")

            def call(node, ev, callee=callee):
                d = dotted(node.func)
                if d == callee:
                    if len(node.args) >= 3 or callee == "expmint_pow":
                        return (E, I, I2)
                    return (E, I)
                if d == "_procBhalf":
                    return tuple(ev.ev(a) for a in node.args)
                return NotImplemented

            def cond(test, ev, order=order):
                t = utext(test)
                if t == "order==1":
                    return order == 1
                if t == "order==0":
                    return order == 0
                return None

            ev = Evaluator(env={"h": F.sym("h"), "order": F.const(order)}, src=ctx.src, call=call, cond=cond)
            ev.run(fn.body)
            if not ev.returns:
                ctx.error(f"{q}: return", fn)
                continue
            ret = ev.returns[-1][0]
            if not isinstance(ret, tuple) or len(ret) < 3:
                ctx.error(f"{q}: return shape", fn, repr(ret))
                continue
            res[(q, order)] = (ret[0], ret[1], ret[2], fn)
    want = {1: (F.sym("I2") / F.sym("h"), F.sym("I") - F.sym("I2") / F.sym("h")), 0: (F.sym("I"), F.const(0))}
    for (q, order), (E_, P_, Q_, fn) in res.items():
        if is_unknown(P_) or is_unknown(Q_):
            ctx.error(f"{q} order {order}", fn, f"{P_} {Q_}")
            continue
        ok = P_.equals(want[order][0]) and Q_.equals(want[order][1]) and not is_unknown(E_) and E_.equals(F.sym("E"))
        ctx.check(ok, f"{q}(order={order}): P = {'I2/h' if order else 'I'}, Q = {'I - I2/h' if order else '0'} "
                      "(first-order hold: int e^{A(h-t)} (1-t/h), int e^{A(h-t)} t/h)", fn,
                  None if ok else {"P": repr(P_), "Q": repr(Q_)})
    # _procBhalf
    fn = ctx.src.func(EXPM, "_procBhalf")
    txt = utext(fn)
    ok = "P=P.dot(B)" in txt and "Q=Q.dot(B)" in txt and "P=P[:,:n]" in txt and "Q=Q[:,:n]" in txt and "n=n//2" in txt
    ctx.check(ok, "_procBhalf: B multiplies from the right; `half` keeps the first n//2 input columns of both P and Q", fn)
    # expmint_pow: unroll the series loop
    fn = ctx.src.func(EXPM, "expmint_pow")
    loops = [n for n in fn.body if isinstance(n, ast.While)]
    if len(loops) != 1:
        raise AnchorError("expmint_pow loop")
    K = 5
    ev = _unroll_series(ctx, fn, loops[0], {"A": F.sym("a"), "h": F.sym("h")}, K)
    x = F.sym("a") * F.sym("h")
    sub = {"x": x}
    want = {"E": _exp_trunc(K).subs(sub), "Int1": _phi1_trunc(K).subs(sub), "Int2": _phi2_trunc(K).subs(sub)}
    for nm, w in want.items():
        got = ev.env.get(nm)
        if got is None or is_unknown(got):
            ctx.error(f"expmint_pow {nm}", fn, repr(got))
            continue
        ok = got.equals(w)
        ctx.check(ok, f"expmint_pow: after {K} iterations {nm} is the degree-{K} partial sum of its documented series", loops[0],
                  None if ok else {"got": repr(got), "want": repr(w)})
    rets = [n for n in walk_no_nested(fn) if isinstance(n, ast.Return)]
    ok = bool(rets) and ast.unparse(rets[-1].value).replace(" ", "") in ("(E,h*Int1,h*h*Int2)", "(E,h*Int1,h**2*Int2)")
    ctx.check(ok, "expmint_pow returns (E, h*Int1, h^2*Int2)", rets[-1] if rets else fn)
    # _geti2 Taylor fallback
    fn = ctx.src.func(EXPM, "_geti2")
    loops = [n for n in fn.body if isinstance(n, ast.While)]
    if len(loops) != 1:
        raise AnchorError("_geti2 series loop")
    ev = _unroll_series(ctx, fn, loops[0], {"H.A": F.sym("x"), "h": F.sym("h")}, K)
    got = ev.env.get("I2")
    if got is None or is_unknown(got):
        ctx.error("_geti2 Taylor I2", fn, repr(got))
    else:
        ok = got.equals(_phi2_trunc(K))
        ctx.check(ok, f"_geti2 fallback: after {K} iterations I2 is the partial sum of sum x^k/((k+2) k!)", loops[0],
                  None if ok else repr(got))
    rets = [n for n in fn.body if isinstance(n, ast.Return)]
    ok = bool(rets) and ast.unparse(rets[-1].value).replace(" ", "") in ("h*h*I2", "(h*h)*I2", "h**2*I2")
    ctx.check(ok, "_geti2 fallback returns h^2 * I2", rets[-1] if rets else fn)
    # _geti2 direct arm: I2 = A^-1 (h E h - A^-1 h (E - 1))  with H.A = A h
    direct = [n for n in ast.walk(fn) if isinstance(n, ast.Try)]
    if direct:
        E, x, h = F.sym("E"), F.sym("x"), F.sym("h")

        def call(node, ev):
            d = dotted(node.func)
            if d == "la.lu_factor":
                return ev.ev(node.args[0])
            if d == "la.lu_solve":
                a, b = ev.ev(node.args[0]), ev.ev(node.args[1])
                if is_unknown(a) or is_unknown(b):
                    return a if is_unknown(a) else b
                return need(b) / need(a)
            if d == "np.eye":
                return F.const(1)
            return NotImplemented

        ev = Evaluator(env={"H.A": x, "h": h, "E": E}, src=ctx.src, call=call,
                       cond=lambda t, ev: True if "allclose" in ast.unparse(t) else None)
        ev.run(direct[0].body)
        if ev.returns and not is_unknown(ev.returns[-1][0]):
            got = ev.returns[-1][0]
            # with E = e^x: int_0^h t e^{At} dt = h^2 (x e^x - e^x + 1)/x^2
            wantv = h * h * (x * E - E + 1) / (x * x)
            ok = got.equals(wantv)
            ctx.check(ok, "_geti2 direct arm equals h^2 (x e^x - e^x + 1)/x^2 with x = A h", direct[0],
                      None if ok else {"got": repr(got), "want": repr(wantv)})
        else:
            ctx.error("_geti2 direct arm", direct[0], "could not evaluate")


# ---------------------------------------------------------------------------
SSM = "pyyeti/ssmodel.py"


def _ss_eval(ctx, qual, method, env, prewarp_zero=True):
    """evaluate one `method` arm of SSModel.c2d / d2c in the scalar image (every matrix is a function of the one matrix A,
    so they commute; B stays a right factor, C a left factor).  Returns (A, B, C, D) or raises Unsupported."""
    fn = ctx.src.func(SSM, qual)
    a_sym = env["__A"]

    def epq(A, h, order, B):
        E = F.exp(A * h)
        I1 = (E - 1) / A
        I2 = (A * h * E - E + 1) / (A * A)      # int_0^h t e^{At} dt
        if order == 0:
            P, Q = I1, F.const(0)
        else:
            P, Q = I2 / h, I1 - I2 / h
        if B is not None:
            P, Q = P * B, Q * B
        return (E, P, Q)

    def call(node, ev):
        d = dotted(node.func)
        if d == "expmint.getEPQ":
            A = need(ev.ev(node.args[0]), "getEPQ A")
            h = need(ev.ev(node.args[1]), "getEPQ h")
            o = need(ev.ev(node.args[2]), "getEPQ order")
            if not o.is_const():
                raise Unsupported("getEPQ order is not a literal")
            B = None
            for k in node.keywords:
                if k.arg == "B":
                    B = need(ev.ev(k.value), "getEPQ B")
            if len(node.args) > 3:
                B = need(ev.ev(node.args[3]), "getEPQ B")
            return epq(A, h, int(o.const_value()), B)
        if d == "SSModel":
            return tuple(ev.ev(a) for a in node.args[:4])
        if d == "np.eye":
            return F.const(1)
        if d == "la.lu_factor":
            return ev.ev(node.args[0])
        if d in ("la.lu_solve", "la.solve"):
            x, y = ev.ev(node.args[0]), ev.ev(node.args[1])
            if is_unknown(x) or is_unknown(y):
                return x if is_unknown(x) else y
            return need(y) / need(x)
        if d == "la.eig":
            return (ev.ev(node.args[0]), F.const(1))     # scalar image: eigenvalue = the matrix, eigenvector = 1
        if d == "np.tan":
            return F.fn("tan", need(ev.ev(node.args[0])))
        if isinstance(node.func, ast.Attribute) and node.func.attr == "dot" and len(node.args) == 1:
            x, y = ev.ev(node.func.value), ev.ev(node.args[0])
            if is_unknown(x) or is_unknown(y):
                return x if is_unknown(x) else y
            return need(x) * need(y)
        return NotImplemented

    def cond(test, ev):
        t = utext(test)
        if t in ("self.h", "self.hisNone"):
            return {"self.h": qual.endswith("c2d") and False, "self.hisNone": False}[t]
        if t.startswith("method=="):
            return t == f"method=='{method}'" or t == f'method=="{method}"'
        if t in ("prewarpisNoneorprewarp==0",):
            return prewarp_zero
        return None

    e = {k: v for k, v in env.items() if not k.startswith("__")}
    ev = Evaluator(env=e, src=ctx.src, call=call, cond=cond)
    ev.run(fn.body)
    if not ev.returns:
        raise Unsupported(f"{qual}[{method}]: no return reached")
    ret = ev.returns[-1][0]
    if not isinstance(ret, tuple) or len(ret) != 4 or any(is_unknown(x) for x in ret):
        raise Unsupported(f"{qual}[{method}]: {ret!r}")
    return ret, ev.returns[-1][1] if len(ev.returns[-1]) > 1 else fn


def r5_ssmodel(ctx):
    """SSModel.c2d / d2c, per method: (i) the discrete model has the transfer function the hold assumption defines (zoh, zoha, foh)
    or the bilinear substitution s = k (z-1)/(z+1) of the continuous one (tustin, with k = 2/h or the prewarp value);
    (ii) d2c(c2d(model)) is the model again.  Decided in the scalar image (all matrices involved are functions of A and commute)."""
    a, b, c, d, h, z, w = (F.sym(x) for x in ("a", "b", "c", "d", "h", "z", "w"))
    E = F.exp(a * h)
    I1 = (E - 1) / a
    I2 = (a * h * E - E + 1) / (a * a)
    Hs = lambda s_: c * b / (s_ - a) + d                                # noqa: E731
    cfn = ctx.src.func(SSM, "SSModel.c2d")
    dfn = ctx.src.func(SSM, "SSModel.d2c")
    cases = [("zoh", True), ("zoha", True), ("foh", True), ("tustin", True), ("tustin", False)]
    for method, pw0 in cases:
        tag = method + ("" if method != "tustin" else (" (no prewarp)" if pw0 else " (prewarp)"))
        env = {"self.A": a, "self.B": b, "self.C": c, "self.D": d, "h": h, "prewarp": F.const(0) if pw0 else w, "__A": a,
               "method": F.sym("method")}
        try:
            (zA, zB, zC, zD), _ = _ss_eval(ctx, "SSModel.c2d", method, env, pw0)
        except Unsupported as e:
            ctx.error(f"c2d[{tag}]: could not evaluate", cfn, str(e))
            continue
        Hz = need(zC) * need(zB) / (z - need(zA)) + need(zD)
        if method == "tustin":
            k = F.const(2) / h if pw0 else w / F.fn("tan", w * h / 2)
            want = Hs(k * (z - 1) / (z + 1))
            what = "H_z(z) = H_s(k (z-1)/(z+1)) with k = " + ("2/h" if pw0 else "w/tan(w h/2)")
        else:
            # x[k+1] = E x[k] + Pu u[k] + Qu u[k+1]:  H_z = c (Pu + z Qu) b / (z - E) + d
            Pu, Qu = {"zoh": (I1, F.const(0)), "zoha": (I1 / 2, I1 / 2), "foh": (I2 / h, I1 - I2 / h)}[method]
            want = c * (Pu + z * Qu) * b / (z - E) + d
            what = {"zoh": "input held at its start-of-step value", "zoha": "input held at the average of its two end values",
                    "foh": "input linear across the step"}[method]
            what = f"H_z(z) is the exactly sampled response with the {what}"
        ok = Hz.equals(want)
        ctx.check(ok, f"c2d[{tag}]: {what}", cfn, None if ok else {"got": repr(Hz), "want": repr(want)})
        # round trip
        env2 = {"self.A": zA, "self.B": zB, "self.C": zC, "self.D": zD, "self.h": h, "prewarp": F.const(0) if pw0 else w, "__A": zA,
                "method": F.sym("method")}
        try:
            (sA, sB, sC, sD), _ = _ss_eval(ctx, "SSModel.d2c", method, env2, pw0)
        except Unsupported as e:
            ctx.error(f"d2c[{tag}]: could not evaluate", dfn, str(e))
            continue
        for nm, got, wantv in (("A", sA, a), ("B", sB, b), ("C", sC, c), ("D", sD, d)):
            ok = need(got).equals(wantv)
            ctx.check(ok, f"d2c[{tag}](c2d[{tag}](s)).{nm} == s.{nm}", dfn, None if ok else repr(got))
    # both conversions refuse an unknown method (no silent fall-through to some default formula)
    for fn in (cfn, dfn):
        last = fn.body[-1]
        ok = isinstance(last, ast.Raise)
        ctx.check(ok, f"{fn.name}: an unknown method raises instead of falling through", last)
    # the discrete model records h / method / prewarp so that d2c can use the same ones
    rets = [n for n in walk_no_nested(cfn) if isinstance(n, ast.Return) and isinstance(n.value, ast.Call) and dotted(n.value.func) == "SSModel"]
    ok = len(rets) == 4 and all(len(r.value.args) >= 5 and utext(r.value.args[4]) == "h" for r in rets)
    ctx.check(ok, "c2d: every discrete model is constructed with the step h it was computed for", cfn)


RULES = [
    ("C07-R1", r1_pade_tables, 27),
    ("C07-R2", r2_thresholds, 25),
    ("C07-R3", r3_squaring, 6),
    ("C07-R4", r4_siblings, 11),
    ("C07-R5", r5_ssmodel, 28),
]
LEVEL = "other"
EXPLANATION = ("Static: every Pade coefficient table in expmint.py (17 tables) is extracted under the scalar homomorphism A->x and checked, "
               "in exact rational arithmetic on the literals' decimal text, to satisfy the order conditions of the diagonal approximant of "
               "exp(x), sum x^k/(k+1)! and sum x^k/((k+2)k!); arm thresholds equal the published theta_m and agree with the _ell order, table and "
               "_geti2 order of the same arm; scaling by 2^-s is uniform; the squaring loop updates the integral before squaring E; "
               "getEPQ1/getEPQ_pow build P,Q identically; the power-series loops produce the documented partial sums; getEPQ switches at theta_9; "
               "SSModel.c2d/d2c formulas are evaluated symbolically per method: hold-equivalent / bilinear transfer function and round trip.")
MANIFEST = {
    "text": "Partial claim decided statically: (R1) all 17 Pade tables are exact diagonal approximants (order conditions to O(x^(2N+1)) in exact rationals), "
            "with 2^-s scaling applied uniformly; (R2) per-arm threshold/ell-order/table/_geti2-order agreement with the published theta_m, getEPQ's switch; "
            "(R3) squaring loop I <- I + I.E before E <- E.E; (R4) getEPQ1 == getEPQ_pow in P,Q construction, power-series partial sums, direct I2 formula; "
            "(R5) SSModel.c2d/d2c per method (zoh, zoha, foh, tustin with and without prewarp): the discrete transfer function is the exactly sampled one for the "
            "stated hold / the bilinear substitution of the continuous one, and d2c(c2d(s)) = s, in the scalar image. "
            "Not decided: floating-point accuracy, scipy's norm estimates and solves, conditioning, the block structure of _ExpmPadeHelper_SS beyond its scalar image.",
    "note": "Trusted: CPython ast; exact Fraction arithmetic; scipy's _ExpmPadeHelper.pade7/pade9 are taken to be the diagonal Pade approximants (library). "
            "The matrix polynomial identities are checked through the scalar homomorphism A -> x (sound for polynomials in one matrix).",
    "technique": "static extraction of coefficient tables and matrix-polynomial formulas + exact rational order-condition checks; structural arm/threshold agreement",
}
