"""C07 -- matrix exponential, its integrals, getEPQ variants (partial claim).

Every rule decides on *values*: the functions of pyyeti/expmint.py and pyyeti/ssmodel.py are evaluated by the symbolic interpreter of
c07_interp.py (constant folding, helpers/closures/methods/properties followed, module-level tables resolved, loops over literal sequences
unrolled) in the scalar image of the matrix algebra (every matrix is a function of the one matrix A), in *regimes* chosen by the rule
(norm estimates just below / above a threshold, order 0 / 1, B given or not, structure, method name).  No rule looks at the spelling of the
source: which locals exist, in which order the arms are written, whether a helper was extracted or a table moved to module level, how the
bounds of a slice are written (a block is the set of rows / columns selected in an array of known shape), under which alias a library is
imported, or how the private helpers of expmint (_geti2, _solve_P_Q_2) name and order their parameters (they are evaluated as expmint
reaches them).  Conventions that are read from the callee's own signature: _expm_SS(A, ssA, order), pade13_scaled_i(s, h), pade13_scaled(s),
the (U, V, P, Q) order of the table methods' results.

Pass 3: option regimes include (B given, half=True) for every getEPQ variant (the option is documented to be ignored: sibling agreement);
SSModel conversions are composed on the *objects* the methods return (c2d(d2c(z)) = z on the converted and on a generic discrete model,
getlti), so what a result says about itself (h, method, prewarp) is part of the value; R7 is a typestate rule: the A^-1 formula of the second
integral is justified only by a test, made on the same path, of a solve with the factorisation of A against the independently computed first
integral (la.lu_factor is the pair (lufac, lupiv): a solve with it is a division, anything else read from it is a function of the factors).

Pass 4: the evaluator follows iterator state, mutable lists, generator functions, closures that rebind, loops left from inside, exception
handlers (c07_interp docstring); a value that contains something it did not follow (`call:not-followed`, the result `@exit` of a loop
whose number of passes depends on data, a library call no rule models) makes an obligation an ANALYSIS-ERROR, never a VIOLATION: every
comparison goes through `verdict` / `_unmodelled`, a route whose Pade table is such a value counts as not evaluated.  The scaling power
of the order-13 route is decided on numbers: ceil / floor / round / int and log2 of constants are evaluated exactly, and the norm
estimates of five regimes are placed so that theta_13, the rounding direction, the clamp at 0 and min(eta_3, eta_4) each show.

Pass 5 (c07_switch.py; round-4 seed J): getEPQ is evaluated with concrete options -- B None / given, half False / True, order 0 / 1 -- and per
outcome of its norm test (before, B and half were symbols, i.e. an input matrix and an option nothing decides: the regime B None was never
evaluated).  Typestate: a result computed by getEPQ1 / expmint with the second integral is returned only on a path that has established
h ||A||_1 <= theta_9 (k h ||A||_1 <op> c is read as the test on h ||A||_1; a comparison with +infinity establishes nothing), one computed by
a power-series routine only behind some bound on the norm; the routine reached receives the options as given (defaults completed from its own
signature, half immaterial with an input matrix) and its E, P, Q are handed on unchanged; getEPQ1 written out in place is compared with what
getEPQ1 returns under the same evaluation (equal: fine; different: undecided).
"""
from __future__ import annotations

import ast
import re
from fractions import Fraction
from math import factorial

from . import e2_formula as F
from .core import AnchorError, Unsupported
from .e2_eval import is_unknown, need, const_from_node
from . import c07_interp as I
from .c07_interp import Interp, Native, Obj, Raised, Ref, fn_parts, clone, to_rat, trip_count

EXPM = "pyyeti/expmint.py"
SSM = "pyyeti/ssmodel.py"

# Al-Mohy & Higham 2009 (SIAM J. Matrix Anal. Appl. 31) theta_m for m = 3, 5, 7, 9, 13 -- published constants,
# not copied from the repository
THETA = {3: Fraction("1.495585217958292e-2"), 5: Fraction("2.539398330063230e-1"),
         7: Fraction("9.504178996162932e-1"), 9: Fraction("2.097847961257068"), 13: Fraction("4.25")}
HELPER_ATTR = re.compile(r"_?A([2-9]|1[0-9])|ident|structure|use_exact_onenorm|d(4|6|8|10)_(loose|tight)|pade(3|5|7|9|13)(_i|_scaled|_scaled_i)?")
EPS = Fraction(1, 2 ** 60)          # probes sit at theta (1 -+ 2^-60): a 16-digit literal that differs from theta in its last digit is seen
DNAMES = ("d4_loose", "d6_loose", "d8_loose", "d10_loose", "d4_tight", "d6_tight", "d8_tight", "d10_tight")


# ------------------------------------------------------------------------------------------------------------ series / order conditions
def _exp_trunc(n):
    x = F.sym("x")
    return sum((x ** k / factorial(k) for k in range(n + 1)), F.const(0))


def _phi1_trunc(n):   # (e^x - 1)/x = sum x^k/(k+1)!
    x = F.sym("x")
    return sum((x ** k / factorial(k + 1) for k in range(n + 1)), F.const(0))


def _phi2_trunc(n):   # int_0^1 t e^{xt} dt = sum x^k/((k+2) k!)
    x = F.sym("x")
    return sum((x ** k / ((k + 2) * factorial(k)) for k in range(n + 1)), F.const(0))


def _low_order(expr, upto):
    """first exponent k <= upto of x with non-zero coefficient in Rat expr (polynomial in x), or None."""
    expr = F._R(expr)
    if not expr.d.is_const():
        raise Unsupported(f"not a polynomial in x: {expr}")
    co = F.coeffs_in(expr.n, "x")
    ks = sorted(k for k in co if k <= upto)
    return ks[0] if ks else None


def _degree(expr, name="x"):
    expr = F._R(expr)
    co = F.coeffs_in(expr.n, name)
    return max(co) if co else 0


def _scipy_uv(N, A):
    """scipy's own pade7/pade9 (trusted library): the diagonal Pade approximant written as V+U / V-U, on the matrix A."""
    c = [Fraction(factorial(2 * N - j) * factorial(N), factorial(2 * N) * factorial(N - j) * factorial(j)) for j in range(N + 1)]
    U = sum((c[j] * A ** j for j in range(1, N + 1, 2)), F.const(0))
    V = sum((c[j] * A ** j for j in range(0, N + 1, 2)), F.const(0))
    return (U, V)


def _double_exact(num, den, series, N):
    """the order conditions hold when every literal is read as the double Python computes with: the residual coefficients r_k =
    num_k - sum_j den_j * series_{k-j}, k <= 2N, are within the rounding of the literals (2^-52 relative per coefficient).
    A table retyped with 17 significant digits is the same program; a table with a wrong digit is not."""
    try:
        num, den, series = (F._R(v) for v in (num, den, series))
        if any(v.depends_on("h") or v.depends_on("s") or v.depends_on("2^s") for v in (num, den, series)):
            return False
        if not (num.d.is_const() and den.d.is_const() and series.d.is_const()):
            return False
        cn = {k: (v.const_value() / num.d.const_value()) for k, v in F.coeffs_in(num.n, "x").items()}
        cd = {k: (v.const_value() / den.d.const_value()) for k, v in F.coeffs_in(den.n, "x").items()}
        cs = {k: (v.const_value() / series.d.const_value()) for k, v in F.coeffs_in(series.n, "x").items()}
    except Exception:  # noqa  (a coefficient that is not a number)
        return False
    eps = Fraction(1, 2 ** 52)
    for k in range(2 * N + 1):
        r = cn.get(k, 0) - sum(cd.get(j, 0) * cs.get(k - j, 0) for j in range(k + 1))
        bound = eps * (abs(cn.get(k, 0)) + sum(abs(cd.get(j, 0) * cs.get(k - j, 0)) for j in range(k + 1)))
        if abs(r) > bound:
            return False
    return True


def _check_exp(ctx, tag, where, U, V, N):
    cr = _find_crash((U, V))
    if cr is not None:
        ctx.fail(f"{tag}: (V+U)/(V-U) = exp(x) + O(x^{2*N+1}) exactly (diagonal Pade [{N}/{N}])", where, {"evaluation raises": cr.why})
        return
    try:
        U, V = need(U, f"{tag} U"), need(V, f"{tag} V")
        if _unmodelled([U, V]):
            raise Unsupported(f"library calls the rule does not model: {_unmodelled([U, V])}")
        resid = (V + U) - (V - U) * _exp_trunc(2 * N + 1)
        lo = _low_order(resid, 2 * N + 1)
    except Unsupported as e:
        ctx.error(f"{tag}: exp table", where, str(e))
        return
    ok = lo == 2 * N + 1 or _double_exact(V + U, V - U, _exp_trunc(2 * N + 1), N)
    ctx.check(ok, f"{tag}: (V+U)/(V-U) = exp(x) + O(x^{2*N+1}) exactly (diagonal Pade [{N}/{N}])", where,
              None if ok else {"first non-zero residual order": lo, "expected": 2 * N + 1})


def _check_int(ctx, tag, where, P, Q, N, which, scale):
    """P/Q == scale * phi(x) + O(x^{2N+1}); scale is a power of h: P/scale and Q must be polynomials in x alone"""
    nm = "sum x^k/(k+1)!" if which == 1 else "sum x^k/((k+2) k!)"
    title = f"{tag}: P/Q = scale * {nm} + O(x^{2*N+1}) exactly ([{N}/{N}] approximant of the documented series)"
    cr = _find_crash((P, Q))
    if cr is not None:
        ctx.fail(title, where, {"evaluation raises": cr.why})
        return
    try:
        P, Q = need(P, f"{tag} P"), need(Q, f"{tag} Q")
        if _unmodelled([P, Q]):
            raise Unsupported(f"library calls the rule does not model: {_unmodelled([P, Q])}")
        phi = _phi1_trunc(2 * N + 1) if which == 1 else _phi2_trunc(2 * N + 1)
        P0 = P / scale
        if P0.depends_on("h") or Q.depends_on("h"):
            ctx.fail(title, where, {"why": f"P is not {scale!r} times a polynomial in A alone, or Q depends on h", "P/scale": repr(P0)[:200]})
            return
        resid = P0 - Q * phi
        lo = _low_order(resid, 2 * N + 1)
        dP, dQ = _degree(P0), _degree(Q)
    except Unsupported as e:
        ctx.error(f"{tag}: integral table", where, str(e))
        return
    ok = lo == 2 * N + 1 or _double_exact(P0, Q, phi, N)
    ctx.check(ok, title, where,
              None if ok else {"first non-zero residual order": lo, "expected": 2 * N + 1, "deg P": dP, "deg Q": dQ})


# ------------------------------------------------------------------------------------------------------------ the scalar image
def _mul(it, a, b):
    return it.binop(ast.Mult(), a, b)


def _div(it, a, b):
    return it.binop(ast.Div(), a, b)


def _quot(a, b):
    """a / b for two formulas; Unknown when either was not evaluated"""
    if not isinstance(a, F.Rat) or not isinstance(b, F.Rat) or is_unknown(a) or is_unknown(b):
        return I.Unknown("a table that was not evaluated")
    try:
        return a / b
    except (Unsupported, ZeroDivisionError) as e:
        return I.Unknown(str(e))


def _cayley(U, V):
    """(V + U) / (V - U), the exponential the Pade numerator / denominator pair stands for"""
    if not isinstance(U, F.Rat) or not isinstance(V, F.Rat) or is_unknown(U) or is_unknown(V):
        return I.Unknown("a table that was not evaluated")
    return _quot(V + U, V - U)


def _factored(v):
    """the matrix a solve is made with: la.lu_factor's (lu, piv) pair stands for the matrix factored"""
    if isinstance(v, tuple) and len(v) == 2:
        p = fn_parts(v[0])
        q = fn_parts(v[1])
        if p is not None and q is not None and p[0] == "lufac" and q[0] == "lupiv" and I.same_value(p[1][0], q[1][0]):
            return p[1][0]
    return v


ROUNDERS = {"np.ceil": "ceil", "math.ceil": "ceil", "np.floor": "floor", "math.floor": "floor", "np.trunc": "trunc", "math.trunc": "trunc",
            "np.fix": "trunc", "np.rint": "round", "np.round": "round", "np.around": "round", "round": "round", "int": "trunc", "np.int64": "trunc",
            "np.intp": "trunc", "np.int_": "trunc"}
LOG2 = ("call:np.log2", "call:math.log2")


def _log2_of_const(v):
    """v is log2(q) for a positive rational constant q that is not a power of two -> (q, k) with 2^k < q < 2^(k+1), else None"""
    p = fn_parts(v) if isinstance(v, F.Rat) else None
    if p is None or p[0] not in LOG2 or len(p[1]) != 1 or not I.is_const(p[1][0]):
        return None
    q = I.cval(p[1][0])
    if q <= 0:
        return None
    k = q.numerator.bit_length() - q.denominator.bit_length()
    while Fraction(2) ** k > q:
        k -= 1
    while Fraction(2) ** (k + 1) <= q:
        k += 1
    return q, k


def _round_real(kind, v):
    """exact value of ceil / floor / trunc / round of a rational constant or of log2 of one (the binary logarithm of a rational that is
    not a power of two is irrational: no ties), else None"""
    from math import floor as _floor, ceil as _ceil
    if I.is_const(v):
        c = I.cval(v)
        if kind == "ceil":
            return _ceil(c)
        if kind == "floor":
            return _floor(c)
        if kind == "trunc":
            return _floor(c) if c >= 0 else _ceil(c)
        return round(c)                          # round half to even, as numpy and Python do
    lk = _log2_of_const(v)
    if lk is None:
        return None
    q, k = lk
    if kind == "floor":
        return k
    if kind == "ceil":
        return k + 1
    if kind == "trunc":
        return k if k >= 0 else k + 1
    return k + 1 if q * q > Fraction(2) ** (2 * k + 1) else k      # q > 2^(k + 1/2)


def scalar_hook(extra=None, d=None, ell=None):
    """library calls in the scalar image of the algebra generated by one matrix: products commute, solve(a, b) = b / a, eye = 1.
    `d`: value of every norm estimate d*_loose / d*_tight of scipy's helper; `ell`: value of mf._ell by order."""

    def init_helper(it, pos, kw):
        o, A = pos[0], pos[1]
        if not isinstance(o, Obj):
            return NotImplemented
        A = to_rat(A)
        o.attrs["A"] = A
        o.attrs["ident"] = F.const(1)
        o.attrs["structure"] = kw.get("structure", pos[2] if len(pos) > 2 else None)
        o.attrs["use_exact_onenorm"] = kw.get("use_exact_onenorm", pos[3] if len(pos) > 3 else False)
        if not is_unknown(A):
            for k in (2, 4, 6, 8, 10):
                o.attrs[f"A{k}"] = A ** k
        if d is not None:
            for nm in DNAMES:
                o.attrs[nm] = F.const(d[nm.split("_")[0]] if isinstance(d, dict) else d)
        return None

    def hook(it, name, pos, kw, node):
        if extra is not None:
            r = extra(it, name, pos, kw, node)
            if r is not NotImplemented:
                return r
        n = len(pos)
        # numbers: rounding and the binary logarithm of constants are evaluated exactly (the regimes fix every norm estimate)
        if name in ROUNDERS and n == 1 and not kw and isinstance(pos[0], F.Rat):
            r = _round_real(ROUNDERS[name], pos[0])
            if r is not None:
                return F.const(r)
        if name in ("np.log2", "math.log2") and n == 1 and not kw and I.is_const(pos[0]) and I.cval(pos[0]) > 0:
            q = I.cval(pos[0])
            if q.numerator & (q.numerator - 1) == 0 and q.denominator & (q.denominator - 1) == 0:
                return F.const(q.numerator.bit_length() - q.denominator.bit_length())
        if name.startswith("compare:") and n == 2:
            for a_, b_, flip in ((pos[0], pos[1], False), (pos[1], pos[0], True)):
                lk = _log2_of_const(a_)
                if lk is not None and I.is_const(b_):
                    k, c = lk[1], I.cval(b_)          # k < log2 q < k + 1
                    below = True if c >= k + 1 else (False if c <= k else None)      # log2 q < c ?
                    if below is None:
                        return NotImplemented
                    op = name[8:]
                    if flip:
                        op = {"Lt": "Gt", "LtE": "GtE", "Gt": "Lt", "GtE": "LtE"}.get(op, op)
                    return {"Lt": below, "LtE": below, "Gt": not below, "GtE": not below, "Eq": False, "NotEq": True}.get(op, NotImplemented)
            return NotImplemented
        if name == "getattr" and n == 2 and isinstance(pos[0], F.Rat) and isinstance(pos[1], str) and HELPER_ATTR.fullmatch(pos[1]):
            # an array (dense, sparse, np.matrix) where the Pade helper object is expected: no array type has these attributes
            return I.Crash(f"AttributeError: an array has no attribute '{pos[1]}'")
        if name in ("mf._smart_matrix_product", "np.dot", "np.matmul") and n >= 2:
            return _mul(it, pos[0], pos[1])
        if name == ".dot" and n == 2:
            return _mul(it, pos[0], pos[1])
        if name == "mf._ExpmPadeHelper.__init__" and n >= 2:
            return init_helper(it, pos, kw)
        if name == "getattr" and n == 2 and isinstance(pos[0], Obj) and pos[1] in ("pade3", "pade5", "pade7", "pade9"):
            # a method the class inherits from scipy's helper (trusted library): the diagonal Pade approximant of that order
            o, N = pos[0], int(pos[1][4:])
            return Native("scipy:" + pos[1], lambda it_, p_, k_, nd_: _scipy_uv(N, need(o.attrs.get("A"), "helper.A")))
        if name == "mf._ell" and n + len(kw) == 2 and set(kw) <= {"A", "m"}:
            pos = list(pos) + [kw[k_] for k_ in ("A", "m") if k_ in kw]          # scipy: _ell(A, m)
            ks = [int(I.cval(p_)) for p_ in pos if I.is_const(p_) and I.cval(p_).denominator == 1]
            if ell is not None and len(ks) == 1 and ks[0] != 13:
                return F.const(ell.get(ks[0], 0))
            if ell is not None and len(ks) == 1 and ks[0] == 13:
                # the extra squarings scipy's _ell asks for on the scaled matrix: an unknown non-negative integer (what it is asked
                # about is checked on the call record)
                return F.sym("ell13")
            return NotImplemented
        if name == "mf._solve_P_Q" and n >= 2:
            U, V = to_rat(pos[0]), to_rat(pos[1])
            if is_unknown(U) or is_unknown(V):
                return U if is_unknown(U) else V
            return _div(it, V + U, V - U)
        if name in ("mf.solve", "mf.spsolve", "mf.solve_triangular", "la.solve", "la.lu_solve", "la.solve_triangular", "np.linalg.solve") and n >= 2:
            return _div(it, pos[1], _factored(pos[0]))
        if name == "la.lu_factor" and n >= 1 and isinstance(pos[0], F.Rat) and not is_unknown(pos[0]):
            # the pair (lu, piv) scipy returns: a solve with it is a solve with the matrix; whatever else is read from the factors
            # (pivots, ...) is a function of the factors, not of a solve
            return (F.fn("lufac", pos[0]), F.fn("lupiv", pos[0]))
        if name in ("la.lu_factor", "np.asarray", "np.atleast_1d", "np.atleast_2d", "np.transpose", "np.real", "np.ascontiguousarray", "np.diag") and n >= 1:
            return pos[0]
        if name in ("np.array", "np.copy") and n >= 1:
            return clone(pos[0])
        if name in ("np.eye", "np.identity"):
            return F.const(1)
        if name == "np.linalg.multi_dot" and n == 1 and not kw and isinstance(pos[0], (tuple, list)) and pos[0]:
            out_ = pos[0][0]
            for x_ in pos[0][1:]:
                out_ = _mul(it, out_, x_)
            return out_
        if name == "np.linalg.matrix_power" and n == 2 and not kw and I.is_const(pos[1]) and I.cval(pos[1]).denominator == 1 \
                and 0 <= I.cval(pos[1]) <= 64 and isinstance(pos[0], F.Rat):
            return pos[0] ** int(I.cval(pos[1]))
        if name in ("np.zeros", "np.zeros_like", "np.empty", "np.empty_like"):
            return F.const(0)
        if name == "la.inv" and n == 1:
            return _div(it, F.const(1), pos[0])
        if name == "la.eig" and n >= 1:
            return (pos[0], F.const(1))          # eigenvalue = the matrix, eigenvector matrix = 1
        if name in ("np.log", "np.exp", "np.tan") and n == 1:
            v = to_rat(pos[0])
            if is_unknown(v):
                return v
            try:
                return {"np.log": F.log, "np.exp": F.exp, "np.tan": lambda r: F.fn("tan", r)}[name](v)
            except Unsupported:
                return NotImplemented
        return NotImplemented

    return hook


def call_oracle(table, other=None):
    """oracle from {name of an undecided library predicate: bool}; `other(it, value, node)` sees everything else"""

    def oracle(it, v, node):
        p = fn_parts(v) if isinstance(v, F.Rat) else None
        if p is not None and p[0].startswith("call:") and p[0][5:] in table:
            return table[p[0][5:]]
        if other is not None:
            return other(it, v, node)
        return None

    return oracle


def _cmp_const(v):
    """an undecided comparison of one non-constant value with one constant:  (op, value, constant) normalised to `value op constant`"""
    p = fn_parts(v) if isinstance(v, F.Rat) else None
    if p is None or not p[0].startswith("cmp:") or len(p[1]) != 2:
        return None
    op, (a, b) = p[0][4:], p[1]
    if not isinstance(a, F.Rat) or not isinstance(b, F.Rat):
        return None
    if b.is_const() and not a.is_const():
        return op, a, b.const_value()
    if a.is_const() and not b.is_const():
        flip = {"Lt": "Gt", "LtE": "GtE", "Gt": "Lt", "GtE": "LtE", "Eq": "Eq", "NotEq": "NotEq"}
        return flip.get(op, op), b, a.const_value()
    return None


def _has_unknown(v):
    if v is None or is_unknown(v) or isinstance(v, Raised):
        return True
    if isinstance(v, (tuple, list)):
        return any(_has_unknown(x) for x in v)
    return False


# library functions the rules know as *distinct* functions (kept opaque on purpose: a value that differs in one of them differs)
KNOWN_OPAQUE = {"np.log2", "np.ceil", "np.floor", "np.round", "np.trunc", "np.rint", "np.fix", "math.ceil", "math.floor", "math.log2", "math.trunc",
                "int", "round", "float", "mf._ell", "np.log", "np.exp", "np.tan", "np.sqrt", "np.abs", ".max", ".min", ".sum", "np.linalg.norm"}


def _unmodelled(values):
    """names of library calls occurring in the values that no rule models: a formula containing one is not understood"""
    out = []
    for v in values:
        for nm, _args in I.atoms_named(v, "call:") if isinstance(v, (F.Rat, tuple)) else []:
            if nm[5:] not in KNOWN_OPAQUE and nm[5:] not in out:
                out.append(nm[5:])
        # the result of a loop that can be left from inside its body under a test nothing decides: not followed to a value
        for nm in _symbols(v):
            if "@exit" in nm and "loop left under an undecided test" not in out:
                out.append("loop left under an undecided test")
            # an object / function / class of the module used as a number: nothing the rules can compare
            if nm.startswith("<") and not nm.startswith("<index>") and "an object used as a value" not in out:
                out.append("an object used as a value")
    return out


def _symbols(v):
    """names of all symbols occurring in a value (descends into the arguments of opaque applications)"""
    out = set()
    seen = set()

    def walk_poly(p_):
        for m in p_.t:
            for a_, _e in m:
                if a_ in seen:
                    continue
                seen.add(a_)
                d_ = F.atom_desc(a_)
                if d_[0] == "s":
                    out.add(d_[1])
                elif d_[0] == "fn":
                    for k_ in d_[2]:
                        if not isinstance(k_, str):
                            walk_poly(F._poly_from_key(k_[1]))
                            walk_poly(F._poly_from_key(k_[2]))
                elif d_[0] in ("exp", "sin", "cos", "sqrt"):
                    walk_poly(F._poly_from_key(d_[1]))

    def walk(x):
        if isinstance(x, F.Rat) and not is_unknown(x):
            walk_poly(x.n)
            walk_poly(x.d)
        elif isinstance(x, (tuple, list)):
            for y in x:
                walk(y)
    try:
        walk(v)
    except Exception:  # noqa
        pass
    return out


def _not_a_formula(v):
    """the first object / function / class / iterator / dict found where the rules expect formulas, else None"""
    if isinstance(v, (I.Obj, I.FuncV, I.ClassV, I.IterV, I.DictV, I.Native, I.RangeV, I.RepeatV)):
        return v
    if isinstance(v, (tuple, list)):
        for x in v:
            r = _not_a_formula(x)
            if r is not None:
                return r
    return None


def _find_crash(v):
    if I.is_crash(v):
        return v
    if isinstance(v, (tuple, list)):
        for x in v:
            c = _find_crash(x)
            if c is not None:
                return c
    return None


def verdict(ctx, ok, title, where, detail=None, values=()):
    """ok / fail; but when the obligation does not hold *and* one of the values it is about could not be evaluated, that is an analysis
    error (exit 2), not a violation"""
    if ok:
        ctx.ok(title, where)
        return True
    cr = _find_crash(values)
    if cr is not None:
        ctx.fail(title, where, {"evaluation raises": cr.why, "detail": detail})
        return False
    if any(_has_unknown(v) for v in values):
        bad = next(v for v in values if _has_unknown(v))
        ctx.error(title, where, f"could not evaluate: {bad!r}"[:400])
        return False
    odd = _not_a_formula(values)
    if odd is not None:
        ctx.error(title, where, f"a value the rule cannot compare (an object / function / iterator where a matrix or number is expected): {odd!r}"[:400])
        return False
    um = _unmodelled([v for v in values if isinstance(v, (F.Rat, tuple))])
    if um:
        ctx.error(title, where, f"the value contains library calls the rule does not model: {um}"[:400])
        return False
    ctx.fail(title, where, detail)
    return False


def _aborted(ctx, title, where, ret):
    """the evaluated path ends in an exception (every test on it was decided): report it; True if so"""
    cr = _find_crash(ret)
    if cr is not None:
        ctx.fail(title, where, {"evaluation raises": cr.why})
        return True
    if isinstance(ret, Raised):
        ctx.fail(title, where, {"evaluation ends in the `raise` at line": getattr(ret.node, "lineno", None)})
        return True
    return False


def _mod_first_integral(v, Ev, Iv, A):
    """v with the first integral I (when it is a symbol of the evaluation) written through the exponential: for an invertible A,
    int_0^h e^{At} dt = A^-1 (E - 1) exactly.  A formula for the second integral may use either."""
    nm = I.sym_name(Iv) if isinstance(Iv, F.Rat) else None
    if nm is None or not isinstance(v, F.Rat) or not isinstance(Ev, F.Rat) or is_unknown(v) or is_unknown(Ev):
        return v
    try:
        return v.subs({nm: (Ev - 1) / A})
    except Unsupported:
        return v


def _nested_args(v):
    """every formula that occurs as an argument of an opaque application anywhere inside v"""
    out = []
    for _nm, args in I.atoms_named(v, ""):
        out += [a_ for a_ in args if isinstance(a_, F.Rat)]
    return out


def _pole_at_zero(v, name="x"):
    """the value has A^-1 in it: its denominator vanishes with the matrix"""
    try:
        return isinstance(v, F.Rat) and not is_unknown(v) and F.Rat(v.d).depends_on(name) and F.Rat(v.d).subs({name: F.const(0)}).is_zero()
    except Unsupported:
        return False


def _about_the_solve(v):
    """a test on the factorisation of the matrix, on its singularity, on two arrays agreeing, or on a quantity that has A^-1 in it"""
    return isinstance(v, F.Rat) and not is_unknown(v) and bool(
        I.atoms_named(v, "lufac") or I.atoms_named(v, "lupiv") or any(I.atoms_named(v, "call:" + nm) for nm in CLOSE_FUNCS)
        or any(_pole_at_zero(a_) for a_ in _nested_args(v)) or any(I.atoms_named(v, nm) for nm in SINGULARITY_FUNCS))


def _strip_int(v):
    p = fn_parts(v) if isinstance(v, F.Rat) else None
    if p is not None and p[0] in ("call:int", "call:np.int64", "call:np.intp") and len(p[1]) == 1 and isinstance(p[1][0], F.Rat):
        return p[1][0]
    return v


def _last(calls, *suffixes):
    out = [c for c in calls if any(c.name == s or c.name.endswith("." + s) for s in suffixes)]
    return out[-1] if out else None


LEAF_SOLVES = ("mf.solve", "mf.spsolve", "mf.solve_triangular")
DET_FUNCS = {"call:la.det", "call:np.linalg.det", "call:np.linalg.slogdet"}
SINGULARITY_FUNCS = DET_FUNCS | {"call:np.linalg.cond", "call:np.linalg.matrix_rank", "call:np.linalg.svd", "call:la.svd", "call:la.svdvals"}
# predicates "the two arrays agree to a tolerance"
CLOSE_FUNCS = ("np.allclose", "np.isclose", "np.array_equal", "np.array_equiv", "math.isclose")


# ------------------------------------------------------------------------------------------------------------ R1
def _table(ctx, tag, fn, ret, n):
    """the n-tuple a table method returns, or None after reporting why there is none"""
    if I.is_crash(ret):
        ctx.fail(f"{tag}: the table can be evaluated", fn, {"evaluation raises": ret.why})
        return None
    if isinstance(ret, tuple) and len(ret) == n:
        cr = _find_crash(ret)
        if cr is not None:
            ctx.fail(f"{tag}: the table can be evaluated", fn, {"evaluation raises": cr.why})
            return None
        um = _unmodelled([v for v in ret if isinstance(v, (F.Rat, tuple))])
        if um:
            ctx.error(f"{tag}: table", fn, f"the table contains values the evaluator did not follow: {um}"[:300])
            return None
        return ret
    ctx.error(f"{tag}: return", fn, f"expected {n} values, got {ret!r}"[:300])
    return None


def r1_pade_tables(ctx):
    h = F.sym("h")
    x = F.sym("x")
    cls = "_ExpmIntPadeHelper"
    plain = call_oracle({"isspmatrix": False, "isinstance": False})
    it = Interp(ctx, EXPM, hook=scalar_hook(), oracle=plain)
    cnode = ctx.src.cls(EXPM, cls)
    H = it.instantiate(cls, [x], {"structure": None})
    if not isinstance(H, Obj) or is_unknown(H.attrs.get("A", x)):
        raise AnchorError(f"{cls}: constructor")
    # the two cached powers the class adds to scipy's helper
    for k in (3, 5):
        v = it.attr(H, f"A{k}", cnode)
        ok = isinstance(v, F.Rat) and v.equals(x ** k)
        verdict(ctx, ok, f"{cls}.A{k} is the {k}-th power of A", cnode, repr(v), [v])
    # the tables, evaluated the way expmint reaches them (whatever the table methods are called, however they take their arguments and hand
    # back their results): on the route of order m the exponential is solved from (U, V) and the integral from (P, Q); the helper works on
    # A h, so x -> x / h gives the tables as functions of A
    efn = ctx.src.func(EXPM, "expmint")
    for N in (3, 5, 7, 9):
        r = Run(ctx, "expmint", THETA[N] * (1 - EPS), geti2=False)
        tag = f"expmint (route of order {N})"
        if _aborted(ctx, f"{tag}: the tables can be evaluated", efn, r.ret):
            continue
        lv = r.leaves()
        if r.order is None or not lv:
            ctx.error(f"{tag}: tables", efn, f"no exponential / integral solve reached: {r.ret!r}"[:300])
            continue
        try:
            sub = {"x": x / h}
            U, V = (need(to_rat(t)).subs(sub) for t in r.pq.pos[:2])
            P, Q = (need(to_rat(t)).subs(sub) for t in (lv[0].pos[1], lv[0].pos[0]))
        except Unsupported as e:
            ctx.error(f"{tag}: tables", efn, str(e)[:300])
            continue
        if N in (3, 5):
            _check_exp(ctx, f"{tag}: exp table", r.pq.node, U, V, r.order)
        _check_int(ctx, f"{tag}: integral table", lv[0].node, P, Q, r.order, 1, h)
    # order 13 with scaling: with sigma = 2^-s read from the table (Run.scale), everything must be a function of A sigma (and h sigma) only
    r = Run(ctx, "expmint", Fraction(10), geti2=False)
    tag = "expmint (route of order 13)"
    lv = r.leaves()
    sig = r.scale()
    if sig is None and r.order is not None:
        sig = r.it.expr("2 ** -(2 + L)", {"L": F.sym("ell13")})      # (what it must be when every estimate is 10: R2 decides that)
    if _aborted(ctx, f"{tag}: the tables can be evaluated", efn, r.ret):
        pass
    elif r.order is None or not lv or sig is None:
        ctx.error(f"{tag}: tables", efn, f"no exponential / integral solve reached: {r.ret!r}"[:300])
    else:
        try:
            sub = {"x": x / (h * sig)}
            U2, V2 = (need(to_rat(t)).subs(sub) for t in r.pq.pos[:2])
            P2, Q2 = (need(to_rat(t)).subs(sub) for t in (lv[0].pos[1], lv[0].pos[0]))
            for nm, t in (("U", U2), ("V", V2), ("Q", Q2)):
                ok = _symbols(t) <= {"x"}
                verdict(ctx, ok, f"{tag}: {nm} is a function of A*2^-s only (every power B_k carries 2^(-k s))", r.pq.node, repr(t)[:300], [t])
            _check_exp(ctx, f"{tag}: exp table", r.pq.node, U2, V2, 13)
            Pn = P2 / sig  # P carries h 2^-s
            ok = _symbols(Pn) <= {"x", "h"}
            verdict(ctx, ok, f"{tag}: P is (h 2^-s) times a function of A*2^-s", lv[0].node, repr(Pn)[:300], [Pn])
            _check_int(ctx, f"{tag}: integral table", lv[0].node, Pn, Q2, 13, 1, h)
        except Unsupported as e:
            ctx.error(f"{tag}: tables", efn, str(e)[:300])
    # the second integral, evaluated the way expmint reaches it (whatever the helper _geti2's parameters are called or ordered): on the
    # route of order m it must be solved from the [m/m] approximant of its series, scaled by h^2
    efn = ctx.src.func(EXPM, "expmint")
    for v in (3, 5, 7, 9):
        r = Run(ctx, "expmint", THETA[v] * (1 - EPS), geti2=True, follow_geti2=True)
        title = f"expmint (route of order {v}): the second integral is solved from the Pade table of the route's degree"
        if _aborted(ctx, title, efn, r.ret):
            continue
        t2 = r.i2_table()
        if r.order is None or t2 is None or isinstance(r.ret, Raised):
            ctx.error(f"expmint (route of order {v}): second integral", efn, f"no Pade solve reached: {r.ret!r}"[:300])
            continue
        P, Q, leaf = t2
        k = _degree(Q)
        ok = k == r.order
        ctx.check(ok, title, leaf.node, None if ok else {"degree of the table": k, "order of the route": r.order})
        _check_int(ctx, f"second integral [degree {k} table]", leaf.node, P, Q, k, 2, h * h)
    r = Run(ctx, "expmint", Fraction(10), geti2=True, follow_geti2=True)
    lv = r.leaves()
    if not _aborted(ctx, "expmint (order 13): the second integral uses no Pade table (direct solve / power series)", efn, r.ret):
        ok = len(lv) == 1 and isinstance(r.ret, tuple) and len(r.ret) == 3 and not is_unknown(r.ret[2])
        verdict(ctx, ok, "expmint (order 13): the second integral uses no Pade table (direct solve / power series)", efn,
                repr(lv[1:] or r.ret)[:300], [r.ret])
    # the exp tables of the state-space helper, as _expm_SS reaches them (block structure abstracted to the scalar homomorphism)
    sfn = ctx.src.func(EXPM, "_expm_SS")
    for N in (3, 5, 7, 9, 13):
        r = Run(ctx, "_expm_SS", THETA[N] * (1 - EPS) if N < 13 else Fraction(10))
        tag = f"_expm_SS (route of order {N})"
        if _aborted(ctx, f"{tag}: the table can be evaluated", sfn, r.ret):
            continue
        sig = r.scale() if N == 13 else F.const(1)        # (only the order-13 route scales the matrix)
        if sig is None and r.order is not None:
            sig = r.it.expr("2 ** -(2 + L)", {"L": F.sym("ell13")})  # (what it must be when every estimate is 10: R2 decides that)
        if r.order is None or sig is None:
            ctx.error(f"{tag}: table", sfn, f"no exponential solve reached / the scaling cannot be read from the table: {r.ret!r}"[:300])
            continue
        try:
            U2, V2 = (need(to_rat(t)).subs({"x": x / sig}) for t in r.pq.pos[:2])
        except Unsupported as e:
            ctx.error(f"{tag}: table", sfn, str(e)[:300])
            continue
        if N == 13:
            ok = _symbols(U2) <= {"x"} and _symbols(V2) <= {"x"}
            verdict(ctx, ok, f"{tag}: U, V are functions of A*2^-s only", r.pq.node, repr(U2)[:200], [U2, V2])
        _check_exp(ctx, f"{tag}: exp table", r.pq.node, U2, V2, r.order)


# ------------------------------------------------------------------------------------------------------------ R2
def _double_rounding(ctx):
    """every floating literal of the module is represented by a double within 2^-53 relative of its decimal text (wherever it stands:
    in a tuple or a list, at module level, written out in an expression)"""
    m = ctx.src.mod(EXPM)
    n = bad = 0
    for c in ast.walk(m.tree):
        if isinstance(c, ast.Constant) and isinstance(c.value, float):
            exact = const_from_node(c, ctx.src)
            n += 1
            if c.value != c.value or c.value in (float("inf"), float("-inf")):
                bad += 1
                continue
            dbl = Fraction(c.value)
            if exact and abs(dbl - exact) / abs(exact) > Fraction(1, 2 ** 53):
                bad += 1
    return n, bad


class Run:
    """one evaluation of expmint / _expm_SS in a regime: every norm estimate equals t, _ell is 0 below order 13"""

    def __init__(self, ctx, q, t, geti2=True, triangular=False, sparse=False, follow_geti2=False, ell=None, allclose=True, converge=None,
                 oracle=None):
        """t: the value of every norm estimate, or {'d4': .., 'd6': .., 'd8': .., 'd10': ..}; ell: {order: value of mf._ell}, default 0;
        follow_geti2: evaluate the second integral too (else it is the symbol I2); allclose: outcome of the test that admits its A^-1
        formula (a closeness test, or any test on the factorisation of A); converge: number of terms after which a power-series loop's
        convergence test fails; oracle: decides every test the library predicates of the regime do not"""
        self.q = q
        x, h = F.sym("x"), F.sym("h")
        self.x, self.h = x, h

        def extra(it, name, pos, kw, node):
            if name == "_geti2" and not follow_geti2:
                return F.sym("I2")      # (a shortcut only: no obligation depends on the second integral being left unevaluated)
            return NotImplemented

        table = {"isspmatrix": sparse, "isinstance": False, "mf._is_upper_triangular": triangular}

        def admit(it, v, node):
            # the test that admits the A^-1 formula of the second integral, however it is made (R7 decides what it must be)
            return allclose if _about_the_solve(v) else None

        if oracle is not None:
            orc = call_oracle(table, oracle)
        else:
            orc = call_oracle(table, admit) if converge is None else Converge(converge, table, admit)
        self.it = it = Interp(ctx, EXPM, hook=scalar_hook(extra, d=t, ell=dict(ell or {})), oracle=orc)
        # a construct the evaluator cannot lower on this route makes the route's obligations analysis errors, not the whole rule
        try:
            if q == "expmint":
                self.ret = it.call("expmint", [x, h, geti2])
            else:
                self.ret = it.call("_expm_SS", [x, x, F.const(1)])
        except Unsupported as e:
            self.ret = I.Unknown(f"unsupported construct: {e}")
        self.A = x * h if q == "expmint" else x
        self.pq = _last(it.calls, "mf._solve_P_Q")
        self.order = None
        if self.pq is not None and len(self.pq.pos) >= 2:
            U, V = to_rat(self.pq.pos[0]), to_rat(self.pq.pos[1])
            if not is_unknown(U) and not is_unknown(V):
                um = _unmodelled([U, V])
                if um:
                    # (a table built from values the evaluator did not follow has no degree: the route counts as not evaluated)
                    if not _find_crash(self.ret) and not isinstance(self.ret, Raised):
                        self.ret = I.Unknown(f"the Pade table of the route contains values the evaluator did not follow: {um}")
                else:
                    try:
                        self.order = _degree(V - U)
                    except Unsupported as e:
                        self.ret = I.Unknown(f"the Pade table of the route is not a polynomial in the matrix: {e}")

    def scale(self):
        """sigma such that the exp table of the route is the diagonal approximant in A sigma (sigma = 2^-s on the scaled order-13 route, 1
        below it), read from the table itself: V + U = sum c_k (A sigma)^k with c_1 / c_0 = 1/2 for every diagonal Pade approximant of
        exp.  None when the table was not evaluated."""
        if self.order is None or self.pq is None:
            return None
        try:
            U, V = need(to_rat(self.pq.pos[0])), need(to_rat(self.pq.pos[1]))
            tot = V + U
            co = F.coeffs_in(tot.n, "x")
            if F.Rat(tot.d).depends_on("x") or 0 not in co or 1 not in co:
                return None
            sig = 2 * F.Rat(co[1]) / F.Rat(co[0])
            return sig / self.h if self.q == "expmint" else sig
        except Unsupported:
            return None

    def leaves(self):
        """the linear solves of the integrals, in order: the first is the integral's own (solve(Q, P) of the route's table), any further
        one belongs to the second integral"""
        return [c for c in self.it.calls if c.name in LEAF_SOLVES and len(c.pos) >= 2]

    def i2_table(self):
        """(P, Q) of the Pade table the second integral was solved from, as functions of x = A (the helper works on A h: x -> x / h),
        or None when no such solve was reached"""
        lv = self.leaves()
        if len(lv) < 2 or is_unknown(to_rat(lv[-1].pos[0])) or is_unknown(to_rat(lv[-1].pos[1])) \
                or _unmodelled([to_rat(lv[-1].pos[0]), to_rat(lv[-1].pos[1])]):
            return None
        sub = {"x": self.x / self.h}
        return to_rat(lv[-1].pos[1]).subs(sub), to_rat(lv[-1].pos[0]).subs(sub), lv[-1]

    def table_call(self):
        """the call whose result went into the exp solve: the Pade table method"""
        if self.pq is None or len(self.pq.pos) < 2:
            return None
        a, b = self.pq.pos[0], self.pq.pos[1]
        cands = [c for c in self.it.calls if isinstance(c.result, tuple) and len(c.result) in (2, 4) and c.name != self.q
                 and ((I.same_value(c.result[0], a) and I.same_value(c.result[1], b))
                      or (I.same_value(c.result[0], b) and I.same_value(c.result[1], a)))]
        return cands[0] if cands else None          # the outermost one

    def ell_calls(self):
        """(matrix, order) of every mf._ell consulted before the exp solve"""
        out = []
        for c in self.it.calls:
            if self.pq is not None and c.seq > self.pq.seq:
                break
            if c.name == "mf._ell" and len(c.pos) + len(c.kw) == 2 and set(c.kw) <= {"A", "m"}:
                args = list(c.pos) + [c.kw[k_] for k_ in ("A", "m") if k_ in c.kw]
                out.append((args[0], args[1], c.node))
        return out


def r2_thresholds(ctx):
    """regimes of expmint / _expm_SS: a norm estimate just below theta_m (with _ell = 0) uses the order-m table and tells _geti2 that order,
    just above it does not; the scaling power of the order-13 route; getEPQ's switch"""
    n, bad = _double_rounding(ctx)
    # (how many literals there are, and whether they stand in tuples, is spelling: the tables themselves are checked by R1)
    ctx.check(bad == 0, "all floating literals are within 2^-53 relative of their decimal text", EXPM + ":1",
              {"literals": n, "badly rounded": bad}, nontrivial=False)
    for q in ("expmint", "_expm_SS"):
        fn = ctx.src.func(EXPM, q)
        for m in (3, 5, 7, 9):
            lo = Run(ctx, q, THETA[m] * (1 - EPS))
            hi = Run(ctx, q, THETA[m] * (1 + EPS))
            if _aborted(ctx, f"{q}: a norm estimate just below theta_{m} (Al-Mohy & Higham), with ell = 0, uses the order-{m} Pade table", fn, lo.ret) \
                    or _aborted(ctx, f"{q}: a norm estimate just above theta_{m} does not use the order-{m} table", fn, hi.ret):
                continue
            if lo.order is None or hi.order is None or isinstance(lo.ret, Raised) or isinstance(hi.ret, Raised):
                ctx.error(f"{q}: regime theta_{m}", fn, f"could not evaluate: {lo.ret!r} / {hi.ret!r}"[:300])
                continue
            where = lo.pq.node
            ok = lo.order == m
            ctx.check(ok, f"{q}: a norm estimate just below theta_{m} (Al-Mohy & Higham), with ell = 0, uses the order-{m} Pade table", where,
                      None if ok else {"order used": lo.order, "theta": str(THETA[m])})
            ok = hi.order > m
            ctx.check(ok, f"{q}: a norm estimate just above theta_{m} does not use the order-{m} table", hi.pq.node,
                      None if ok else {"order used": hi.order, "theta": str(THETA[m])})
            ells = lo.ell_calls()
            blocked = Run(ctx, q, THETA[m] * (1 - EPS), ell={m: 1})
            ok = bool(ells) and I.same_value(ells[-1][0], lo.A) and I.same_value(ells[-1][1], F.const(m)) \
                and blocked.order is not None and blocked.order > m
            if not ells or blocked.order is None:
                ctx.error(f"{q}: the order-{m} route is admitted by _ell(A, {m}) == 0 (a non-zero value sends the matrix on to a higher order)", where,
                          f"no call of scipy's _ell seen on this route / the route with _ell = 1 could not be evaluated: {blocked.ret!r}"[:300])
            else:
                verdict(ctx, ok, f"{q}: the order-{m} route is admitted by _ell(A, {m}) == 0 (a non-zero value sends the matrix on to a higher order)",
                        ells[-1][2] if ells else where, {"last _ell consulted": repr(ells[-1][:2])[:200] if ells else None,
                                                         "order used when it is 1": blocked.order}, [e_[:2] for e_ in ells[-1:]])
            if q == "expmint":
                # the order the route tells the second-integral helper is the order of the table that helper then uses
                lo2 = Run(ctx, q, THETA[m] * (1 - EPS), follow_geti2=True)
                t2 = lo2.i2_table() if not isinstance(lo2.ret, Raised) and not I.is_crash(lo2.ret) else None
                title = f"{q}: on the order-{m} route the second integral is computed for pade={m} (its degree-{m} table)"
                if _aborted(ctx, title, fn, lo2.ret):
                    pass
                elif t2 is None:
                    ctx.error(title, where, f"no Pade solve of the second integral reached: {lo2.ret!r}"[:300])
                else:
                    k = _degree(t2[1])
                    ctx.check(k == m, title, t2[2].node, None if k == m else {"degree of the table used": k})
        # every route is bounded by both of its norm estimates (eta = max of the pair): d_k ~ ||A^k||^(1/k)
        small = THETA[3] * (1 - EPS)
        mid = THETA[7] * (1 - EPS)
        for label, dvals, want_order in (
                ("||A^4||^(1/4) large, the others tiny: orders 3 and 5 (bounded by d4, d6) are not used, order 7 (d6, d8) is",
                 {"d4": Fraction(10), "d6": small, "d8": small, "d10": small}, 7),
                ("||A^6||^(1/6) large, the others tiny: no order up to 9 is used (each is bounded by d6)",
                 {"d4": small, "d6": Fraction(10), "d8": small, "d10": small}, 13),
                ("||A^8||^(1/8) large, d4 and d6 just below theta_7: orders 7 and 9 (bounded by d6, d8) are not used",
                 {"d4": mid, "d6": mid, "d8": Fraction(10), "d10": mid}, 13)):
            r = Run(ctx, q, dvals)
            if _aborted(ctx, f"{q}: {label}", fn, r.ret):
                continue
            if r.order is None:
                ctx.error(f"{q}: {label}", fn, f"no exponential solve mf._solve_P_Q(U, V) found on this route: {r.ret!r}"[:300])
                continue
            verdict(ctx, r.order == want_order, f"{q}: {label}", r.pq.node if r.pq is not None else fn,
                    {"order used": r.order, "expected": want_order}, [r.ret])
        # order 13: scaling power
        r = Run(ctx, q, Fraction(10))
        tc = r.table_call()
        if _aborted(ctx, f"{q}: a norm estimate above theta_9 uses the scaled order-13 table", fn, r.ret):
            continue
        if r.order is None:
            ctx.error(f"{q}: a norm estimate above theta_9 uses the scaled order-13 table", fn,
                      f"no exponential solve mf._solve_P_Q(U, V) found on this route: {r.ret!r}"[:300])
            continue
        ok = r.order == 13 and tc is not None
        ctx.check(ok, f"{q}: a norm estimate above theta_9 uses the scaled order-13 table", r.pq.node if r.pq is not None else fn,
                  None if ok else {"order used": r.order})
        # the scaling power, decided on numbers and read from the *table used* (not from how it is passed around): the exp table of this
        # route must be the [13/13] approximant in A 2^-s with s = max(ceil(log2(eta_5 / theta_13)), 0) + ell(2^-s A, 13),
        # eta_5 = min(eta_3, eta_4), eta_3 = max(d6, d8), eta_4 = max(d8, d10) (Al-Mohy & Higham, theta_13 = 4.25).  The estimates are placed
        # so that the rounding (just below / above 4 theta_13), the clamp at 0 and the choice of the smaller of eta_3, eta_4 each show.
        big, tiny = Fraction(10), THETA[3] * (1 - EPS)
        for plabel, dv in (("every estimate is 10", {"d4": big, "d6": big, "d8": big, "d10": big}),
                           ("every estimate just below 4 theta_13", dict.fromkeys(("d4", "d6", "d8", "d10"), 4 * THETA[13] * (1 - EPS))),
                           ("every estimate just above 4 theta_13", dict.fromkeys(("d4", "d6", "d8", "d10"), 4 * THETA[13] * (1 + EPS))),
                           ("d4 = d6 = 10, d8 and d10 tiny (eta_4 < theta_13 < eta_3: no scaling)", {"d4": big, "d6": big, "d8": tiny, "d10": tiny}),
                           ("d4 = d6 = 10, d8 tiny, d10 = 40 (eta_3 < eta_4)", {"d4": big, "d6": big, "d8": tiny, "d10": Fraction(40)})):
            eta5 = min(max(dv["d6"], dv["d8"]), max(dv["d8"], dv["d10"]))
            k = 0
            while THETA[13] * 2 ** k < eta5:
                k += 1                                  # the least k >= 0 with eta_5 <= theta_13 2^k
            title = f"{q}: the order-13 table is the approximant in A 2^-s, s = max(ceil(log2(eta_5/theta_13)), 0) + ell(2^-s A, 13) with theta_13 = 4.25, " \
                    f"eta_5 = min(max(d6, d8), max(d8, d10)): {plabel}"
            rp = r if dv["d4"] == big and dv["d10"] == big else Run(ctx, q, dv)
            if _aborted(ctx, title, fn, rp.ret):
                continue
            got = rp.scale()
            if rp.order != 13 or got is None:
                ctx.error(title, fn, f"the order-13 table is not reached in this regime (order {rp.order}): {rp.ret!r}"[:300])
                continue
            want = rp.it.expr("2 ** -(S0 + L)", {"S0": F.const(k), "L": F.sym("ell13")})
            asked = [e_ for e_ in rp.ell_calls() if I.same_value(e_[1], F.const(13))]
            ok = I.same_value(got, want) and len(asked) == 1 and I.same_value(asked[0][0], rp.A * Fraction(1, 2 ** k))
            if not ok and isinstance(got, F.Rat) and not is_unknown(got) and \
                    any(I.atoms_named(got, "call:" + nm_) for nm_ in list(ROUNDERS) + ["np.log2", "math.log2", "np.log", "math.log", "math.frexp", "np.frexp"]):
                ctx.error(title, rp.pq.node, f"the scaling power is computed in a way the rule cannot evaluate to a number: {got!r}"[:300])
                continue
            verdict(ctx, ok, title, rp.pq.node, {"2^-s read from the table": repr(got)[:300], "want": repr(want)[:300],
                                                 "_ell(., 13) asked about": [repr(e_[0])[:120] for e_ in asked], "expected": repr(rp.A * Fraction(1, 2 ** k))},
                    [got, want] + [e_[0] for e_ in asked])
            if q == "expmint" and dv["d4"] == big and dv["d10"] == big:
                # the first integral's table carries the step: before the squarings int_0^(h 2^-s) e^{At} dt = h 2^-s + O(A)
                lv = rp.leaves()
                title = f"{q}: the order-13 integral table is computed for the step h 2^-s (its value at A = 0)"
                try:
                    Pt, Qt = (need(to_rat(v_)) for v_ in (lv[0].pos[1], lv[0].pos[0])) if lv else (None, None)
                    i0_ = None if Pt is None else (Pt / Qt).subs({"x": F.const(0)})
                except Unsupported as e:
                    ctx.error(title, fn, str(e)[:300])
                    continue
                okh = i0_ is not None and I.same_value(i0_, rp.h * got)
                verdict(ctx, okh, title, lv[0].node if lv else fn, {"P/Q at A = 0": repr(i0_)[:200], "want": repr(rp.h * got)[:200]}, [i0_, got])
    # getEPQ: switch variable, switch constant, arguments
    fn = ctx.src.func(EXPM, "getEPQ")
    A, h = F.sym("A"), F.sym("h")
    # getEPQ is evaluated by c07_switch with concrete options (B None / given, half False / True, order 0 / 1) in two worlds: every comparison of
    # a quantity of A with a constant comes out as for a small / a large matrix.  The norm is recognised as a value (np.linalg.norm(A, 1) or the
    # largest absolute column sum, times h in any place).  Per regime: the typestate of the route the result is computed on (a getEPQ1 /
    # expmint result only behind an established h ||A||_1 <= theta_9) and the options the routine receives (pass 5; before, B and half were
    # symbols: an input matrix and an option the code cannot decide -- the regime B None was never evaluated).
    from . import c07_switch
    seen, runs = c07_switch.regimes(ctx, fn)
    consts = {c[2] for c in seen}
    ok = len(consts) == 1 and consts == {THETA[9]}
    raises = [v_[1] for v_ in runs.values() if v_[0] == "raises"]
    if not seen and raises:
        ctx.fail("getEPQ: switches between getEPQ1 and getEPQ2 at theta_9 = 2.097847961257068", fn, {"evaluation": raises[0]})
    elif not seen:
        # (no comparison with a constant was met: the function could not be followed to its switch)
        ctx.error("getEPQ: switches between getEPQ1 and getEPQ2 at theta_9 = 2.097847961257068", fn,
                  f"no comparison of a norm with a constant was reached: {[repr(v_)[:120] for v_ in runs.values()][:4]}"[:400])
    else:
        ctx.check(ok, "getEPQ: switches between getEPQ1 and getEPQ2 at theta_9 = 2.097847961257068", seen[0][3] if seen else fn,
                  None if ok else {"switch constants": sorted(str(c) for c in consts)})
    ok = bool(seen) and all(s_[1].equals(h * F.fn("norm1", A)) for s_ in seen)
    known = bool(seen) and all(I.atoms_named(s_[1], "norm1") or I.atoms_named(s_[1], "some-other-norm") for s_ in seen)
    if ok or known:
        ctx.check(ok, "getEPQ: the switch variable is h * ||A||_1", seen[0][3] if seen else fn, None if ok else sorted({repr(s_[1]) for s_ in seen})[:3])
    else:
        ctx.error("getEPQ: the switch variable is h * ||A||_1", seen[0][3] if seen else fn,
                  f"the switch variable is not written with a norm function: {sorted({repr(s_[1]) for s_ in seen})[:3]}"[:300])
    # the documented switch, in every option regime: the result is getEPQ1's (or that of its expmint call written out) below, getEPQ2's above
    detail = {}
    undecided = None
    for (o_, label, regime), (kind, what) in runs.items():
        if kind == "undecided":
            undecided = undecided or f"getEPQ(order={o_}; {label}) could not be evaluated {regime} the switch: {what}"[:300]
        elif kind == "raises":
            detail[f"order={o_}; {label}; norm {regime} the switch"] = what
        elif not (what <= {"getEPQ1", "expmint", "expmint(geti2)"} if regime == "below" else what == {"getEPQ2"}):
            detail[f"order={o_}; {label}; norm {regime} the switch"] = "result computed by " + ", ".join(sorted(what))
    title = "getEPQ: in every option regime (B None / given, half, order 0 / 1) the result is getEPQ1's below the switch and getEPQ2's above it"
    if not detail and (undecided is not None or not seen):
        ctx.error(title, fn, undecided or "no comparison of a norm with a constant was reached")
    else:
        ctx.check(not detail, title, fn, detail or None)
    # the route the switch guards: just below the switch constant expmint must still be on a route for which _geti2 has a Pade table
    if len(consts) == 1:
        cst = next(iter(consts))
        r = Run(ctx, "expmint", cst * (1 - EPS), geti2=True, follow_geti2=True)
        leaf = [c for c in r.it.calls if c.name in LEAF_SOLVES]
        lu = [c for c in r.it.calls if c.name in ("la.lu_factor", "la.lu_solve")]
        ok = r.order is not None and r.order <= 9 and len(leaf) >= 2 and not lu
        if not ok and r.order is not None and _has_unknown(r.ret) and not _find_crash(r.ret):
            ctx.error("getEPQ: route below the switch", fn, f"expmint's route there could not be evaluated to its end: {r.ret!r}"[:300])
        elif r.order is None and not _aborted(ctx, "getEPQ: route below the switch", fn, r.ret):
            ctx.error("getEPQ: route below the switch", fn, f"no exponential solve mf._solve_P_Q(U, V) found on expmint's route: {r.ret!r}"[:300])
        elif r.order is not None:
            ctx.check(ok, "getEPQ: just below its switch constant getEPQ1's expmint is on a Pade route of order <= 9, for which the second "
                          "integral has its own approximant (not the A^-1 formula / power series of the order-13 route)", fn,
                      None if ok else {"switch constant": str(cst), "expmint order there": r.order})
    else:
        ctx.error("getEPQ: route below the switch", fn, "no single switch constant")


# ------------------------------------------------------------------------------------------------------------ R3
def r3_squaring(ctx):
    fn = ctx.src.func(EXPM, "expmint")
    x, h = F.sym("x"), F.sym("h")
    # order-13 route: scaling, squaring loop
    r = Run(ctx, "expmint", Fraction(10), geti2=True)
    tc = r.table_call()
    loops = r.it.loops
    if _aborted(ctx, "expmint: the order-13 route returns E, I, I2", fn, r.ret):
        pass
    elif len(loops) != 1 or tc is None or not isinstance(r.ret, tuple) or len(r.ret) != 3:
        ctx.error("expmint: order-13 route", fn, f"expected one squaring loop and (E, I, I2): loops={len(loops)} ret={r.ret!r}"[:300])
    else:
        lp = loops[0]
        # (the scaling is read from the table the route used -- the [13/13] approximant in A 2^-s -- not from how s is passed around)
        sig = r.scale()
        trip = _strip_int(trip_count(lp))
        undo = r.it.expr("2 ** -T", {"T": trip}) if isinstance(trip, F.Rat) and not is_unknown(trip) else None
        ok = trip is not None and sig is not None and I.same_value(undo, sig)
        verdict(ctx, ok, "expmint: the squaring loop runs s times, s being the scaling power of the order-13 table (the approximant in A 2^-s)", lp.node,
                {"trip count": repr(trip)[:200], "2^-s of the table": repr(sig)[:200]}, [trip, sig])
        suffix = f"@out{lp.k}"
        names = [I.sym_name(v) if isinstance(v, F.Rat) else None for v in r.ret[:2]]
        carried = [n_[:-len(suffix)] if n_ and n_.endswith(suffix) else None for n_ in names]
        if any(_has_unknown(v) for v in r.ret[:2]) or (carried[0] is None and carried[1] is None):
            ctx.error("expmint: squaring loop", lp.node, f"E, I returned are not the loop's results: {r.ret[:2]!r}"[:300])
        else:
            # a returned value the loop does not carry is one the loop leaves as it was
            nE, nI = carried
            Ein = lp.in_sym(nE) if nE else r.ret[0]
            Iin = lp.in_sym(nI) if nI else r.ret[1]
            got = lp.out.get(nI) if nI else Iin
            ok = isinstance(got, F.Rat) and got.equals(Iin + Iin * Ein)
            verdict(ctx, ok, "expmint: integral doubling uses E before it is squared: I <- I + I.E  (int_0^2h = int_0^h + e^{Ah} int_0^h)", lp.node,
                    repr(got)[:300], [got])
            got = lp.out.get(nE) if nE else Ein
            ok = isinstance(got, F.Rat) and got.equals(Ein * Ein)
            verdict(ctx, ok, "expmint: E <- E.E", lp.node, repr(got)[:300], [got])
            if nE is None or nI is None:
                lp.init.setdefault(nE, r.ret[0])
                lp.init.setdefault(nI, r.ret[1])
            U, V, P, Q = (to_rat(t) for t in tc.result)
            # the second integral of this route, evaluated as expmint reaches it (direct arm: the A^-1 formula on the *squared* E and the
            # step h), whatever the parameters of the helper are called and however they are ordered
            r2 = Run(ctx, "expmint", Fraction(10), geti2=True, follow_geti2=True, allclose=True)
            X = x * h
            i2 = r2.ret[2] if isinstance(r2.ret, tuple) and len(r2.ret) == 3 else None
            e2 = r2.ret[0] if i2 is not None else None
            ok = I.same_value(lp.init.get(nE), _cayley(U, V)) and I.same_value(lp.init.get(nI), _quot(P, Q)) \
                and isinstance(i2, F.Rat) and isinstance(e2, F.Rat) and I.same_value(e2, r.ret[0]) \
                and I.same_value(_mod_first_integral(i2, e2, r2.ret[1], x), h * h * (X * e2 - e2 + 1) / (X * X))
            verdict(ctx, ok, "expmint (order 13): squaring starts from E = solve(V-U, V+U), I = solve(Q, P); I2 is computed from the squared E and "
                             "the step: h^2 (A h E - E + 1)/(A h)^2 when A is invertible",
                    lp.node, {"E0": repr(lp.init.get(nE))[:120], "I0": repr(lp.init.get(nI))[:120], "I2": repr(i2)[:200]},
                    [lp.init.get(nE), lp.init.get(nI), U, V, P, Q, r2.ret])
    # the helper is built on A*h
    init = _last(r.it.calls, "_ExpmIntPadeHelper.__init__")
    ia = init.ordered() if init is not None else []
    ok = len(ia) >= 2 and I.same_value(ia[1], x * h)
    verdict(ctx, ok, "expmint: the Pade helper works on A*h", init.node if init is not None else fn, repr(ia[1:2])[:200], ia[1:2] or [None])
    # orders 3..9: E from (U, V), I from (P, Q), I2 from _geti2 with the same h
    for m in (3, 5, 7, 9):
        for geti2 in (True, False):
            r = Run(ctx, "expmint", THETA[m] * (1 - EPS), geti2=geti2)
            tc = r.table_call()
            if _aborted(ctx, f"expmint (order {m}, geti2 {'true' if geti2 else 'false'}) returns E, I" + (", I2" if geti2 else ""), fn, r.ret):
                continue
            if tc is None or not isinstance(r.ret, tuple):
                ctx.error(f"expmint: order-{m} route", fn, f"could not evaluate: {r.ret!r}"[:300])
                continue
            U, V, P, Q = (to_rat(t) for t in tc.result)
            if geti2:
                # I2 as expmint computes it: h^2 times a function of A h alone (the step reaches the second-integral helper)
                r2 = Run(ctx, "expmint", THETA[m] * (1 - EPS), geti2=True, follow_geti2=True)
                i2 = r2.ret[2] if isinstance(r2.ret, tuple) and len(r2.ret) == 3 else None
                scaled = False
                if isinstance(i2, F.Rat) and not is_unknown(i2):
                    try:
                        g = i2.subs({"x": x / h}) / (h * h)
                        scaled = g.equals(g.subs({"h": F.const(1)}))          # g(x, h) = g(x, 1): no dependence on h is left
                    except Unsupported:
                        scaled = False
                ok = len(r.ret) == 3 and I.same_value(r.ret[0], _cayley(U, V)) and I.same_value(r.ret[1], _quot(P, Q)) \
                    and scaled
                verdict(ctx, ok, f"expmint (order {m}): E = solve(V-U, V+U), I = solve(Q, P), I2 = h^2 f(A h) from the second-integral helper", tc.node,
                        {"returned": repr(r.ret)[:300], "I2": repr(i2)[:200]}, [r.ret, U, V, P, Q, r2.ret])
            else:
                ok = len(r.ret) == 2 and I.same_value(r.ret[0], _cayley(U, V)) and I.same_value(r.ret[1], _quot(P, Q))
                verdict(ctx, ok, f"expmint (order {m}, geti2 false): returns (E, I) only", tc.node, repr(r.ret)[:300], [r.ret, U, V, P, Q])
    # the integral is the solution of Q X = P whatever the structure of the matrix, by the solver made for that structure (evaluated as
    # expmint reaches it: the private helper may be renamed, inlined, or take its arguments in another order)
    for label, sparse, triangular, leafname in (("sparse", True, False, "mf.spsolve"), ("general", False, False, "mf.solve"),
                                                ("upper triangular", False, True, "mf.solve_triangular")):
        title = f"expmint ({label} matrices): the integral solves Q X = P with {leafname}(Q, P)"
        r = Run(ctx, "expmint", THETA[3] * (1 - EPS), geti2=False, sparse=sparse, triangular=triangular)
        tc = r.table_call()
        if _aborted(ctx, title, fn, r.ret):
            continue
        lv = r.leaves()
        if tc is None or not isinstance(r.ret, tuple) or len(r.ret) < 2:
            ctx.error(title, fn, f"could not evaluate: {r.ret!r}"[:300])
            continue
        U, V, P, Q = (to_rat(t) for t in tc.result)
        ok = I.same_value(r.ret[1], _quot(P, Q)) and len(lv) == 1 and lv[0].name == leafname
        verdict(ctx, ok, title, lv[0].node if lv else fn, {"I": repr(r.ret[1])[:200], "solver": [c.name for c in lv]}, [r.ret[1], P, Q])
    # _expm_SS: orders 3..9 return solve(V-U, V+U) of the table; squaring of the order-13 result
    fn = ctx.src.func(EXPM, "_expm_SS")
    for m in (3, 5, 7, 9):
        r = Run(ctx, "_expm_SS", THETA[m] * (1 - EPS))
        tc = r.table_call()
        if _aborted(ctx, f"_expm_SS (order {m}): returns solve(V-U, V+U)", fn, r.ret):
            continue
        if tc is None:
            ctx.error(f"_expm_SS: order-{m} route", fn, f"could not evaluate: {r.ret!r}"[:300])
            continue
        U, V = (to_rat(t) for t in tc.result)
        ok = I.same_value(r.ret, _cayley(U, V))
        verdict(ctx, ok, f"_expm_SS (order {m}): returns solve(V-U, V+U)", tc.node, repr(r.ret)[:300], [r.ret, U, V])
    r = Run(ctx, "_expm_SS", Fraction(10))
    tc = r.table_call()
    if _aborted(ctx, "_expm_SS: the order-13 route returns exp(M)", fn, r.ret):
        pass
    elif len(r.it.loops) != 1 or tc is None:
        ctx.error("_expm_SS: order-13 route", fn, f"expected one squaring loop: {len(r.it.loops)}")
    else:
        lp = r.it.loops[0]
        trip = _strip_int(trip_count(lp))
        sig = r.scale()
        undo = r.it.expr("2 ** -T", {"T": trip}) if isinstance(trip, F.Rat) and not is_unknown(trip) else None
        ok = trip is not None and sig is not None and I.same_value(undo, sig)
        verdict(ctx, ok, "_expm_SS: the squaring loop runs s times, s being the scaling power of the order-13 table (the approximant in A 2^-s)", lp.node,
                {"trip count": repr(trip)[:200], "2^-s of the table": repr(sig)[:200]}, [trip, sig])
        nX = I.sym_name(r.ret) or ""
        suffix = f"@out{lp.k}"
        nX = nX[:-len(suffix)] if nX.endswith(suffix) else None
        U, V = (to_rat(t) for t in tc.result)
        ok = nX is not None and isinstance(lp.out.get(nX), F.Rat) and lp.out[nX].equals(lp.in_sym(nX) ** 2) \
            and I.same_value(lp.init.get(nX), _cayley(U, V))
        verdict(ctx, ok, "_expm_SS: X <- X.X starting from solve(V-U, V+U)", lp.node, repr(r.ret)[:200], [r.ret, lp.out.get(nX) if nX else None, U, V])


# ------------------------------------------------------------------------------------------------------------ R4
def _ordered_hook(extra=None):
    """matrices as opaque symbols: X[i] is idx(X, i), X.dot(Y) is the ordered product dot(X, Y)"""

    def hook(it, name, pos, kw, node):
        if extra is not None:
            r = extra(it, name, pos, kw, node)
            if r is not NotImplemented:
                return r
        if name in (".dot", "np.dot", "np.matmul", "binop:MatMult", "operator.matmul", ".__matmul__") and len(pos) == 2 and not kw \
                and all(isinstance(p_, F.Rat) for p_ in pos):
            a, b = to_rat(pos[0]), to_rat(pos[1])
            if is_unknown(a) or is_unknown(b):
                return a if is_unknown(a) else b
            return F.fn("dot", a, b)
        if name in ("np.asarray", "np.atleast_2d", "np.transpose", "np.asanyarray", "np.ascontiguousarray") and pos:
            return pos[0]           # (.T is the identity for this evaluator, so is np.transpose)
        if name in ("np.array", "np.copy") and len(pos) == 1 and set(kw) <= {"copy", "order"} and isinstance(pos[0], F.Rat):
            return clone(pos[0])
        return NotImplemented

    return hook


def _shape_call(it, name, pos, kw, default=None):
    """every way of asking an array for its shape: X.shape, X.ndim, len(X), np.shape(X), np.ndim(X), np.size(X, axis); `default`: the
    shape of a value the evaluator has no shape for.  NotImplemented when the call is none of these or the shape is not known."""
    if name == "getattr" and len(pos) == 2 and pos[1] in ("shape", "ndim") and isinstance(pos[0], F.Rat) and not pos[0].is_const():
        what, x = pos[1], pos[0]
    elif name in ("len", "np.shape", "np.ndim", "np.size") and pos and isinstance(pos[0], F.Rat) and not pos[0].is_const():
        what, x = name.split(".")[-1], pos[0]
    else:
        return NotImplemented
    sh = it.shape(x) or default
    if sh is None:
        return NotImplemented
    if what == "shape":
        return sh
    if what == "ndim":
        return F.const(len(sh))
    if what == "len":
        return sh[0] if sh else NotImplemented
    ax = pos[1] if len(pos) > 1 else kw.get("axis")
    if ax is not None and I.is_const(ax) and I.cval(ax).denominator == 1 and -len(sh) <= int(I.cval(ax)) < len(sh):
        return sh[int(I.cval(ax))]
    return NotImplemented


DIMS = ("n", "m", "i", "r")


def _int_expr(v):
    """an integer-valued expression in array dimensions: integer coefficients, no atoms but the dimension symbols"""
    try:
        if not isinstance(v, F.Rat) or is_unknown(v) or not v.d.is_const() or v.d.const_value() != 1:
            return False
        for mono, c in v.n.t.items():
            if c.denominator != 1:
                return False
            for a_, e_ in mono:
                d_ = F.atom_desc(a_)
                if d_[0] != "s" or d_[1] not in DIMS or e_ < 0:
                    return False
        return True
    except Exception:  # noqa
        return False


def _divisible(v, k):
    return all(c % k == 0 for c in v.n.t.values())


def _int_hook(extra=None):
    """integer arithmetic on array dimensions, decided on values: with an even dimension written 2 m, `n // 2`, `n >> 1`, `divmod(n, 2)[0]`
    and `int(n / 2)` are all m, and `n & 1`, `n % 2` are 0.  True division of integers is a float (kept apart: it is not an index)."""

    def hook(it, name, pos, kw, node):
        if name.startswith("binop:") and len(pos) == 2 and _int_expr(pos[0]) and _int_expr(pos[1]):
            a, b = pos
            op = name[6:]
            if op == "Div" and not (a.is_const() and b.is_const()):
                return F.fn("op:TrueDiv", a, b)
            if b.is_const() and b.const_value() > 0 and not a.is_const():
                k = int(b.const_value())
                c0 = int(a.n.t.get((), 0))              # a = (multiples of the divisor) + c0 : floor and remainder come from c0 alone
                if op == "FloorDiv" and _divisible(a - c0, k):
                    return (a - c0) / k + c0 // k
                if op == "Mod" and _divisible(a - c0, k):
                    return F.const(c0 % k)
                if op == "BitAnd" and k & (k + 1) == 0 and _divisible(a - c0, k + 1):   # a & (2^j - 1) = a mod 2^j
                    return F.const(c0 % (k + 1))
                if op == "BitOr" and k & (k + 1) == 0 and _divisible(a - c0, k + 1) and c0 >= 0:    # the low j bits are set
                    return (a - c0) + (c0 | k)
                if op == "RShift" and _divisible(a - c0, 2 ** k):
                    return (a - c0) / (2 ** k) + c0 // (2 ** k)
                if op == "LShift":
                    return a * (2 ** k)
        if name in ("int", "np.int64", "np.intp", "operator.index") and len(pos) == 1 and isinstance(pos[0], F.Rat):
            if _int_expr(pos[0]):
                return pos[0]
            p = fn_parts(pos[0])
            if p is not None and p[0] == "op:TrueDiv" and p[1][1].is_const() and p[1][1].const_value() > 0 and _divisible(p[1][0], int(p[1][1].const_value())):
                return p[1][0] / p[1][1]
        if extra is not None:
            return extra(it, name, pos, kw, node)
        return NotImplemented

    return hook


def _dims_oracle(it, v, node):
    """truth of an integer expression in array dimensions (positive integers): non-zero when all its terms are positive"""
    if _int_expr(v) and not v.is_const() and I.sign_of(v) == 1:
        return True
    return None


def _square_shapes(extra, n, i=None):
    """every matrix of the regime is n x n (E, I, I2 and what is formed from them); an input matrix B (when the regime has one: `i`
    columns) is n x i and so is a product with B as its right factor; a part of one has the shape its index selects"""

    def shape_of(v):
        if not isinstance(v, F.Rat) or v.is_const():
            return None
        if i is not None:
            p = fn_parts(v)
            if I.sym_name(v) == "B" or (p is not None and p[0] == "dot" and len(p[1]) == 2 and isinstance(p[1][1], F.Rat)
                                        and shape_of(p[1][1]) is not None and not I.same_value(shape_of(p[1][1])[1], n)):
                return (n, i)
        return (n, n)

    def hook(it, name, pos, kw, node):
        dflt = shape_of(pos[0]) if pos and isinstance(pos[0], F.Rat) and i is not None else None
        r = _shape_call(it, name, pos, kw, dflt or (clone(n), clone(n)))
        if r is not NotImplemented:
            return r
        return extra(it, name, pos, kw, node)

    return hook, shape_of


class Converge:
    """oracle for a power-series loop: the convergence test (the only undecided comparison) holds K times, then fails"""

    def __init__(self, K, table=None, first=None):
        self.left = K
        self.table = dict(table or {})
        self.first = first

    def __call__(self, it, v, node):
        p = fn_parts(v) if isinstance(v, F.Rat) else None
        if p is None:
            return None
        if p[0].startswith("call:") and p[0][5:] in self.table:
            return self.table[p[0][5:]]
        if self.first is not None:
            r = self.first(it, v, node)
            if r is not None:
                return r
        if p[0].startswith("cmp:") and p[0][4:] in ("Gt", "GtE", "Lt", "LtE"):
            # a convergence test compares magnitudes (abs / max / norm of a term); a counter compared with a bound is not one
            if not any(I.atoms_named(v, pre) for pre in ("abs", "call:abs", "call:np.abs", "call:np.absolute", "call:np.fabs", "call:.max", "call:np.max",
                                                         "call:np.amax", "call:np.linalg.norm", "call:la.norm")):
                return None
            if self.left > 0:
                self.left -= 1
                return p[0][4:] in ("Gt", "GtE")
            return p[0][4:] in ("Lt", "LtE")
        return None


def r4_siblings(ctx):
    Esym, Isym, I2sym, h, B = F.sym("E"), F.sym("I"), F.sym("I2"), F.sym("h"), F.sym("B")
    A = F.sym("A")

    def extra(it, name, pos, kw, node):
        if name == "expmint":
            g = pos[2] if len(pos) > 2 else kw.get("geti2", False)
            t = it.truth(g, node)
            if t is None:
                return I.Unknown("expmint called with an undecided geti2")
            return (clone(Esym), clone(Isym), clone(I2sym)) if t else (clone(Esym), clone(Isym))
        if name == "expmint_pow":
            return (clone(Esym), clone(Isym), clone(I2sym))
        return NotImplemented

    want = {1: ("I2 / h", "I - I2 / h"), 0: ("I", "0.0")}
    # (with an input matrix the `half` option is documented to be ignored: whatever n is, even (2 m) or odd (2 m + 1))
    regimes = (("B is None, half false", None, False, "{}", None), ("B given", B, False, "({}).dot(B)", None),
               ("B is None, half true", None, True, "({})[:, :n // 2]", 2 * F.sym("m")),
               ("B given, half true (ignored), n even", B, True, "({}).dot(B)", 2 * F.sym("m")),
               ("B given, half true (ignored), n odd", B, True, "({}).dot(B)", 2 * F.sym("m") + 1))
    for q in ("getEPQ1", "getEPQ_pow"):
        fn = ctx.src.func(EXPM, q)
        for order in (0, 1):
            for label, Bv, half, shape, nv in regimes:
                # without an input matrix every matrix is n x n; the `half` option is defined for an even n, written 2 m
                nval = F.sym("n") if nv is None else nv
                sq_hook, sq_shape = _square_shapes(extra, nval, None if Bv is None else F.sym("i"))
                it = Interp(ctx, EXPM, hook=_ordered_hook(_int_hook(sq_hook if (Bv is None or half) else extra)), erase=False, oracle=_dims_oracle)
                if Bv is None or half:
                    it.shape_of = sq_shape
                ret = it.call(q, [A, h, F.const(order), Bv, half])
                if _aborted(ctx, f"{q}(order={order}; {label}) returns E, P, Q", fn, ret):
                    continue
                if not isinstance(ret, tuple) or len(ret) != 3:
                    ctx.error(f"{q}(order={order}; {label}): return", fn, repr(ret)[:300])
                    continue
                env = {"I": Isym, "I2": I2sym, "h": h, "B": B, "E": Esym, "n": nval}
                wp = it.expr(shape.format(want[order][0]), env)
                wq = it.expr(shape.format(want[order][1]), env) if order == 1 else F.const(0)
                src = _last(it.calls, "expmint", "expmint_pow")
                sa = src.ordered() if src is not None else []
                ok = I.same_value(ret[0], Esym) and I.same_value(ret[1], wp) and I.same_value(ret[2], wq) \
                    and len(sa) >= 2 and I.same_value(sa[0], A) and I.same_value(sa[1], h)
                what = "" if Bv is None and not half else (" times B from the right" if Bv is not None else ", first half of the columns")
                verdict(ctx, ok, f"{q}(order={order}; {label}): E, P = {'I2/h' if order else 'I'}{what}, Q = {('I - I2/h' + what) if order else '0'} "
                                 "(first-order hold: int e^{A(h-t)} (1-t/h), int e^{A(h-t)} t/h)", fn,
                        {"P": repr(ret[1])[:200], "Q": repr(ret[2])[:200], "want P": repr(wp)[:200], "want Q": repr(wq)[:200],
                         "E, I[, I2] computed from": repr(sa[:2])[:120]}, list(ret) + sa[:2])
    # the four variants are interchangeable: same parameters, same defaults
    sigs = {}
    for q in ("getEPQ", "getEPQ1", "getEPQ2", "getEPQ_pow"):
        f = ctx.src.func(EXPM, q)
        it = Interp(ctx, EXPM)
        a_ = f.args
        names = [p_.arg for p_ in a_.posonlyargs + a_.args]
        dv = [it.expr(ast.unparse(d_)) for d_ in a_.defaults]
        sigs[q] = (tuple(names), tuple(I.key_of(v) for v in dv), bool(a_.vararg or a_.kwarg or a_.kwonlyargs))
    ok = len(set(sigs.values())) == 1
    ctx.check(ok, "getEPQ, getEPQ1, getEPQ2, getEPQ_pow take the same parameters with the same defaults", ctx.src.func(EXPM, "getEPQ"),
              None if ok else {k: repr(v)[:160] for k, v in sigs.items()})
    # expmint_pow: the power series
    K = 5
    fn = ctx.src.func(EXPM, "expmint_pow")
    a = F.sym("a")
    it = Interp(ctx, EXPM, hook=scalar_hook(), oracle=Converge(K))
    ret = it.call("expmint_pow", [a, h])
    sub = {"x": a * h}
    if _aborted(ctx, "expmint_pow returns E, I, I2", fn, ret):
        pass
    elif not isinstance(ret, tuple) or len(ret) != 3:
        ctx.error("expmint_pow: return", fn, repr(ret)[:300])
    else:
        for nm, got, w in (("E", ret[0], _exp_trunc(K).subs(sub)), ("I", ret[1], h * _phi1_trunc(K).subs(sub)),
                           ("I2", ret[2], h * h * _phi2_trunc(K).subs(sub))):
            ok = isinstance(got, F.Rat) and got.equals(w)
            verdict(ctx, ok, f"expmint_pow: after {K} terms {nm} is {'h^2 times ' if nm == 'I2' else ('h times ' if nm == 'I' else '')}"
                             "the partial sum of its documented series", fn, {"got": repr(got)[:300], "want": repr(w)[:300]}, [got])
    # second integral on the order-13 route: the A^-1 formula when its consistency test passes, else the power series (evaluated as
    # expmint reaches them, on the squared E and with the helper on A h)
    fn = ctx.src.func(EXPM, "expmint")
    x = F.sym("x")
    X = x * h
    for direct in (False, True):
        what = "A^-1 formula" if direct else "power series"
        r = Run(ctx, "expmint", Fraction(10), geti2=True, follow_geti2=True, allclose=direct, converge=K)
        if _aborted(ctx, f"expmint (order 13, second integral by the {what}) returns E, I, I2", fn, r.ret):
            continue
        if not isinstance(r.ret, tuple) or len(r.ret) != 3 or not isinstance(r.ret[2], F.Rat) or not isinstance(r.ret[0], F.Rat):
            ctx.error(f"expmint (order 13): second integral by the {what}", fn, repr(r.ret)[:300])
            continue
        Eo, ret = r.ret[0], r.ret[2]
        if direct:
            # with E = e^X, X = A h: int_0^h t e^{At} dt = h^2 (X e^X - e^X + 1)/X^2
            w = h * h * (X * Eo - Eo + 1) / (X * X)
            ret = _mod_first_integral(ret, Eo, r.ret[1], x)       # (written with I or with A^-1 (E - 1): the same matrix)
            ok = ret.equals(w)
            verdict(ctx, ok, "second integral, A^-1 formula: h^2 (X E - E + 1)/X^2 with X = A h", fn, {"got": repr(ret)[:300], "want": repr(w)}, [ret])
        else:
            w = h * h * _phi2_trunc(K).subs({"x": X})
            ok = ret.equals(w)
            verdict(ctx, ok, f"second integral, power series: after {K} terms the result is h^2 times the partial sum of sum X^k/((k+2) k!), X = A h", fn,
                    {"got": repr(ret)[:300], "want": repr(w)[:300]}, [ret])


# ------------------------------------------------------------------------------------------------------------ R5
def _epq(A, h, order, B):
    E = F.exp(A * h)
    I1 = (E - 1) / A
    I2 = (A * h * E - E + 1) / (A * A)      # int_0^h t e^{At} dt
    if order == 0:
        P, Q = I1, F.const(0)
    else:
        P, Q = I2 / h, I1 - I2 / h
    if B is not None:
        P, Q = P * B, Q * B
    return (E, clone(P), clone(Q))


def _ss_hook(it, name, pos, kw, node):
    if name in ("expmint.getEPQ", "getEPQ", "pyyeti.expmint.getEPQ"):
        sig = ("A", "h", "order", "B", "half")          # public signature of expmint.getEPQ (R2 evaluates the function itself)
        if len(pos) > len(sig) or any(k not in sig for k in kw):
            return I.Unknown("getEPQ called with unexpected arguments")
        b = {"order": F.const(1), "B": None, "half": False}
        b.update(dict(zip(sig, pos)))
        b.update(kw)
        if "A" not in b or "h" not in b:
            return I.Unknown("getEPQ called without A, h")
        A, h, o = to_rat(b["A"]), to_rat(b["h"]), b["order"]
        if is_unknown(A) or is_unknown(h) or not I.is_const(o) or I.cval(o) not in (0, 1):
            return I.Unknown("getEPQ with a non-literal order")
        if b["half"] is not False:
            return I.Unknown("getEPQ(half=...) in a conversion")
        B = b["B"]
        if B is not None:
            B = to_rat(B)
            if is_unknown(B):
                return B
        return _epq(A, h, int(I.cval(o)), B)
    return NotImplemented


def _ss_oracle(w, h=None):
    def other(it, v, node):
        if h is not None and isinstance(v, F.Rat) and not is_unknown(v) and v.equals(h):
            return True                                          # `if self.h:` -- a time step is positive
        c = _cmp_const(v)
        if c is not None and c[2] == 0 and c[1].equals(w):       # the prewarp frequency of the prewarp cases is not zero
            return {"Eq": False, "NotEq": True}.get(c[0])
        if c is not None and c[2] == 0 and h is not None and c[1].equals(h):
            return {"Eq": False, "NotEq": True, "Gt": True, "GtE": True, "Lt": False, "LtE": False}.get(c[0])
        return None
    return call_oracle({"isinstance": False}, other)


def _model(it, A, B, C, D, h=None):
    m = it.instantiate("SSModel", [A, B, C, D] + ([h] if h is not None else []))
    if not isinstance(m, Obj):
        raise Unsupported(f"SSModel constructor: {m!r}")
    return m


class _Crashed(Exception):
    def __init__(self, crash):
        self.crash = crash


def _abcd(m, what):
    if I.is_crash(m):
        raise _Crashed(m)
    if not isinstance(m, Obj) or m.cls is None or m.cls.name != "SSModel":
        raise Unsupported(f"{what}: result is not an SSModel: {m!r}")
    out = [m.attrs.get(k) for k in ("A", "B", "C", "D")]
    if any(not isinstance(v, F.Rat) for v in out):
        raise Unsupported(f"{what}: {out!r}"[:300])
    return out


def _r5_other_direction(ctx, it, tag, method, pw, pw0, sm, zmats, h, w, cfn, dfn):
    """the model d2c returns is a *continuous* model for the class itself (c2d converts it, getlti takes its matrices as they are), and
    c2d inverts d2c: on the model just converted and on a generic discrete model"""
    opts = {"method": method, "prewarp": pw}
    # (a) c2d(d2c(z)) for z = c2d(s)
    title = f"c2d[{tag}](d2c[{tag}](z)) == z for z = c2d[{tag}](s): the model d2c returns is continuous for c2d, which converts it back"
    try:
        z2 = it.method(sm, "c2d", [h], dict(opts))
        got = _abcd(z2, f"c2d[{tag}] of d2c's result")
        ok = all(g_.equals(w_) for g_, w_ in zip(got, zmats)) and isinstance(z2.attrs.get("h"), F.Rat) and z2.attrs["h"].equals(h)
        verdict(ctx, ok, title, dfn, {"h of d2c's result": repr(sm.attrs.get("h")), "got": repr(got)[:300], "want": repr(list(zmats))[:300]}, got)
    except _Crashed as e:
        ctx.fail(title, dfn, {"evaluation raises": e.crash.why})
    except Unsupported as e:
        ctx.error(title, dfn, str(e)[:400])
    # (b) getlti of d2c's result: its own matrices
    title = f"d2c[{tag}]: getlti() of the model returned hands that model's matrices to scipy.signal.lti (it is continuous: not converted again)"
    try:
        n0 = len(it.calls)
        it.method(sm, "getlti", [])
        lti = _last(it.calls[n0:], "signal.lti")
        conv = [c_ for c_ in it.calls[n0:] if c_.name in ("SSModel.d2c", "SSModel.c2d")]
        if lti is None:
            ctx.error(title, dfn, "getlti: no call of scipy.signal.lti found")
        else:
            args = list(lti.pos) + [lti.kw.get(k_) for k_ in ("A", "B", "C", "D")[len(lti.pos):]]
            want = [sm.attrs.get(k_) for k_ in "ABCD"]
            ok = len(args) == 4 and all(I.same_value(g_, w_) for g_, w_ in zip(args, want)) \
                and not any(isinstance(c_.result, Obj) and c_.result is not sm for c_ in conv)
            verdict(ctx, ok, title, lti.node, {"lti receives": repr(args)[:300], "the model's matrices": repr(want)[:300]}, args)
    except (AnchorError, Unsupported) as e:
        ctx.error(title, dfn, str(e)[:400])
    # (c) a generic discrete model (for the hold methods its A written as the exponential it is: exp(alpha h))
    al, zb, zc, zd, za = (F.sym(n_) for n_ in ("alpha", "zb", "zc", "zd", "za"))
    zA = za if method == "tustin" else F.exp(al * h)
    title = f"c2d[{tag}](d2c[{tag}](z)) == z for a generic discrete model z"
    try:
        it2 = Interp(ctx, SSM, hook=scalar_hook(_ss_hook), oracle=_ss_oracle(w, h))
        zg = _model(it2, zA, zb, zc, zd, h)
        it2.protected = [zg]
        s2 = it2.method(zg, "d2c", [], dict(opts))
        _abcd(s2, f"d2c[{tag}]")
        z3 = it2.method(s2, "c2d", [h], dict(opts))
        got = _abcd(z3, f"c2d[{tag}]")
        ok = all(g_.equals(w_) for g_, w_ in zip(got, (zA, zb, zc, zd)))
        verdict(ctx, ok, title, cfn, {"got": repr(got)[:400], "want": repr([zA, zb, zc, zd])[:200]}, got)
    except _Crashed as e:
        ctx.fail(title, cfn, {"evaluation raises": e.crash.why})
    except Unsupported as e:
        ctx.error(title, cfn, str(e)[:400])


def r5_ssmodel(ctx):
    """SSModel.c2d / d2c, per method: (i) the discrete model has the transfer function the hold assumption defines (zoh, zoha, foh)
    or the bilinear substitution s = k (z-1)/(z+1) of the continuous one (tustin, with k = 2/h or the prewarp value);
    (ii) d2c(c2d(model)) is the model again.  Decided in the scalar image (all matrices involved are functions of A and commute)."""
    a, b, c, d, h, z, w = (F.sym(x) for x in ("a", "b", "c", "d", "h", "z", "w"))
    E = F.exp(a * h)
    I1 = (E - 1) / a
    I2 = (a * h * E - E + 1) / (a * a)
    Hs = lambda s_: c * b / (s_ - a) + d                                # noqa: E731
    cfn = ctx.src.func(SSM, "SSModel.c2d")
    dfn = ctx.src.func(SSM, "SSModel.d2c")
    cases = [("zoh", True), ("zoha", True), ("foh", True), ("tustin", True), ("tustin", False)]
    inplace = {"c2d": [], "d2c": []}
    for method, pw0 in cases:
        tag = method + ("" if method != "tustin" else (" (no prewarp)" if pw0 else " (prewarp)"))
        pw = F.const(0) if pw0 else w
        try:
            it = Interp(ctx, SSM, hook=scalar_hook(_ss_hook), oracle=_ss_oracle(w, h))
            s = _model(it, a, b, c, d)
            it.protected = [s]
            zm = it.method(s, "c2d", [h], {"method": method, "prewarp": pw})
            zA, zB, zC, zD = _abcd(zm, f"c2d[{tag}]")
            inplace["c2d"] += [t for _n, t in it.inplace]
        except _Crashed as e:
            ctx.fail(f"c2d[{tag}]: the conversion can be evaluated", cfn, {"evaluation raises": e.crash.why})
            continue
        except Unsupported as e:
            ctx.error(f"c2d[{tag}]: could not evaluate", cfn, str(e)[:400])
            continue
        Hz = zC * zB / (z - zA) + zD
        if method == "tustin":
            k = F.const(2) / h if pw0 else w / F.fn("tan", w * h / 2)
            want = Hs(k * (z - 1) / (z + 1))
            what = "H_z(z) = H_s(k (z-1)/(z+1)) with k = " + ("2/h" if pw0 else "w/tan(w h/2)")
        else:
            # x[k+1] = E x[k] + Pu u[k] + Qu u[k+1]:  H_z = c (Pu + z Qu) b / (z - E) + d
            Pu, Qu = {"zoh": (I1, F.const(0)), "zoha": (I1 / 2, I1 / 2), "foh": (I2 / h, I1 - I2 / h)}[method]
            want = c * (Pu + z * Qu) * b / (z - E) + d
            what = {"zoh": "input held at its start-of-step value", "zoha": "input held at the average of its two end values",
                    "foh": "input linear across the step"}[method]
            what = f"H_z(z) is the exactly sampled response with the {what}"
        ok = Hz.equals(want)
        verdict(ctx, ok, f"c2d[{tag}]: {what}", cfn, {"got": repr(Hz)[:400], "want": repr(want)[:400]}, [zA, zB, zC, zD])
        zh = zm.attrs.get("h")
        ok = isinstance(zh, F.Rat) and zh.equals(h)
        verdict(ctx, ok, f"c2d[{tag}]: the discrete model is constructed with the step h it was computed for", cfn, repr(zh), [zh])
        # round trip
        try:
            it = Interp(ctx, SSM, hook=scalar_hook(_ss_hook), oracle=_ss_oracle(w, h))
            zmod = _model(it, zA, zB, zC, zD, h)
            it.protected = [zmod]
            sm = it.method(zmod, "d2c", [], {"method": method, "prewarp": pw})
            sA, sB, sC, sD = _abcd(sm, f"d2c[{tag}]")
            inplace["d2c"] += [t for _n, t in it.inplace]
        except _Crashed as e:
            ctx.fail(f"d2c[{tag}]: the conversion can be evaluated", dfn, {"evaluation raises": e.crash.why})
            continue
        except Unsupported as e:
            ctx.error(f"d2c[{tag}]: could not evaluate", dfn, str(e)[:400])
            continue
        for nm, got, wantv in (("A", sA, a), ("B", sB, b), ("C", sC, c), ("D", sD, d)):
            ok = got.equals(wantv)
            verdict(ctx, ok, f"d2c[{tag}](c2d[{tag}](s)).{nm} == s.{nm}", dfn, repr(got)[:400], [got])
        # what the two models say about themselves: a model records no other method / prewarp frequency than the one it was made with
        for what_, m_, f_ in (("c2d", zm, cfn), ("d2c", sm, dfn)):
            rec = {k_: m_.attrs.get(k_) for k_ in ("method", "prewarp")}
            ok = rec["method"] is None or rec["method"] == method
            if method == "tustin" and not pw0 and ok:
                ok = rec["prewarp"] is None or I.same_value(to_rat(rec["prewarp"]), w)
            verdict(ctx, ok, f"{what_}[{tag}]: the model returned records the method" + (" and prewarp frequency" if method == "tustin" else "")
                    + " it was made with (or none)", f_, repr(rec)[:200], [v_ for v_ in rec.values() if v_ is not None])
        _r5_other_direction(ctx, it, tag, method, pw, pw0, sm, (zA, zB, zC, zD), h, w, cfn, dfn)
    # getlti() of a discrete model: the continuous model d2c() (with its defaults) makes of it
    gfn = ctx.src.func(SSM, "SSModel.getlti")
    title = "getlti() of a discrete model hands scipy.signal.lti the matrices of the continuous model its d2c() returns"
    try:
        it = Interp(ctx, SSM, hook=scalar_hook(_ss_hook), oracle=_ss_oracle(w, h))
        zb_, zc_, zd_, al_ = (F.sym(n_) for n_ in ("zb", "zc", "zd", "alpha"))
        zg = _model(it, F.exp(al_ * h), zb_, zc_, zd_, h)
        want = _abcd(it.method(zg, "d2c", []), "d2c()")
        n0 = len(it.calls)
        it.method(zg, "getlti", [])
        lti = _last(it.calls[n0:], "signal.lti")
        if lti is None:
            ctx.error(title, gfn, "no call of scipy.signal.lti found")
        else:
            args = list(lti.pos) + [lti.kw.get(k_) for k_ in ("A", "B", "C", "D")[len(lti.pos):]]
            ok = len(args) == 4 and all(I.same_value(g_, w_) for g_, w_ in zip(args, want))
            verdict(ctx, ok, title, lti.node, {"lti receives": repr(args)[:300], "d2c() gives": repr(want)[:300]}, args)
    except _Crashed as e:
        ctx.fail(title, gfn, {"evaluation raises": e.crash.why})
    except (AnchorError, Unsupported) as e:
        ctx.error(title, gfn, str(e)[:400])
    # a conversion leaves the model it converts (and anything the model retains between calls) as it was
    for nm, fn in (("c2d", cfn), ("d2c", dfn)):
        ev = sorted(set(inplace[nm]))
        ctx.check(not ev, f"{nm}: no array reachable from the model being converted (its matrices, anything it keeps between calls) is "
                          "updated in place", fn, ev or None)
    # both conversions refuse an unknown method (no silent fall-through to some default formula)
    for nm, fn in (("c2d", cfn), ("d2c", dfn)):
        try:
            it = Interp(ctx, SSM, hook=scalar_hook(_ss_hook), oracle=_ss_oracle(w, h))
            if nm == "c2d":
                r = it.method(_model(it, a, b, c, d), "c2d", [h], {"method": "no such method"})
            else:
                r = it.method(_model(it, a, b, c, d, h), "d2c", [], {"method": "no such method"})
        except Unsupported as e:
            ctx.error(f"{nm}: unknown method", fn, str(e)[:300])
            continue
        ok = isinstance(r, Raised)
        if I.is_crash(r):
            ctx.fail(f"{nm}: an unknown method raises instead of falling through", fn, {"evaluation raises (before the method is looked at)": r.why})
        else:
            verdict(ctx, ok, f"{nm}: an unknown method raises instead of falling through", r.node if ok else fn, repr(r)[:200],
                    [r.attrs.get(k_) for k_ in "ABCD"] if isinstance(r, Obj) else [r])


# ------------------------------------------------------------------------------------------------------------ R6
FLOAT_DTYPES = {"float", "np.float64", "np.double", "np.float_", "np.longdouble", "complex", "np.complex128", "np.complex_", "'float64'", "'d'",
                "'float'", "'f8'", "'complex128'", "'complex'"}


def _shape_of(v, shapes, n=None):
    """shape of a value of getEPQ2 as a tuple of lengths: A (and A h) is n x n (a state matrix is square), an input matrix B (and B h)
    is n x i (one row per state), np.eye(k) is k x k, an allocated array has the shape it was allocated with, exp(M) the shape of M;
    a scalar multiple of one of those has its shape.  None when the value is none of these."""
    p = fn_parts(v)
    if p is not None and p[0] == "eye" and p[1] and isinstance(p[1][0], F.Rat):
        return (p[1][0], p[1][-1] if isinstance(p[1][-1], F.Rat) else p[1][0])
    nm = I.sym_name(v)
    if nm is not None:
        if nm in shapes:
            return shapes[nm] if isinstance(shapes[nm], tuple) else None
        n = F.sym("n") if n is None else n
        if nm == "A":
            return (n, n)
        if nm == "B":
            return (n, F.sym("i"))
        return None
    try:
        if isinstance(v, F.Rat) and v.d.is_const() and len(v.n.t) == 1:
            (mono, _c), = v.n.t.items()
            mats = [(a_, e_) for a_, e_ in mono if not (F.atom_desc(a_)[0] == "s" and F.atom_desc(a_)[1] == "h")]
            if len(mats) == 1 and mats[0][1] == 1 and (len(mono) > 1 or _c != 1):
                return _shape_of(F.Rat(F.Poly.atom(mats[0][0])), shapes, n)
    except Exception:  # noqa
        pass
    return None


def _as_shape(v):
    """the shape an allocation was asked for: a tuple of lengths; a single length is a one-dimensional array"""
    if isinstance(v, tuple):
        return tuple(to_rat(x) for x in v)
    if isinstance(v, F.Rat) and not is_unknown(v):
        return (v,)
    return None


def _subs_atom(v, atom, new):
    """v with the opaque application `atom` (a value that is exactly one atom) replaced by `new`"""
    (m, _c), = atom.n.t.items()
    mp = {m[0][0]: F._R(new)}
    return F._subs_poly(v.n, mp) / F._subs_poly(v.d, mp)


def _covers(outer, inner):
    """every element the canonical index `inner` selects is selected by `outer` (decided on the interval bounds)"""
    a, _t = I._index_items(outer)
    b, _t = I._index_items(inner)
    if len(a) != len(b):
        return False
    for s, t in zip(a, b):
        sp, tp = I._sel_parts(s), I._sel_parts(t)
        if sp is None or tp is None:
            if sp is None and tp is None and I.same_value(s, t):
                continue
            return False
        if I.sign_of(tp[0] - sp[0]) not in (0, 1) or I.sign_of(sp[1] - tp[1]) not in (0, 1):
            return False
    return True


UNINIT = "@uninitialised"
READ_ONLY_CALLS = {"len", "getattr", "isinstance", "np.shape", "np.ndim", "np.size", "np.asarray", "np.asanyarray", "np.allclose", "np.isfinite", "np.any", "np.all",
                   "np.linalg.norm", "la.norm", "abs", "np.abs", ".copy", ".max", ".min", ".sum", ".any", ".all", ".dot", "np.dot", ".astype", ".view", "id", "type"}


def _content(M, cells, start=None):
    """what a freshly allocated all-zero array holds after the recorded stores, whatever their order and spelling: a list of
    [selection, value, statement] over pairwise disjoint selections with non-zero values (`start`: what it holds to begin with, for an
    array that is allocated without being cleared).  Second result: why that could not be decided (a store whose selection is not
    resolved, or that may partly overlap an earlier one), else None."""
    content = list(start or [])

    def uninit(e):
        return I.sym_name(e[1]) == UNINIT

    for base, ix, v, st, aug in cells:
        if not I.same_value(base, M):
            continue
        if is_unknown(ix) or not isinstance(ix, F.Rat) or not I.index_is_canonical(ix):
            return content, f"a store into the array with an index the rule cannot resolve to rows / columns: {ix!r}"[:300]
        v = to_rat(v)
        if is_unknown(v):
            return content, f"a stored value could not be evaluated: {v!r}"[:300]
        same = [e for e in content if I.same_value(e[0], ix)]
        rest = [e for e in content if not I.same_value(e[0], ix)]
        # a store inside a region that was never written leaves the remainder of that region unwritten
        around = [e for e in rest if uninit(e) and _covers(e[0], ix)]
        rest_w = [e for e in rest if not any(e is a_ for a_ in around)]
        if aug:
            if around or (same and uninit(same[0])):
                return content, "an in-place update of a part of the array that was never written"
            if any(not I.intervals_disjoint(e[0], ix) for e in rest_w):
                return content, "an in-place update of a part of the array that may overlap an earlier store"
            v = _subs_atom(v, F.fn("idx", M, ix), same[0][1] if same else F.const(0))
        else:
            covered = [e for e in rest_w if _covers(ix, e[0])]
            rest_w = [e for e in rest_w if not any(e is c_ for c_ in covered)]
            if any(not I.intervals_disjoint(e[0], ix) for e in rest_w):
                return content, "a store that may partly overlap an earlier one"
        if v.depends_on(I.sym_name(M) or "") or any(I.same_value(a_[0], M) for _n, a_ in I.atoms_named(v, "idx") if a_ and isinstance(a_[0], F.Rat)):
            return content, "a stored value read from the array itself"
        content = around + rest_w + ([[ix, v, st]] if not (v.is_const() and v.is_zero()) else [])
    return content, None


def r6_augmented(ctx):
    """getEPQ2: the augmented matrix handed to _expm_SS holds A h, B h (and the identity for a first-order hold) in the blocks the exponential
    of which contains E, P, Q; it can hold them (floating dtype whatever the dtypes of A and h); E, P, Q are the blocks documented.
    Blocks are decided by the rows / columns they select in an array of the allocated shape, not by how the bounds are written."""
    fn = ctx.src.func(EXPM, "getEPQ2")
    A, h, B = F.sym("A"), F.sym("h"), F.sym("B")
    # (with an input matrix the `half` option is documented to be ignored, whatever n is: the result is that of the sibling variants)
    regimes = (("B given", B, False, "B.shape[1]", None, None), ("B is None", None, False, "n", "np.eye(n)", None),
               ("B is None, half", None, True, "n // 2", "np.eye(n // 2)", 2 * F.sym("m")),
               ("B given, half true (ignored), n even", B, True, "B.shape[1]", None, 2 * F.sym("m")),
               ("B given, half true (ignored), n odd", B, True, "B.shape[1]", None, 2 * F.sym("m") + 1))
    for rlabel, Bval, half, i_txt, B_txt, nv in regimes:
        for order in (0, 1):
            bufs = {}
            shapes = {}

            def extra(it, name, pos, kw, node, bufs=bufs, shapes=shapes):
                if name in ("np.zeros", "np.empty") and (pos or "shape" in kw):
                    s = F.sym(f"buffer{len(bufs) + 1}")
                    sh = _as_shape(pos[0] if pos else kw["shape"])
                    bufs[I.sym_name(s)] = (sh if sh is not None else (pos[0] if pos else kw["shape"]), pos[1] if len(pos) > 1 else kw.get("dtype"), node,
                                           name == "np.zeros")
                    shapes[I.sym_name(s)] = sh
                    return s
                if name in ("np.eye", "np.identity") and 1 <= len(pos) <= 2 and set(kw) <= {"dtype"} \
                        and (len(pos) == 1 or I.same_value(to_rat(pos[0]), to_rat(pos[1]))):
                    return F.fn("eye", to_rat(pos[0]))
                r = _shape_call(it, name, pos, kw)
                if r is not NotImplemented:
                    return r
                if (name == "np.copyto" and len(pos) == 2 and not kw) or (name == ".fill" and len(pos) == 2 and not kw):
                    # np.copyto(X[ix], V), X[ix].fill(v): the store X[ix] = V
                    dst, src = pos
                    if isinstance(dst, F.Rat) and not is_unknown(dst) and (I.sym_name(dst) in bufs or (fn_parts(dst) or ("",))[0] == "idx"):
                        root, ix = it.subscript(dst, F.fn("slice", F.sym("None"), F.sym("None"), F.sym("None")))
                        it.cells.append((clone(root), ix, clone(to_rat(src)), node, False))
                        return None
                    return NotImplemented
                if name == "_expm_SS":
                    em = F.sym("EM")
                    shapes["EM"] = it.shape(pos[0]) if pos and isinstance(pos[0], F.Rat) else None      # exp(M) has the shape of M
                    return em
                return NotImplemented

            # the `half` option is defined for an even number of states, written 2 m: every spelling of "half of n" is then m
            nval = F.sym("n") if nv is None else nv
            it = Interp(ctx, EXPM, hook=_ordered_hook(_int_hook(extra)), erase=False, oracle=_dims_oracle)
            it.shape_of = lambda v, shapes=shapes, nval=nval: _shape_of(v, shapes, nval)
            ret = it.call("getEPQ2", [A, h, F.const(order), Bval, half])
            call = _last(it.calls, "_expm_SS")
            tag = f"getEPQ2(order={order}; {rlabel})"
            ca = call.ordered() if call is not None else []
            if _aborted(ctx, f"{tag} returns E, P, Q", fn, ret):
                continue
            if not isinstance(ret, tuple) or len(ret) != 3 or len(ca) < 3:
                ctx.error(f"{tag}: could not evaluate", fn, repr(ret)[:300])
                continue
            M = ca[0]
            mname = I.sym_name(M)
            if mname not in bufs:
                # (not a violation: the matrix may be assembled by np.block / np.hstack, or _expm_SS may take its parameters in another order)
                ctx.error(f"{tag}: augmented matrix", call.node, f"first argument of _expm_SS is not a freshly allocated array: {M!r}"[:200])
                continue
            shape, dtype, znode, cleared = bufs[mname]
            # dtype
            if dtype is None:
                ctx.ok(f"{tag}: the augmented matrix is allocated with the default (float64) dtype", znode)
            else:
                for _k in range(3):         # np.dtype(float), np.dtype("float64")
                    p = fn_parts(dtype) if isinstance(dtype, F.Rat) else None
                    if p is None or p[0] != "call:np.dtype" or len(p[1]) != 1:
                        break
                    nm_ = I.sym_name(p[1][0]) or ""
                    dtype = Ref(nm_[1:]) if nm_.startswith("@") else (nm_[1:-1] if nm_[:1] in "'\"" else dtype)
                    if isinstance(dtype, F.Rat):
                        break
                dn = dtype.name if isinstance(dtype, Ref) else (repr(dtype) if isinstance(dtype, str) else None)
                if dn in FLOAT_DTYPES:
                    ctx.ok(f"{tag}: the augmented matrix is allocated as a floating array ({dn}), so it holds A h and B h whatever the dtypes of A, B, h", znode)
                else:
                    dv = to_rat(dtype)
                    inherits = not is_unknown(dv) and I.atoms_named(dv, "attr:dtype")
                    p = fn_parts(dv) if isinstance(dv, F.Rat) else None
                    promoted = p is not None and p[0] in ("call:np.result_type", "call:np.promote_types", "call:np.common_type") \
                        and (p[0].endswith("common_type") or any(isinstance(x, F.Rat) and I.sym_name(x) in ("@float", "@np.float64", "@complex") for x in p[1]))
                    if promoted:
                        ctx.ok(f"{tag}: the augmented matrix is allocated with a dtype promoted with float", znode)
                    elif inherits:
                        ctx.fail(f"{tag}: the augmented matrix is allocated as a floating array, so it holds A h and B h whatever the dtypes of A, B, h", znode,
                                 {"dtype": repr(dv)[:200], "why": "the dtype is inherited from an input: integer A and h give an integer array and B h is truncated when stored"})
                    else:
                        ctx.error(f"{tag}: dtype of the augmented matrix", znode, f"cannot decide whether {dv!r} is a floating dtype"[:200])
            # blocks
            env = {"A": A, "h": h, "B": B, "M": M, "EM": F.sym("EM"), "n": None, "i": None, "r": None}
            env["n"] = it.expr("A.shape[0]", env)
            if B_txt is not None:
                env["B"] = it.expr(B_txt, env)          # the identity that stands for the missing input matrix
            env["i"] = it.expr(i_txt, env)
            env["r"] = it.expr("B.shape[0]", env)
            want_shape = it.expr("(n + 2 * i, n + 2 * i)" if order == 1 else "(n + i, n + i)", env)
            ok = I.same_value(shape, want_shape)
            verdict(ctx, ok, f"{tag}: the augmented matrix is square of size n + {'2 i' if order else 'i'}", znode, repr(shape)[:200], [shape])
            if not ok:
                continue            # where a block lies is decided in an array of the documented shape
            blocks = [("M[:n, :n]", "A * h", "A h in the leading block"), ("M[:r, n:n + i]", "B * h", "B h to the right of it")]
            if order == 1:
                blocks += [("M[n:n + i, n + i:]", "np.eye(i)", "the identity coupling u and du")]
            whole = fn_parts(it.expr("M[:, :]", env))[1][1]
            cr = _find_crash([x_ for c_ in it.cells if I.same_value(c_[0], M) for x_ in (c_[1], c_[2])])
            if cr is not None:
                ctx.fail(f"{tag}: the augmented matrix can be filled", znode, {"evaluation raises": cr.why})
                continue
            content, undecided = _content(M, it.cells, None if cleared else [[whole, F.sym(UNINIT), znode]])
            # a library call that receives the array (or a part of it) before it is exponentiated may write into it: np.copyto, .fill, ...
            for c_ in it.calls:
                if c_.seq >= call.seq or isinstance(c_.callee, I.FuncV) or c_.name in READ_ONLY_CALLS or (c_.name in ("np.copyto", ".fill") and c_.result is None):
                    continue
                for a_ in list(c_.pos) + list(c_.kw.values()):
                    p_ = fn_parts(a_) if isinstance(a_, F.Rat) else None
                    if I.same_value(a_, M) or (p_ is not None and p_[0] == "idx" and I.same_value(p_[1][0], M)):
                        undecided = undecided or f"the array is handed to {c_.name}, which may write into it"
            used = []
            for where_txt, val_txt, what in blocks:
                wi = fn_parts(it.expr(where_txt, env))[1][1]
                wv = it.expr(val_txt, env)
                hit = [c_ for c_ in content if I.same_value(c_[0], wi)]
                used += hit
                ok = len(hit) == 1 and I.same_value(hit[0][1], wv)
                title = f"{tag}: {what} (rows / columns {where_txt} hold {val_txt})"
                if not ok and undecided is not None:
                    ctx.error(title, hit[0][2] if hit else znode, undecided)
                    continue
                verdict(ctx, ok, title, hit[0][2] if hit else znode,
                        {"array content": [(repr(c_[0])[:80], repr(c_[1])[:80]) for c_ in content]}, [c_[0] for c_ in content] + [c_[1] for c_ in content])
            others = [c_ for c_ in content if not any(c_ is u_ for u_ in used)]
            title = f"{tag}: every other element of the augmented matrix is zero"
            zeroed = any(I.same_value(c_[0], M) and I.is_const(c_[2]) and to_rat(c_[2]).is_zero() for c_ in it.cells)
            if undecided is not None:
                ctx.error(title, znode, undecided)
            elif zeroed and any(I.sym_name(c_[1]) == UNINIT for c_ in others):
                ctx.error(title, znode, "the array is allocated without being cleared and cleared piecewise: the rule cannot decide whether the pieces cover it")
            else:
                verdict(ctx, not others, title, others[0][2] if others else znode,
                        {"also stored": [(repr(c_[0])[:80], repr(c_[1])[:80]) for c_ in others]}, [c_[1] for c_ in others])
            ok = I.same_value(ca[1], A * h) and I.same_value(ca[2], F.const(order))
            verdict(ctx, ok, f"{tag}: _expm_SS receives the augmented matrix, A h and the order", call.node, repr(ca[1:])[:200], ca[1:3])
            outs = {"E": "EM[:n, :n]"}
            if order == 1:
                outs.update({"Q": "EM[:n, n + i:]", "P": "EM[:n, n:n + i] - EM[:n, n + i:]"})
            else:
                outs.update({"P": "EM[:n, n:]", "Q": "0.0"})
            for nm, got in zip(("E", "P", "Q"), ret):
                wv = it.expr(outs[nm], env)
                ok = I.same_value(got, wv)
                title = f"{tag}: {nm} = {outs[nm]}"
                bad = I.noncanonical_indices(got) if isinstance(got, F.Rat) else []
                if not ok and bad:
                    ctx.error(title, fn, f"an index the rule cannot resolve to rows / columns: {bad[0]!r}"[:300])
                    continue
                verdict(ctx, ok, title, fn, repr(got)[:200], [got])


# ------------------------------------------------------------------------------------------------------------ R7
class _NeedMore(Exception):
    """a test none of the outcomes scripted so far decides"""


def _geti2_paths(ctx, max_depth=4, max_runs=24):
    """the paths of expmint's order-13 route through the second integral, by the outcomes of the tests on the solve with A (on its
    factorisation, its singularity, on quantities computed with A^-1): [(Run, [(test value, node, outcome), ...])]; second result: True
    when some path was cut off"""
    done, todo, cut, runs = [], [()], False, 0
    while todo:
        script = todo.pop(0)
        if runs >= max_runs:
            cut = True
            break
        runs += 1
        seen = []

        def other(it, v, node, script=script, seen=seen):
            if not _about_the_solve(v):
                return None             # (loop counters, argument checks, convergence tests: not what admits the formula)
            for t, _n, out in seen:
                if I.same_value(t, v):
                    return out
            if len(seen) >= len(script):
                raise _NeedMore()
            seen.append((clone(v), node, script[len(seen)]))
            return seen[-1][2]

        try:
            r = Run(ctx, "expmint", Fraction(10), geti2=True, follow_geti2=True, oracle=other)
        except _NeedMore:
            if len(script) < max_depth:
                todo += [script + (True,), script + (False,)]
            else:
                cut = True
            continue
        done.append((r, seen))
    return done, cut


MAGNITUDE_FUNCS = {"abs", "call:abs", "call:np.abs", "call:np.absolute", "call:np.fabs", "call:.diagonal", "call:np.diagonal", "call:np.diag", "call:.min",
                   "call:.max", "call:.prod", "call:.sum", "call:np.min", "call:np.max", "call:np.amin", "call:np.amax", "call:np.prod", "call:np.sum",
                   "min", "max", "call:.any", "call:.all", "call:np.any", "call:np.all", "call:np.count_nonzero", "call:.__abs__", "call:np.isfinite",
                   "call:np.sign", "call:np.log", "call:np.log10", "call:np.log2", "call:np.sqrt"}
SIZE_FUNCS = {"attr:shape", "attr:size", "attr:ndim", "call:len", "call:np.shape", "call:np.size", "attr:dtype", "call:np.finfo", "attr:eps", "attr:tiny",
              "attr:resolution", "call:np.spacing", "call:float", "call:int"}


def _magnitudes_of_factors_only(v, barred):
    """(yes, saw): `yes` when the value reads the matrix only as magnitudes of entries of its LU factors (pivots: abs, min, max, prod,
    diagonal ... of la.lu_factor's result, or a determinant), its size and machine constants, and reads none of the symbols `barred`;
    `saw`: it does read the factors"""
    saw = [False]

    def rat(r, inside):
        return poly(r.n, inside) and poly(r.d, inside)

    def poly(p_, inside):
        for m in p_.t:
            for a_, _e in m:
                d_ = F.atom_desc(a_)
                if d_[0] == "s":
                    if d_[1] in barred:
                        return False
                    continue
                if d_[0] != "fn":
                    return False
                name = d_[1]
                args = [k if isinstance(k, str) else F.Rat(F._poly_from_key(k[1]), F._poly_from_key(k[2])) for k in d_[2]]
                if name in ("lufac", "lupiv"):
                    if not inside:
                        return False
                    saw[0] = True
                    continue
                if name in SIZE_FUNCS:
                    continue
                if name in DET_FUNCS:
                    saw[0] = True
                    continue
                if name in MAGNITUDE_FUNCS or name.startswith("kw:"):
                    if not all(rat(x, True) for x in args if isinstance(x, F.Rat)):
                        return False
                    continue
                if name.startswith(("cmp:", "bool:", "op:")) or name in ("not", "tuple"):
                    if not all(rat(x, inside) for x in args if isinstance(x, F.Rat)):
                        return False
                    continue
                return False
        return True

    try:
        ok = rat(v, False)
    except Exception:  # noqa
        return False, False
    return ok and saw[0], saw[0]


def _solve_checked(t, outcome, Ev, Iv, A):
    """the test `t` (with the outcome it had on the path) establishes the accuracy of solves with the factorisation of A: it compares a
    quantity computed *through* A^-1 with a value of the same quantity computed without it (the first integral I, which the Pade route
    delivers to round-off: int_0^h e^{At} dt = A^-1 (E - 1) exactly), and the path is the one on which the two agree (True); "refuted"
    when it is such a comparison and the path is the one on which the two do *not* agree; False when it is no such comparison"""
    iname = I.sym_name(Iv) if isinstance(Iv, F.Rat) else None
    if iname is None:
        return False

    def is_check(c):
        try:
            if not isinstance(c, F.Rat) or is_unknown(c) or c.is_zero() or not c.depends_on(iname) or not _pole_at_zero(c, I.sym_name(A)):
                return False
            return _mod_first_integral(c, Ev, Iv, A).is_zero()
        except Unsupported:
            return False

    # tol-predicates close(u, w): the path on which they hold
    for nm in CLOSE_FUNCS:
        for _n, args in I.atoms_named(t, "call:" + nm):
            rs = [a_ for a_ in args if isinstance(a_, F.Rat)]
            if len(rs) >= 2 and is_check(rs[0] - rs[1]):
                p = fn_parts(t)
                while p is not None and p[0] in ("call:.all", "call:np.all", "call:all", "call:bool") and p[1] and isinstance(p[1][0], F.Rat):
                    t, p = p[1][0], fn_parts(p[1][0])
                if p is not None and p[0] == "call:" + nm:
                    return True if outcome is True else "refuted"
    # a magnitude of the difference compared with a bound: the path on which it is the smaller side
    p = fn_parts(t)
    if p is not None and p[0].startswith("cmp:") and len(p[1]) == 2 and p[0][4:] in ("Lt", "LtE", "Gt", "GtE"):
        def has_diff(side):
            stack = [side]
            while stack:
                v_ = stack.pop()
                if is_check(v_):
                    return True
                q = fn_parts(v_)
                if q is not None and (q[0] in MAGNITUDE_FUNCS or q[0] in ("call:np.linalg.norm", "call:la.norm")):
                    stack += [a_ for a_ in q[1][:1] if isinstance(a_, F.Rat)]
            return False
        left, right = has_diff(p[1][0]), has_diff(p[1][1])
        if left != right:
            small_left = (p[0][4:] in ("Lt", "LtE")) == (outcome is True)
            return True if small_left == left else "refuted"
    return False


def r7_inverse_formula_guard(ctx):
    """expmint, order-13 route: the closed form I2 = A^-1 (E h - I) amplifies round-off by cond(A).  It is justified only on a path on which
    the code has checked a solve made with the same factorisation against the independently computed first integral; a test that looks
    only at the pivots does not bound the condition number (a unit upper triangular matrix with -1 above the diagonal has unit pivots, LU
    factors with entries 0 / 1 / -1, determinant 1, and condition number 2^(n-1); a diagonal matrix passes a pivot-ratio test against
    n eps with condition number 1/(n eps)): such a guard lets the formula through for nearly singular A."""
    fn = ctx.src.func(EXPM, "expmint")
    x = F.sym("x")
    paths, cut = _geti2_paths(ctx)
    title = "expmint (order 13): the A^-1 formula of the second integral is reached only after a solve with the factorisation of A has " \
            "been checked against the first integral computed without it"
    inverse, series = [], []
    for r, tests in paths:
        if _aborted(ctx, "expmint (order 13): a path through the second integral returns E, I, I2", fn, r.ret):
            continue
        if not isinstance(r.ret, tuple) or len(r.ret) != 3 or not isinstance(r.ret[2], F.Rat) or is_unknown(r.ret[2]):
            continue          # (a path the evaluator does not follow to its end: the power series, whose convergence test nothing decides here)
        (inverse if _pole_at_zero(r.ret[2]) else series).append((r, tests))
    if not inverse:
        if cut or not series:
            ctx.error(title, fn, "no path on which the second integral is computed with A^-1 could be evaluated")
        else:
            ctx.ok("expmint (order 13): the second integral is never computed with A^-1 (power series only)", fn)
        return
    for r, tests in inverse:
        Ev, Iv = r.ret[0], r.ret[1]
        where = tests[-1][1] if tests else fn
        shown = [f"{ast.unparse(n_) if isinstance(n_, ast.AST) else n_} is {o_}" for _t, n_, o_ in tests]
        if I.sym_name(Iv) is None or not isinstance(Ev, F.Rat):
            ctx.error(title, where, f"E, I of the route are not values the rule can relate: {r.ret[:2]!r}"[:300])
            continue
        res = [_solve_checked(t_, o_, Ev, Iv, x) for t_, _n, o_ in tests]
        if any(r_ is True for r_ in res):
            ctx.ok(title, where)
            continue
        if "refuted" in res:
            ctx.fail(title, where, {"admitted when": shown, "why": "the formula is used on the path on which the check of the solve fails"})
            continue
        if not tests:
            ctx.fail(title, fn, {"why": "the formula is returned without any test"})
            continue
        kinds = [_magnitudes_of_factors_only(t_, {"x", I.sym_name(Iv), I.sym_name(Ev) or ""}) for t_, _n, _o in tests]
        if all(k_[0] for k_ in kinds):
            ctx.fail(title, where, {"admitted when": shown,
                                    "why": "the admitting test reads only magnitudes of entries of the LU factors (pivots / determinant): these do not "
                                           "bound cond(A), so the formula is used for nearly singular A where it loses cond(A) eps of accuracy"})
        else:
            ctx.error(title, where, f"cannot decide whether the tests on this path bound the error of the solve: {shown}"[:400])


RULES = [
    ("C07-R1", r1_pade_tables, 29),
    ("C07-R2", r2_thresholds, 64),
    ("C07-R3", r3_squaring, 22),
    ("C07-R4", r4_siblings, 26),
    ("C07-R5", r5_ssmodel, 60),
    ("C07-R6", r6_augmented, 95),
    ("C07-R7", r7_inverse_formula_guard, 1),
]
LEVEL = "other"
EXPLANATION = ("Static: every Pade coefficient table in expmint.py (17 tables) is extracted under the scalar homomorphism A->x and checked, "
               "in exact rational arithmetic on the literals' decimal text, to satisfy the order conditions of the diagonal approximant of "
               "exp(x), sum x^k/(k+1)! and sum x^k/((k+2)k!); expmint/_expm_SS are evaluated in regimes just below and above each published theta_m: "
               "the table used, the order told to _geti2, the scaling power (five placements of the norm estimates around theta_13 2^k) and the squaring loop (trip count, I <- I + I.E before E <- E.E) are values "
               "of that evaluation; getEPQ1/getEPQ_pow build P,Q identically in every B/half regime; the power-series loops produce the documented partial "
               "sums; getEPQ switches at theta_9, which bounds the route with a Pade table for the second integral, and does so in every option regime (B None / given, half, order 0 / 1: a getEPQ1 / expmint result with the second integral is returned only on a path that found h ||A||_1 <= theta_9, and the routine reached receives the options unchanged); getEPQ2's augmented matrix "
               "(blocks, floating dtype, partition of the result), also with an input matrix and half=True (the option is ignored, as in the sibling variants); "
               "SSModel.c2d/d2c per method: hold-equivalent / bilinear transfer function, round trip in both directions (d2c(c2d(s)) = s, "
               "c2d(d2c(z)) = z evaluated on the objects returned, so a 'continuous' result that keeps its step is seen), recorded method / prewarp, getlti, "
               "no in-place update of retained arrays; the A^-1 formula of the second integral on the order-13 route is reached only on a path on which "
               "a solve with the factorisation of A was checked against the first integral (a pivot / determinant test does not establish that).")
MANIFEST = {
    "text": "Partial claim decided statically: (R1) all 17 Pade tables are exact diagonal approximants (order conditions to O(x^(2N+1)) in exact rationals), "
            "with 2^-s scaling applied uniformly; (R2) regimes just below/above each published theta_m select the order-m table and tell _geti2 that order, "
            "the order-13 scaling power s = max(ceil(log2(min(max(d6,d8), max(d8,d10)) / 4.25)), 0) + ell on five placements of the estimates, getEPQ's switch constant and the route it guards, per option regime (B None / given x half x order) and per outcome of the norm test: no path returns a getEPQ1 / expmint(geti2) result without having established h ||A||_1 <= theta_9 (typestate), options passed on unchanged; "
            "(R3) squaring loop runs s times with I <- I + I.E before E <- E.E, E/I/I2 assembled from the table of the route, _solve_P_Q_2 per structure; "
            "(R4) getEPQ1 == getEPQ_pow in P,Q construction for B given / half / both (half ignored when B is given), power-series partial sums, "
            "direct I2 formula (written with I or with A^-1 (E - 1)); "
            "(R5) SSModel.c2d/d2c per method (zoh, zoha, foh, tustin with and without prewarp): the discrete transfer function is the exactly sampled one for the "
            "stated hold / the bilinear substitution of the continuous one, d2c(c2d(s)) = s and c2d(d2c(z)) = z (on the model objects the methods return: "
            "the result of d2c must be continuous for c2d and getlti), recorded method / prewarp, in the scalar image; conversions do not update retained arrays in place; "
            "(R6) getEPQ2's augmented matrix: shape, content (which rows / columns hold A h, B h, I; everything else zero, whatever the spelling or order "
            "of the stores), floating dtype, partition of exp(M) into E, P, Q by the rows / columns read, in every B / half regime; "
            "(R7) typestate: on every evaluated path of the order-13 route that returns the second integral through A^-1, a test the code makes has compared a solve "
            "with the same factorisation against the independently computed first integral (tests on pivots / determinant alone are reported, other tests are undecided). "
            "Not decided: floating-point accuracy, scipy's norm estimates and solves, conditioning, the block structure of _ExpmPadeHelper_SS beyond its scalar image.",
    "note": "Trusted: CPython ast; exact Fraction arithmetic; scipy's _ExpmPadeHelper.pade7/pade9 are taken to be the diagonal Pade approximants (library). "
            "The matrix polynomial identities are checked through the scalar homomorphism A -> x (sound for polynomials in one matrix).",
    "technique": "symbolic evaluation of the functions (helpers followed, module tables folded) in rule-chosen regimes + exact rational order-condition checks",
}
