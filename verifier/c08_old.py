"""C08 -- step-wise generator == batch solver for any send history (partial claim)."""
from __future__ import annotations

import ast

from . import e2_formula as F
from . import ode_spaces as O
from .core import AnchorError, Unsupported
from .e1_srcmodel import dotted, walk_no_nested, parent, ancestors, utext
from .e2_eval import Evaluator, Unknown, is_unknown, need

UNC, SE2, BASE = O.UNC, O.SE2, O.BASE

D0, V0, F0, F1 = F.sym("d0"), F.sym("v0"), F.sym("f0"), F.sym("f1")
F1RF, F0RB, F1RB = F.sym("f1rf"), F.sym("f0rb"), F.sym("f1rb")
COEF = {c: F.sym(c) for c in ("F", "G", "A", "B", "Fp", "Gp", "Ap", "Bp")}
BO, ALPHA, IKRF = F.sym("bo"), F.sym("alpha"), F.sym("ikrf")


def _generator_loops(fn):
    """every `while True:` loop that receives `j, F1 = yield`, with the tests that dominate it"""
    out = []
    for n in ast.walk(fn):
        if isinstance(n, ast.While) and ast.unparse(n.test) == "True" and n.body and "yield" in ast.unparse(n.body[0]):
            doms = []
            for a in ancestors(n):
                if isinstance(a, ast.If):
                    inbody = any(n is y for x in a.body for y in ast.walk(x))
                    doms.append((ast.unparse(a.test).replace(" ", ""), inbody))
            out.append((n, doms))
    return sorted(out, key=lambda x: x[0].lineno)


def _loop_config(doms):
    """{order, rf, ksize} from the dominating tests"""
    cfg = {"order": None, "rf": None, "k": True}
    for t, inb in doms:
        if t in ("self.order==1", "order==1"):
            cfg["order"] = 1 if inb else 0
        elif t in ("self.rfsize", "rfsize"):
            cfg["rf"] = inb
        elif t in ("notself.ksize", "notksize"):
            cfg["k"] = not inb
        elif t in ("unc",):
            cfg["unc"] = inb
    return cfg


# ---------------------------------------------------------------------------
# loop-carried state
def _ue_uses(stmts, defined=None):
    """(upward-exposed uses, definitely-assigned names) of a statement list"""
    defined = set(defined or ())
    ue = set()
    for st in stmts:
        if isinstance(st, ast.If):
            u_t = {n.id for n in ast.walk(st.test) if isinstance(n, ast.Name)} - defined
            ub, db = _ue_uses(st.body, defined)
            uo, do = _ue_uses(st.orelse, defined)
            ue |= u_t | ub | uo
            defined |= (db & do)
            continue
        loads, stores = [], []
        if isinstance(st, ast.AugAssign):
            loads += [n.id for n in ast.walk(st.value) if isinstance(n, ast.Name)]
            loads += [n.id for n in ast.walk(st.target) if isinstance(n, ast.Name)]
            if isinstance(st.target, ast.Name):
                stores.append(st.target.id)
        elif isinstance(st, ast.Assign):
            loads += [n.id for n in ast.walk(st.value) if isinstance(n, ast.Name)]
            for t in st.targets:
                if isinstance(t, ast.Name):
                    stores.append(t.id)
                elif isinstance(t, (ast.Tuple, ast.List)):
                    for e in t.elts:
                        if isinstance(e, ast.Name):
                            stores.append(e.id)
                        else:
                            loads += [n.id for n in ast.walk(e) if isinstance(n, ast.Name)]
                else:
                    loads += [n.id for n in ast.walk(t) if isinstance(n, ast.Name)]
        else:
            loads += [n.id for n in ast.walk(st) if isinstance(n, ast.Name) and isinstance(n.ctx, ast.Load)]
        ue |= set(loads) - defined
        defined |= set(stores)
    return ue, defined


def _assigned_in(stmts):
    out = set()
    for st in stmts:
        for n in ast.walk(st):
            if isinstance(n, ast.Name) and isinstance(n.ctx, ast.Store):
                out.add(n.id)
            if isinstance(n, ast.AugAssign) and isinstance(n.target, ast.Name):
                out.add(n.target.id)
    return out


def r1_carried_state(ctx):
    gens = [(UNC, "SolveUnc._solve_real_unc_generator", set()), (UNC, "SolveUnc._solve_real_unc_generator_cdforces", {"dmpfrc1", "i_last"}),
            (UNC, "SolveUnc._solve_complex_unc_generator", set()), (SE2, "SolveExp2._solve_se2_generator", set())]
    nloops = 0
    for rel, q, extra in gens:
        fn = ctx.src.func(rel, q)
        for lp, doms in _generator_loops(fn):
            nloops += 1
            ue, _ = _ue_uses(lp.body)
            carried = ue & _assigned_in(lp.body)
            cfg = _loop_config(doms)
            allowed = {"i"} | (extra if cfg["k"] else set())
            ok = carried <= allowed and "i" in carried
            ctx.check(ok, f"{q.split('.')[1]} (order {cfg['order']}, rf {cfg['rf']}): the only locals that survive from one send to the next are {sorted(allowed)}",
                      lp, {"carried": sorted(carried)})
            # `i` is set from the received index in the positive-send arm and only there
            sets_i = [s for s in ast.walk(lp) if isinstance(s, ast.Assign) and ast.unparse(s.targets[0]) == "i"]
            ok = len(sets_i) == 1 and ast.unparse(sets_i[0].value) == "j"
            ctx.check(ok, f"{q.split('.')[1]}: the step index is taken from the send (`i = j`) in the positive-send arm only", lp, nontrivial=False)
            if extra and cfg["k"]:
                _cached_damping_force(ctx, q, lp, cfg)
    ctx.check(nloops >= 13, f"carried-state rule bound to {nloops} generator loops", UNC + ":1", nontrivial=False)


def _arms(lp):
    """(add-on arm, positive-send arm) of `if j < 0:`"""
    for st in lp.body:
        if isinstance(st, ast.If) and ast.unparse(st.test).replace(" ", "") == "j<0":
            return st.body, st.orelse
    raise AnchorError("generator loop without `if j < 0:`")


def _cached_damping_force(ctx, q, lp, cfg):
    addon, pos = _arms(lp)
    tag = f"{q.split('.')[1]} (order {cfg['order']}, rf {cfg['rf']})"
    uses = [n for st in pos for n in ast.walk(st) if isinstance(n, ast.Name) and n.id == "dmpfrc1" and isinstance(n.ctx, ast.Load)]
    # every use of the value cached by a previous send sits in `dmpfrc1 if i_last == i - 1 else bo @ vi`
    first_def = min((st.lineno for st in pos for n in ast.walk(st) if isinstance(n, ast.Name) and n.id == "dmpfrc1" and isinstance(n.ctx, ast.Store)),
                    default=10 ** 9)
    for u in uses:
        if u.lineno > first_def:
            continue   # a use of the value computed in this very send
        p_ = parent(u)
        ok = isinstance(p_, ast.IfExp) and p_.body is u and ast.unparse(p_.test).replace(" ", "") == "i_last==i-1"
        alt = ast.unparse(p_.orelse).replace(" ", "") if isinstance(p_, ast.IfExp) else None
        ok = ok and alt == "bo@vi"
        ctx.check(ok, f"{tag}: the damping force cached by an earlier send is used only when that send solved step i - 1 (`i_last == i - 1`), "
                      "otherwise it is recomputed as bo @ V[:, i-1]", u,
                  None if ok else {"expression": ast.unparse(p_) if p_ is not None else None,
                                   "consequence": "after send(1..5) then send(3, f') the stale force of step 5 (or a recomputed force when the cache was valid) enters step 3"})
    vi = [s for s in pos if isinstance(s, ast.Assign) and ast.unparse(s.targets[0]) == "vi"]
    ok = bool(vi) and ast.unparse(vi[0].value).replace(" ", "") in ("V[:,i-1]", "v[:,i-1]")
    ctx.check(ok, f"{tag}: the recompute arm uses the velocity of step i - 1", vi[0] if vi else lp)
    il = [s for s in pos if isinstance(s, ast.Assign) and ast.unparse(s.targets[0]) == "i_last"]
    ok = len(il) == 1 and ast.unparse(il[0].value) == "i"
    ctx.check(ok, f"{tag}: the positive-send arm records which step the cache belongs to (`i_last = i`)", il[0] if il else lp)
    newd = [s for s in pos if isinstance(s, ast.Assign) and ast.unparse(s.targets[0]) == "dmpfrc1"]
    ok = len(newd) == 1 and ast.unparse(newd[0].value).replace(" ", "") == "alpha@v_part"
    ctx.check(ok, f"{tag}: the cache is refreshed with alpha @ v_part of the step just solved", newd[0] if newd else lp)
    if cfg["order"] == 1:
        # the add-on arm updates the cache whenever it updates V[:, i]
        txt = [utext(s) for s in addon]
        upd_v = any(t.startswith("V[:,i]+=") or t.startswith("v[:,i]+=") for t in txt)
        upd_c = any(t == "dmpfrc1+=dmpfrc1_addon" for t in txt)
        ctx.check(upd_v and upd_c, f"{tag}: an add-on force that changes V[:, i] also updates the cached damping force", lp, txt)


# ---------------------------------------------------------------------------
# symbolic evaluation of one arm of one loop
def _subscript_hook(node, ev):
    t = utext(node)
    table = {
        "D[:,i-1]": D0, "d[:,i-1]": D0, "V[:,i-1]": V0, "v[:,i-1]": V0, "drb[:,i-1]": F.sym("drb0"), "vrb[:,i-1]": F.sym("vrb0"),
        "Force[kdof,i-1]": F0, "Force[:,i-1]": F0, "F1[kdof]": F1, "F0[kdof]": F0, "F1[rf]": F1RF, "F0[rb]": F0RB, "F1[rb]": F1RB,
        "V[:,0]": V0, "v[:,0]": V0,
    }
    if t in table:
        return table[t]
    return NotImplemented


def _mk_env():
    env = {f"pc.{c}": v for c, v in COEF.items()}
    env.update({"self.pc.alpha": ALPHA, "pc.alpha": ALPHA, "self.bo": BO, "F1": F1, "self.ikrf": IKRF,
                "pc.Fe": F.sym("Fe"), "pc.Ae": F.sym("Ae"), "pc.Be": F.sym("Be"), "pc.ur_d": F.sym("ur_d"), "pc.ur_v": F.sym("ur_v"),
                "pc.ur_inv_v": F.sym("ur_inv_v"), "pc.ur_inv_d": F.sym("ur_inv_d"), "self.invm": F.sym("invm"), "self.imrb": F.sym("imrb"),
                "self.P": F.sym("P"), "self.Q": F.sym("Q"), "self.E_dd": F.sym("E_dd"), "self.E_dv": F.sym("E_dv"),
                "self.E_vd": F.sym("E_vd"), "self.E_vv": F.sym("E_vv")})
    return env


def _call_hook(node, ev):
    d = dotted(node.func) or ""
    if d == "la.lu_solve" and len(node.args) >= 2:
        a, b = ev.ev(node.args[0]), ev.ev(node.args[1])
        if is_unknown(a) or is_unknown(b):
            return a if is_unknown(a) else b
        if dotted(node.args[1].func if isinstance(node.args[1], ast.Call) else node.args[1]) == "np.eye":
            return need(a)          # lu_solve(lu, eye) : the inverse; `a` already stands for the inverse operator
        return need(a) * need(b)
    if d == "np.eye":
        return F.const(1)
    if d.endswith(".ravel") or d.endswith(".copy"):
        return ev.ev(node.func.value)
    return NotImplemented


def eval_generator_arm(ctx, fn, lp, cfg, which, pre_override=None):
    """run the function's straight-line prefix along the path to `lp`, then one arm of the loop body; returns Evaluator"""
    path_ifs = {}
    for a in ancestors(lp):
        if isinstance(a, ast.If):
            path_ifs[id(a)] = any(lp is y for x in a.body for y in ast.walk(x))

    def cond(test, ev):
        t = utext(test)
        if t == "j<0":
            return which == "addon"
        if t in ("self.rfsize", "rfsize"):
            return bool(cfg.get("rf"))
        if t in ("notself.ksize", "notksize"):
            return not cfg.get("k", True)
        if t in ("self.order==1", "order==1"):
            return cfg.get("order") == 1
        if t in ("order==0",):
            return cfg.get("order") == 0
        if t == "nt==1":
            return False
        if t in ("self.misnotNone", "misnotNone"):
            return cfg.get("m", True)
        if t in ("unc", "self.unc"):
            return cfg.get("unc", True)
        if t in ("systypeisfloat", "self.systypeisfloat"):
            return cfg.get("real", False)
        if t in ("rbsize", "self.rbsize"):
            return cfg.get("rb", True)
        if t in ("ksize", "self.ksize"):
            return cfg.get("k", True)
        return None

    ev = Evaluator(env=_mk_env(), cond=cond, src=ctx.src, subscript=_subscript_hook, call=_call_hook)

    def run(stmts):
        for st in stmts:
            if ev.done:
                return
            if st is lp:
                if pre_override:
                    ev.env.update(pre_override)
                body = [s for s in lp.body if not (isinstance(s, ast.Assign) and "yield" in ast.unparse(s.value))]
                ev.env["j"] = F.sym("j")
                ev.run(body)
                ev.done = True
                return
            if isinstance(st, ast.If):
                c = cond(st.test, ev)
                if id(st) in path_ifs:
                    run(st.body if path_ifs[id(st)] else st.orelse)
                elif c is True:
                    run(st.body)
                elif c is False:
                    run(st.orelse)
                else:
                    ev.stmt(st)
            elif isinstance(st, ast.While):
                continue
            elif isinstance(st, ast.Expr) and isinstance(st.value, (ast.Yield, ast.Constant)):
                continue
            else:
                ev.stmt(st)

    run(fn.body)
    return ev


def _store_value(ev, names):
    for b, idx, val, st in reversed(ev.stores):
        if b in names and idx.replace(" ", "") in (":,i", "(:,i)"):
            return val, st
    return None, None


def _batch_real_unc(ctx):
    """batch update formulas (d1, v1) of the uncoupled real solver for order 1 / 0"""
    fn = ctx.src.func(UNC, "_solve_real_unc_inner_loop")
    out = {}
    for order in (1, 0):
        arm = None
        for st in fn.body:
            if isinstance(st, ast.If) and ast.unparse(st.test).replace(" ", "") == "order==1":
                arm = st.body if order == 1 else st.orelse
        if arm is None:
            raise AnchorError("_solve_real_unc_inner_loop: `if order == 1`")
        env = dict(COEF)
        env.update({"di": D0, "vi": V0, "fki": F0})

        def sub(node, ev):
            t = utext(node)
            if t == "fk[:,i]":
                return F1
            return NotImplemented

        ev = Evaluator(env=env, src=ctx.src, subscript=sub)
        loop = None
        for st in arm:
            if isinstance(st, ast.For):
                loop = st
            else:
                ev.stmt(st)
        if loop is None:
            raise AnchorError("_solve_real_unc_inner_loop: loop")
        # order 0 reads the next force at the end of the body; evaluate the update statements only
        for st in loop.body:
            if order == 0 and utext(st) == "fki=fk[:,i]":
                continue
            ev.stmt(st)
        d1, _ = _store_value(ev, ("D",))
        v1, _ = _store_value(ev, ("V",))
        out[order] = (d1, v1, loop)
    return out


def _batch_cdforces(ctx):
    fn = ctx.src.func(UNC, "SolveUnc._solve_real_unc_cdforces")
    out = {}
    for order in (1, 0):
        env = _mk_env()
        env.update({"di": D0, "vi": V0, "dmpfrc0": BO * V0})

        def sub(node, ev):
            t = utext(node)
            return {"force[kdof,:-1]": F0, "force[kdof,1:]": F1, "ABF[:,i]": ev.env.get("ABF"), "ABFp[:,i]": ev.env.get("ABFp"),
                    "D[:,0]": D0, "V[:,0]": V0}.get(t, NotImplemented)

        def cond(test, ev, order=order):
            t = utext(test)
            return {"nt==1": False, "self.order==1": order == 1}.get(t)

        ev = Evaluator(env=env, cond=cond, src=ctx.src, subscript=sub, call=_call_hook)
        loop = None
        for st in fn.body:
            if isinstance(st, ast.For):
                loop = st
                break
            ev.stmt(st)
        if loop is None:
            raise AnchorError("_solve_real_unc_cdforces: loop")
        ev.env["di"], ev.env["vi"] = D0, V0
        d00 = ev.env.get("dmpfrc0")
        ev.run(loop.body)
        d1 = [v for b, i, v, s in ev.stores if b == "D"][-1]
        v1 = [v for b, i, v, s in ev.stores if b == "V"][-1]
        out[order] = (d1, v1, ev.env.get("dmpfrc0"), d00, loop)
    return out


def r2_step_equals_batch(ctx):
    batch = _batch_real_unc(ctx)
    ref = {1: (COEF["F"] * D0 + COEF["G"] * V0 + COEF["A"] * F0 + COEF["B"] * F1,
               COEF["Fp"] * D0 + COEF["Gp"] * V0 + COEF["Ap"] * F0 + COEF["Bp"] * F1),
           0: (COEF["F"] * D0 + COEF["G"] * V0 + (COEF["A"] + COEF["B"]) * F0,
               COEF["Fp"] * D0 + COEF["Gp"] * V0 + (COEF["Ap"] + COEF["Bp"]) * F0)}
    for order in (1, 0):
        d1, v1, loop = batch[order]
        ok = d1 is not None and v1 is not None and not is_unknown(d1) and not is_unknown(v1) and d1.equals(ref[order][0]) and v1.equals(ref[order][1])
        ctx.check(ok, f"_solve_real_unc_inner_loop (order {order}): the batch step is the documented one-step recurrence "
                      f"{'F d + G v + A f0 + B f1' if order else 'F d + G v + (A + B) f0'} (and its velocity twin)", loop,
                  None if ok else {"d1": repr(d1), "v1": repr(v1)})
    ok = batch[0][0] is not None and batch[1][0] is not None and batch[1][0].subs({"f1": F0}).equals(batch[0][0]) and \
        batch[1][1].subs({"f1": F0}).equals(batch[0][1])
    ctx.check(ok, "_solve_real_unc_inner_loop: order 0 is order 1 with the force held (f1 := f0)", batch[0][2])
    # generators: plain uncoupled
    fn = ctx.src.func(UNC, "SolveUnc._solve_real_unc_generator")
    for lp, doms in _generator_loops(fn):
        cfg = _loop_config(doms)
        if not cfg["k"]:
            continue
        ev = eval_generator_arm(ctx, fn, lp, cfg, "pos")
        d1, sd = _store_value(ev, ("D", "d"))
        v1, sv = _store_value(ev, ("V", "v"))
        tag = f"_solve_real_unc_generator (order {cfg['order']}, rf {cfg['rf']})"
        b = batch[cfg["order"]]
        ok = d1 is not None and not is_unknown(d1) and d1.equals(b[0])
        ctx.check(ok, f"{tag}: a positive send stores the batch displacement step computed from column i-1, Force[:, i-1] and the sent force", sd or lp,
                  None if ok else {"generator": repr(d1), "batch": repr(b[0])})
        ok = v1 is not None and not is_unknown(v1) and v1.equals(b[1])
        ctx.check(ok, f"{tag}: a positive send stores the batch velocity step", sv or lp, None if ok else {"generator": repr(v1), "batch": repr(b[1])})
        _rf_and_force(ctx, tag, ev, lp, cfg)
    # generators: coupled damping as force
    cb = _batch_cdforces(ctx)
    for order in (1, 0):
        d1, v1, dnext, d00, loop = cb[order]
        ok = d00 is not None and not is_unknown(d00) and d00.equals(BO * V0)
        ctx.check(ok, f"_solve_real_unc_cdforces (order {order}): the initial damping force is bo @ V[:, 0]", loop, nontrivial=False)
        ok = dnext is not None and not is_unknown(dnext) and v1 is not None and not is_unknown(v1)
        ctx.check(ok, f"_solve_real_unc_cdforces (order {order}): batch step lowered", loop, nontrivial=False)
    fn = ctx.src.func(UNC, "SolveUnc._solve_real_unc_generator_cdforces")
    for lp, doms in _generator_loops(fn):
        cfg = _loop_config(doms)
        if not cfg["k"]:
            continue
        tag = f"_solve_real_unc_generator_cdforces (order {cfg['order']}, rf {cfg['rf']})"
        b = cb[cfg["order"]]
        # lemma (i): the cached force, when valid, equals bo @ V[:, i-1]; evaluate both arms of the conditional
        for arm_name, table in (("cache valid", {"i_last==i-1": True}), ("recompute", {"i_last==i-1": False})):
            ev = eval_generator_arm(ctx, fn, lp, cfg, "pos", pre_override={"dmpfrc1": BO * V0})
            base_cond = ev.cond
            ev2 = eval_generator_arm_with(ctx, fn, lp, cfg, "pos", {"dmpfrc1": BO * V0}, table)
            d1, sd = _store_value(ev2, ("D", "d"))
            v1, sv = _store_value(ev2, ("V", "v"))
            ok = d1 is not None and not is_unknown(d1) and d1.equals(b[0]) and v1 is not None and not is_unknown(v1) and v1.equals(b[1])
            ctx.check(ok, f"{tag} [{arm_name}]: a positive send stores the batch step of the damping-as-force recurrence", sd or lp,
                      None if ok else {"generator d": repr(d1), "batch d": repr(b[0]), "generator v": repr(v1), "batch v": repr(b[1])})
            dn = ev2.env.get("dmpfrc1")
            ok = dn is not None and not is_unknown(dn) and b[2] is not None and dn.equals(b[2])
            ctx.check(ok, f"{tag} [{arm_name}]: the damping force cached for the next step equals the batch loop's carried value", lp,
                      None if ok else {"generator": repr(dn), "batch": repr(b[2])})
        evp = eval_generator_arm_with(ctx, fn, lp, cfg, "pos", {"dmpfrc1": BO * V0}, {"i_last==i-1": True})
        _rf_and_force(ctx, tag, evp, lp, cfg)
    # SolveExp2 generator vs tsolve
    fn = ctx.src.func(SE2, "SolveExp2._solve_se2_generator")
    P, Q, invm = F.sym("P"), F.sym("Q"), F.sym("invm")
    for lp, doms in _generator_loops(fn):
        cfg = _loop_config(doms)
        if not cfg["k"]:
            continue
        for m_given in (True, False):
            cfg2 = dict(cfg, m=m_given, unc=True)
            ev = eval_generator_arm(ctx, fn, lp, cfg2, "pos")
            pqf = ev.env.get("PQF")
            mm = invm if m_given else F.const(1)
            want = P * mm * F0 + (Q * mm * F1 if cfg["order"] == 1 else 0)
            tag = f"_solve_se2_generator (order {cfg['order']}, rf {cfg['rf']}, m {'given' if m_given else 'None'})"
            ok = pqf is not None and not is_unknown(pqf) and pqf.equals(want)
            ctx.check(ok, f"{tag}: the force integral is P M^-1 f(i-1) {'+ Q M^-1 f(i)' if cfg['order'] == 1 else ''} as in tsolve", lp,
                      None if ok else {"generator": repr(pqf), "batch": repr(want)})
            d1, sd = _store_value(ev, ("D", "d"))
            v1, sv = _store_value(ev, ("V", "v"))
            okd = d1 is not None and not is_unknown(d1) and d1.equals(F.sym("E_dd") * D0 + F.sym("E_dv") * V0 + want)
            okv = v1 is not None and not is_unknown(v1) and v1.equals(F.sym("E_vd") * D0 + F.sym("E_vv") * V0 + want)
            ctx.check(okd and okv, f"{tag}: d(i) = E_dd d + E_dv v + PQF[d half], v(i) = E_vd d + E_vv v + PQF[v half] from column i-1", sd or lp,
                      None if okd and okv else {"d": repr(d1), "v": repr(v1)})
        # halves: D <- PQF[ksize:], V <- PQF[:ksize] in both arms
        txt = utext(lp)
        okh = ("PQF[ksize:]" in txt and "PQF[:ksize]" in txt)
        for st in ast.walk(lp):
            if isinstance(st, (ast.Assign, ast.AugAssign)):
                t = utext(st)
                if t.startswith(("D[:,i]", "d[:,i]")) and "PQF" in t:
                    okh = okh and "PQF[ksize:]" in t and "PQF[:ksize]" not in t
                if t.startswith(("V[:,i]", "v[:,i]")) and "PQF" in t:
                    okh = okh and "PQF[:ksize]" in t and "PQF[ksize:]" not in t
        ctx.check(okh, f"_solve_se2_generator (order {cfg['order']}, rf {cfg['rf']}): displacement takes the d half (rows ksize:) and velocity the v half "
                       "(rows :ksize) of the [v; d] force integral", lp)
    ts = ctx.src.func(SE2, "SolveExp2.tsolve")
    t = utext(ts)
    ok = "D[:,i+1]=E_dd@d0+E_dv@v0+PQF[ksize:,i]" in t and "V[:,i+1]=E_vd@d0+E_vv@v0+PQF[:ksize,i]" in t \
        and "PQF=self.P@imf[:,:-1]+self.Q@imf[:,1:]" in t and "PQF=self.P@imf[:,:-1]" in t
    ctx.check(ok, "SolveExp2.tsolve: the batch step is d = E_dd d + E_dv v + PQF[d half], v = E_vd d + E_vv v + PQF[v half], PQF = P M^-1 f0 (+ Q M^-1 f1)", ts)


# ---------------------------------------------------------------------------
# complex-eigenvalue path: batch loop of _solve_complex_unc versus the generator, per configuration
import copy as _copy
import re as _re

FRB, FK = F.sym("frb"), F.sym("fk")


class _ReIm(ast.NodeTransformer):
    """X.real / X.imag -> __re(X) / __im(X) so that the two parts stay distinguishable in the algebra"""

    def visit_Attribute(self, node):
        self.generic_visit(node)
        if node.attr in ("real", "imag") and isinstance(node.ctx, ast.Load):
            return ast.copy_location(ast.Call(func=ast.Name(id="__re" if node.attr == "real" else "__im", ctx=ast.Load()), args=[node.value], keywords=[]), node)
        return node


def _cx_env():
    env = _mk_env()
    for nm in ("rur_d", "iur_d", "rur_v", "iur_v"):
        env[f"pc.{nm}"] = F.sym(nm)
    env.update({"pc.G": F.sym("G"), "pc.A": F.sym("A"), "pc.Ap": F.sym("Ap"), "self.ikrf": IKRF, "self.m": F.sym("m")})
    return env


def _cx_call(node, ev):
    d = dotted(node.func) or ""
    if d in ("__re", "__im"):
        v = ev.ev(node.args[0])
        if is_unknown(v):
            return v
        return F.fn("re" if d == "__re" else "im", need(v))
    if d in ("self._delconj",):
        return F.const(0)
    return _call_hook(node, ev)


def _cx_cond(cfg):
    def cond(test, ev):
        if isinstance(test, ast.UnaryOp) and isinstance(test.op, ast.Not) and utext(test) != "notself.slices":
            r = cond(test.operand, ev)
            return None if r is None else not r
        t = utext(test)
        table = {
            "self.rbsize": cfg["rb"], "rbsize": cfg["rb"], "self.misnotNone": cfg["m"] is not None, "misnotNone": cfg["m"] is not None,
            "self.unc": cfg["m"] == "unc", "unc": cfg["m"] == "unc", "nt>1": True, "nt==1": False,
            "self.order==1": cfg["order"] == 1, "order==1": cfg["order"] == 1, "order==0": cfg["order"] == 0,
            "notself.slices": False, "self.ksizeandnt>1": True, "ksize": True, "self.ksize": True,
            "self.systypeisfloat": cfg["real"], "systypeisfloat": cfg["real"], "rfsize": cfg.get("rf", True), "self.rfsize": cfg.get("rf", True),
        }
        return table.get(t)
    return cond


def _batch_complex(ctx, cfg):
    """one step of SolveUnc._solve_complex_unc for the configuration: dict of the values stored into column i+1"""
    fn0 = ctx.src.func(UNC, "SolveUnc._solve_complex_unc")
    fn = _ReIm().visit(_copy.deepcopy(fn0))
    cond = _cx_cond(cfg)

    def sub(node, ev):
        t = utext(node)
        fixed = {"force[rb]": FRB, "force[kdof]": FK, "drb[:,0]": F.sym("drb0"), "vrb[:,0]": F.sym("vrb0"), "d[rb]": F.sym("drb"), "v[rb]": F.sym("vrb"),
                 "v[kdof,0]": V0, "d[kdof,0]": D0}
        if t in fixed:
            return fixed[t]
        m = _re.fullmatch(r"(\w+)\[:,(:-1|1:|i)\]", t)
        if m and m.group(1) in ev.env and not is_unknown(ev.env[m.group(1)]) and m.group(1) not in ("y",):
            base = need(ev.env[m.group(1)])
            if m.group(2) == ":-1":
                return base.subs({"frb": F0RB, "fk": F0})
            if m.group(2) == "1:":
                return base.subs({"frb": F1RB, "fk": F1})
            return base
        if t == "y[:,1:]":
            for b, idx, val, st in reversed(ev.stores):
                if b == "y" and idx.replace(" ", "").strip("()") == ":,i+1":
                    return val
        return NotImplemented

    ev = Evaluator(env=_cx_env(), cond=cond, src=ctx.src, subscript=sub, call=_cx_call, store_accept=lambda n, i, node: True)
    ev.env["y0"] = F.sym("y0")

    def run(stmts):
        for st in stmts:
            if isinstance(st, ast.If):
                c = cond(st.test, ev)
                if c is None:
                    raise Unsupported(f"_solve_complex_unc: undecided test `{ast.unparse(st.test)}`")
                run(st.body if c else st.orelse)
            elif isinstance(st, ast.For):
                run(st.body)           # one symbolic iteration: column i -> i + 1
            elif isinstance(st, ast.Expr):
                continue
            else:
                ev.stmt(st)
    run(fn.body)
    out = {}
    for b, idx, val, st in ev.stores:
        out[(b, idx.replace(" ", "").strip("()"))] = val
    out["__AF"] = ev.env.get("AF")
    out["__AFp"] = ev.env.get("AFp")
    out["__ABF"] = ev.env.get("ABF")
    return out, fn0


def _gen_complex(ctx, cfg, which):
    fn0 = ctx.src.func(UNC, "SolveUnc._solve_complex_unc_generator")
    fn = _ReIm().visit(_copy.deepcopy(fn0))
    loops = [n for n in ast.walk(fn) if isinstance(n, ast.While) and ast.unparse(n.test) == "True"]
    if len(loops) != 1:
        raise AnchorError("_solve_complex_unc_generator: one `while True` loop expected")
    lp = loops[0]
    cond0 = _cx_cond(cfg)

    def cond(test, ev):
        t = utext(test)
        if t == "j<0":
            return which == "addon"
        return cond0(test, ev)

    def sub(node, ev):
        t = utext(node)
        table = {"F0[rb]": F0RB, "F1[rb]": F1RB, "F0[kdof]": F0, "F1[kdof]": F1, "F1[rf]": F1RF, "Force[:,i-1]": F.sym("Force0"),
                 "drb[:,i-1]": F.sym("drb0"), "vrb[:,i-1]": F.sym("vrb0"), "V[:,i-1]": V0, "D[:,i-1]": D0, "d[rb]": F.sym("drb"), "v[rb]": F.sym("vrb"),
                 "a[rb]": F.sym("arb"), "d[kdof]": F.sym("D"), "v[kdof]": F.sym("V"), "d[rf]": F.sym("drf")}
        return table.get(t, NotImplemented)

    env = _cx_env()
    env.update({"self.order": F.const(cfg["order"]), "self.unc": F.sym("unc"), "self.rbsize": F.sym("rbsize"), "self.ksize": F.sym("ksize"),
                "self.rfsize": F.sym("rfsize"), "self.systype": F.sym("systype"), "self._force": F.sym("Force"), "self.rb": F.sym("rb"),
                "self.kdof": F.sym("kdof"), "self.rf": F.sym("rf")})
    ev = Evaluator(env=env, cond=cond, src=ctx.src, subscript=sub, call=_cx_call, store_accept=lambda n, i, node: True)

    def run(stmts):
        for st in stmts:
            if st is lp:
                body = [x for x in lp.body if not (isinstance(x, ast.Assign) and "yield" in ast.unparse(x.value))]
                ev.env["F1"] = F.sym("F1all")
                ev.env["j"] = F.sym("j")
                ev.stores.clear()
                run(body)
                return True
            if isinstance(st, ast.If):
                c = cond(st.test, ev)
                if c is None:
                    raise Unsupported(f"_solve_complex_unc_generator: undecided test `{ast.unparse(st.test)}`")
                if run(st.body if c else st.orelse):
                    return True
            elif isinstance(st, ast.Expr):
                continue
            else:
                ev.stmt(st)
        return False
    run(fn.body)
    out = {}
    for b, idx, val, st in ev.stores:
        out[(b, idx.replace(" ", "").strip("()"))] = val
    return out, lp, fn0


def r2c_complex_path(ctx):
    """complex-eigenvalue solver: (a) the zero-order-hold arm of the batch loop is the first-order arm with the force held; (b) a positive
    send of the generator stores, for the rigid-body, elastic and residual-flexibility partitions, exactly the batch step computed from
    column i-1; in every configuration order x mass (None / diagonal / full) x system type (real / complex)."""
    nconf = 0
    for order in (1, 0):
        for mass in (None, "unc", "coupled"):
            for real in (True, False):
                cfg = {"order": order, "m": mass, "real": real, "rb": True}
                tag = f"order {order}, m {mass or 'None'}, {'real' if real else 'complex'} system"
                try:
                    b, bfn = _batch_complex(ctx, cfg)
                    g, lp, gfn = _gen_complex(ctx, cfg, "pos")
                except Unsupported as e:
                    ctx.error(f"complex path ({tag}): could not evaluate", None, str(e))
                    continue
                nconf += 1
                pairs = [("rigid-body displacement", ("drb", ":,i+1"), ("drb", ":,i")), ("rigid-body velocity", ("vrb", ":,i+1"), ("vrb", ":,i")),
                         ("elastic displacement", ("d", "kdof,1:"), ("D", ":,i")), ("elastic velocity", ("v", "kdof,1:"), ("V", ":,i"))]
                for what, bk, gk in pairs:
                    bv, gv = b.get(bk), g.get(gk)
                    if bv is None or gv is None or is_unknown(bv) or is_unknown(gv):
                        ctx.error(f"complex path ({tag}): {what} not lowered", bfn, {"batch": repr(bv), "generator": repr(gv)})
                        continue
                    # batch value is expressed on (drb0, vrb0, y-step); bring the elastic one to the same starting point
                    bv = bv.subs({"di": F.sym("y0")})
                    ok = gv.equals(bv)
                    ctx.check(ok, f"_solve_complex_unc_generator ({tag}): a positive send stores the batch {what} step computed from column i-1", lp,
                              None if ok else {"generator": repr(gv), "batch": repr(bv)})
                # acceleration of the rigid-body modes and the rf displacement
                gv = g.get(("arb", ":,i"))
                bv = b.get(("a", "rb"))
                ok = gv is not None and bv is not None and not is_unknown(gv) and not is_unknown(bv) and gv.equals(need(bv).subs({"frb": F1RB}))
                ctx.check(ok, f"_solve_complex_unc_generator ({tag}): rigid-body acceleration of step i is M_rb^-1 F1[rb] as in the batch solver", lp,
                          None if ok else {"generator": repr(gv), "batch": repr(bv)})
                gv = g.get(("drf", ":,i"))
                ok = gv is not None and not is_unknown(gv) and gv.equals(IKRF * F1RF)
                ctx.check(ok, f"_solve_complex_unc_generator ({tag}): residual-flexibility displacement of step i is K_rf^-1 F1[rf]", lp,
                          None if ok else repr(gv))
                if order == 0:
                    cfg1 = dict(cfg, order=1)
                    b1, _ = _batch_complex(ctx, cfg1)
                    for nm, hold in (("__AF", {"f1rb": F0RB}), ("__AFp", {"f1rb": F0RB}), ("__ABF", {"f1": F0})):
                        v0_, v1_ = b.get(nm), b1.get(nm)
                        ok = v0_ is not None and v1_ is not None and not is_unknown(v0_) and not is_unknown(v1_) and need(v1_).subs(hold).equals(v0_)
                        ctx.check(ok, f"_solve_complex_unc ({tag}): the zero-order-hold {nm[2:]} is the first-order one with the force held (f1 := f0)", bfn,
                                  None if ok else {"order 0": repr(v0_), "order 1 with f1:=f0": repr(need(v1_).subs(hold)) if v1_ is not None and not is_unknown(v1_) else None})
    ctx.check(nconf == 12, f"complex path evaluated in {nconf} of 12 configurations", None, nontrivial=False)


def r3c_complex_addon(ctx):
    """complex-eigenvalue generator: an add-on send (j < 0) adds to step i exactly the part of the positive-send update that is linear in the
    sent force (and nothing for a zero-order hold); _get_f2x_complex_unc uses the same coefficients (Be through the eigenvector recovery for
    the elastic modes, A/2 and Ap for the rigid-body modes)."""
    zero = {"f0rb": 0, "drb0": 0, "vrb0": 0, "d0": 0, "v0": 0, "f0": 0}
    for order in (1, 0):
        for mass in (None, "unc", "coupled"):
            for real in (True, False):
                cfg = {"order": order, "m": mass, "real": real, "rb": True}
                tag = f"order {order}, m {mass or 'None'}, {'real' if real else 'complex'} system"
                try:
                    pos, lp, fn = _gen_complex(ctx, cfg, "pos")
                    add, _, _ = _gen_complex(ctx, cfg, "addon")
                except Unsupported as e:
                    ctx.error(f"complex generator add-on ({tag}): could not evaluate", None, str(e))
                    continue
                for nm, what in (("drb", "rigid-body displacement"), ("vrb", "rigid-body velocity"), ("D", "elastic displacement"), ("V", "elastic velocity")):
                    a = add.get((nm, ":,i"))
                    if order == 0:
                        ctx.check(a is None, f"_solve_complex_unc_generator ({tag}): an add-on send leaves the {what} of step i alone (zero-order hold: "
                                             "the step does not depend on its end force)", lp, None if a is None else repr(a))
                        continue
                    p_ = pos.get((nm, ":,i"))
                    if a is None or p_ is None or is_unknown(a) or is_unknown(p_):
                        ctx.error(f"complex generator add-on ({tag}): {what} not lowered", lp, {"addon": repr(a), "pos": repr(p_)})
                        continue
                    inc = need(a) - F.sym(nm)
                    want = need(p_).subs({k: F.const(v) for k, v in zero.items()})
                    ok = inc.equals(want)
                    ctx.check(ok, f"_solve_complex_unc_generator ({tag}): an add-on send adds exactly the f1-linear part of the {what} update", lp,
                              None if ok else {"add-on increment": repr(inc), "d(update)/d f1 * F1": repr(want)})
                a = add.get(("arb", ":,i"))
                p_ = pos.get(("arb", ":,i"))
                ok = a is not None and p_ is not None and not is_unknown(a) and (need(a) - F.sym("arb")).equals(need(p_))
                ctx.check(ok, f"_solve_complex_unc_generator ({tag}): an add-on send adds M_rb^-1 F1[rb] to the rigid-body acceleration", lp,
                          None if ok else repr(a))
                a = add.get(("drf", ":,i"))
                ok = a is not None and not is_unknown(a) and (need(a) - F.sym("drf")).equals(IKRF * F1RF)
                ctx.check(ok, f"_solve_complex_unc_generator ({tag}): an add-on send adds K_rf^-1 F1[rf] to the residual-flexibility displacement", lp,
                          None if ok else repr(a))
                a = add.get(("Force", ":,i"))
                ok = a is not None and not is_unknown(a) and (need(a) - F.sym("Force")).equals(F.sym("F1all"))
                ctx.check(ok, f"_solve_complex_unc_generator ({tag}): an add-on send accumulates into the stored force of step i", lp, None if ok else repr(a))
    # get_f2x, complex path
    fn0 = ctx.src.func(UNC, "SolveUnc._get_f2x_complex_unc")
    fn = _ReIm().visit(_copy.deepcopy(fn0))
    for mass in (None, "unc", "coupled"):
        for velo in (True, False):
            cfg = {"order": 1, "m": mass, "real": True, "rb": True}
            c0 = _cx_cond(cfg)

            def cond(test, ev, velo=velo):
                if isinstance(test, ast.UnaryOp) and isinstance(test.op, ast.Not):
                    r = cond(test.operand, ev)
                    return None if r is None else not r
                t = utext(test)
                if t == "velo":
                    return velo
                return c0(test, ev)

            def sub(node, ev):
                t = utext(node)
                return {"phi[:,kdof]": F.sym("phik"), "phi[:,rb]": F.sym("phir")}.get(t, NotImplemented)

            def call(node, ev):
                d = dotted(node.func) or ""
                if d == "self._add_rf_flex":
                    return ev.ev(node.args[0])
                return _cx_call(node, ev)

            env = _cx_env()
            env["flex_rf"] = F.const(0)
            ev = Evaluator(env=env, cond=cond, src=ctx.src, subscript=sub, call=call)
            ev.run(fn.body)
            tag = f"m {mass or 'None'}, {'velocity' if velo else 'displacement'}"
            if not ev.returns or is_unknown(ev.returns[-1][0]):
                ctx.error(f"_get_f2x_complex_unc ({tag}): not lowered", fn0, repr(ev.returns[-1][0]) if ev.returns else None)
                continue
            got = need(ev.returns[-1][0])
            try:
                pos, lp, _ = _gen_complex(ctx, cfg, "pos")
            except Unsupported as e:
                ctx.error(f"_get_f2x_complex_unc ({tag}): generator not lowered", fn0, str(e))
                continue
            # unit add-on force through phi^T: f1 -> phik^T, f1rb -> phir^T; response recovered with phik / phir
            zero = {"f0rb": F.const(0), "drb0": F.const(0), "vrb0": F.const(0), "d0": F.const(0), "v0": F.const(0), "f0": F.const(0)}
            el = need(pos[("V" if velo else "D", ":,i")]).subs(zero).subs({"f1": F.sym("phik")})
            rb = need(pos[("vrb" if velo else "drb", ":,i")]).subs(zero).subs({"f1rb": F.sym("phir")})
            want = F.sym("phik") * el + F.sym("phir") * rb
            ok = got.equals(want)
            ctx.check(ok, f"_get_f2x_complex_unc ({tag}): flexibility = phi_k (d update/d f1) phi_k^T + phi_rb (d update/d f1) phi_rb^T of the "
                          "complex generator's first-order step", fn0, None if ok else {"got": repr(got), "want": repr(want)})


def eval_generator_arm_with(ctx, fn, lp, cfg, which, pre, extra_cond):
    """like eval_generator_arm but with extra decided conditions (by normalised text)"""
    ev = eval_generator_arm.__wrapped__(ctx, fn, lp, cfg, which, pre, extra_cond) if hasattr(eval_generator_arm, "__wrapped__") else None
    return _eval_arm(ctx, fn, lp, cfg, which, pre, extra_cond)


def _eval_arm(ctx, fn, lp, cfg, which, pre, extra_cond):
    cfg = dict(cfg)
    cfg["_extra"] = extra_cond
    base = eval_generator_arm

    # re-implement with the extra oracle layered on top
    path_ifs = {}
    for a in ancestors(lp):
        if isinstance(a, ast.If):
            path_ifs[id(a)] = any(lp is y for x in a.body for y in ast.walk(x))
    ev0 = base(ctx, fn, lp, cfg, which, None)  # for its cond closure
    cond0 = ev0.cond

    def cond(test, ev):
        t = utext(test)
        if t in extra_cond:
            return extra_cond[t]
        return cond0(test, ev)

    ev = Evaluator(env=_mk_env(), cond=cond, src=ctx.src, subscript=_subscript_hook, call=_call_hook)

    def run(stmts):
        for st in stmts:
            if ev.done:
                return
            if st is lp:
                if pre:
                    ev.env.update(pre)
                body = [s for s in lp.body if not (isinstance(s, ast.Assign) and "yield" in ast.unparse(s.value))]
                ev.env["j"] = F.sym("j")
                ev.run(body)
                ev.done = True
                return
            if isinstance(st, ast.If):
                c = cond(st.test, ev)
                if id(st) in path_ifs:
                    run(st.body if path_ifs[id(st)] else st.orelse)
                elif c is True:
                    run(st.body)
                elif c is False:
                    run(st.orelse)
                else:
                    ev.stmt(st)
            elif isinstance(st, ast.While):
                continue
            elif isinstance(st, ast.Expr) and isinstance(st.value, (ast.Yield, ast.Constant)):
                continue
            else:
                ev.stmt(st)

    run(fn.body)
    return ev


def _rf_and_force(ctx, tag, ev, lp, cfg):
    # Force[:, i] = F1
    fs = [(idx, val, st) for b, idx, val, st in ev.stores if b == "Force"]
    ok = bool(fs) and fs[-1][0].replace(" ", "") in (":,i", "(:,i)") and not is_unknown(fs[-1][1]) and fs[-1][1].equals(F1) \
        and isinstance(fs[-1][2], ast.Assign)
    ctx.check(ok, f"{tag}: a positive send replaces the stored force of step i (`Force[:, i] = F1`)", fs[-1][2] if fs else lp)
    if cfg.get("rf"):
        val, st = _store_value(ev, ("drf",))
        ok = val is not None and not is_unknown(val) and val.equals(IKRF * F1RF)
        ctx.check(ok, f"{tag}: residual-flexibility displacement of step i is the static solution K_rf^-1 F1[rf]", st or lp, None if ok else repr(val))


def r3_addon_linear_part(ctx):
    """an add-on send adds exactly the f1-linear part of the positive-send update and touches nothing else"""
    for q, pre in (("SolveUnc._solve_real_unc_generator", None), ("SolveUnc._solve_real_unc_generator_cdforces", {"dmpfrc1": F.sym("dmp_prev")})):
        fn = ctx.src.func(UNC, q)
        for lp, doms in _generator_loops(fn):
            cfg = _loop_config(doms)
            if not cfg["k"]:
                continue
            tag = f"{q.split('.')[1]} (order {cfg['order']}, rf {cfg['rf']})"
            extra = {"i_last==i-1": False}
            pos = _eval_arm(ctx, fn, lp, cfg, "pos", {"dmpfrc1": BO * V0} if pre else None, extra)
            cur0 = {n_: F.sym(n_) for n_ in ("D", "d", "V", "v", "drf", "Force")}
            add = _eval_arm(ctx, fn, lp, cfg, "addon", dict(cur0, **(pre or {})), extra)
            dpos, _ = _store_value(pos, ("D", "d"))
            vpos, _ = _store_value(pos, ("V", "v"))
            incs = {}
            for b, idx, val, st in add.stores:
                if idx.replace(" ", "") in (":,i", "(:,i)"):
                    incs[b] = (val, st)
            cur = {"D": F.sym("D"), "d": F.sym("d"), "V": F.sym("V"), "v": F.sym("v"), "drf": F.sym("drf"), "Force": F.sym("Force")}
            for names, posval, label in ((("D", "d"), dpos, "displacement"), (("V", "v"), vpos, "velocity")):
                nm = [n for n in names if n in incs]
                lin = need(posval).diff("f1") * F1 if (posval is not None and not is_unknown(posval)) else None
                if cfg["order"] == 0:
                    ok = not nm
                    ctx.check(ok, f"{tag}: with zero-order hold an add-on force leaves the current {label} untouched (it acts from the next step on)", lp)
                    continue
                if not nm or lin is None:
                    ctx.fail(f"{tag}: add-on updates the current {label}", lp, sorted(incs))
                    continue
                val, st = incs[nm[0]]
                if is_unknown(val):
                    ctx.error(f"{tag}: add-on {label}", st, repr(val))
                    continue
                inc = val - cur[nm[0]]
                ok = inc.equals(lin)
                ctx.check(ok, f"{tag}: the add-on {label} increment is the f1-linear part of the positive-send update", st,
                          None if ok else {"increment": repr(inc), "d(update)/d f1 * F1": repr(lin)})
            # Force += F1 ; rf
            if "Force" in incs and not is_unknown(incs["Force"][0]):
                ok = (incs["Force"][0] - cur["Force"]).equals(F1)
                ctx.check(ok, f"{tag}: an add-on accumulates into the stored force (`Force[:, i] += F1`)", incs["Force"][1])
            else:
                ctx.fail(f"{tag}: an add-on accumulates into the stored force", lp)
            if cfg.get("rf"):
                ok = "drf" in incs and not is_unknown(incs["drf"][0]) and (incs["drf"][0] - cur["drf"]).equals(IKRF * F1RF)
                ctx.check(ok, f"{tag}: the add-on rf displacement increment is K_rf^-1 F1[rf]", incs.get("drf", (None, lp))[1])
            other = set(incs) - {"D", "d", "V", "v", "drf", "Force"}
            ctx.check(not other, f"{tag}: an add-on touches nothing else", lp, sorted(other), nontrivial=False)
            if pre and cfg["order"] == 1:
                dn_pos = pos.env.get("dmpfrc1")
                dn_add = add.env.get("dmpfrc1")
                ok = dn_pos is not None and dn_add is not None and not is_unknown(dn_pos) and not is_unknown(dn_add) and \
                    (dn_add - F.sym("dmp_prev")).equals(need(dn_pos).diff("f1") * F1)
                ctx.check(ok, f"{tag}: the cached damping force receives the f1-linear part as well", lp,
                          None if ok else {"add-on": repr(dn_add), "positive": repr(dn_pos)})


def r4_get_f2x(ctx):
    """flexibility returned by get_f2x uses the same coefficient as the add-on increment"""
    fn = ctx.src.func(UNC, "SolveUnc._get_f2x_real_unc")
    phik = F.sym("phik")
    gen = {False: ctx.src.func(UNC, "SolveUnc._solve_real_unc_generator"), True: ctx.src.func(UNC, "SolveUnc._solve_real_unc_generator_cdforces")}
    for cdf in (False, True):
        # coefficient of f1 in the positive-send update (order 1, no rf)
        g = gen[cdf]
        lp = [x for x in _generator_loops(g) if _loop_config(x[1])["order"] == 1 and _loop_config(x[1])["rf"] is False and _loop_config(x[1])["k"]]
        if not lp:
            raise AnchorError("generator loop (order 1, no rf)")
        lp, doms = lp[0]
        pos = _eval_arm(ctx, g, lp, _loop_config(doms), "pos", {"dmpfrc1": BO * V0} if cdf else None, {"i_last==i-1": False})
        dpos, _ = _store_value(pos, ("D", "d"))
        vpos, _ = _store_value(pos, ("V", "v"))
        for velo in (False, True):
            def cond(test, ev, velo=velo, cdf=cdf):
                t = utext(test)
                return {"self.ksize": True, "velo": velo, "self.cdforces": cdf}.get(t)

            def call(node, ev):
                d = dotted(node.func) or ""
                if d == "np.eye":
                    return F.const(1)
                if d == "self._add_rf_flex":
                    return ev.ev(node.args[0])
                return NotImplemented

            def sub(node, ev):
                t = utext(node)
                if t == "phi[:,kdof]":
                    return phik
                return NotImplemented

            ev = Evaluator(env=_mk_env(), cond=cond, src=ctx.src, call=call, subscript=sub)
            ev.run(fn.body)
            flex = ev.env.get("flex")
            upd = vpos if velo else dpos
            tag = f"_get_f2x_real_unc ({'velocity' if velo else 'displacement'}, {'damping as force' if cdf else 'diagonal damping'})"
            if flex is None or is_unknown(flex) or upd is None or is_unknown(upd):
                ctx.error(tag, fn, f"{flex} {upd}")
                continue
            want = phik * need(upd).diff("f1") * phik
            ok = flex.equals(want)
            ctx.check(ok, f"{tag}: flexibility = phi_k (d update / d f1) phi_k^T, the change a unit add-on force produces in the current step", fn,
                      None if ok else {"get_f2x": repr(flex), "from the generator": repr(want)})
    top = ctx.src.func(UNC, "SolveUnc.get_f2x")
    t = utext(top)
    ok = "ifself.order==0:flex=0.0" in t.replace("\n", "")
    ctx.check(ok, "get_f2x: zero for zero-order hold (an add-on does not change the current step)", top)
    # SolveExp2.get_f2x halves
    fn = ctx.src.func(SE2, "SolveExp2.get_f2x")
    t = utext(fn)
    ok = "n=self.nonrfsz" in t and "ifvelo:flex=phik@Q[:n]@phik.Telse:flex=phik@Q[n:]@phik.T" in t.replace("\n", "") and "ifself.order==1:" in t
    ctx.check(ok, "SolveExp2.get_f2x: velocity uses the v half Q[:n], displacement the d half Q[n:] (same halves as the add-on arm), only for order 1", fn)
    ok = "Q=Q*invm" in t and "Q=la.lu_solve(self.invm,Q.T,trans=1,check_finite=False).T" in t
    ctx.check(ok, "SolveExp2.get_f2x: Q is post-multiplied by M^-1 exactly as in the generator", fn)
    rf = ctx.src.func(BASE, "_BaseODE._add_rf_flex")
    t = utext(rf)
    ok = "ifnotveloandself.rfsize:" in t and "flexrf=ikrf.ravel()[:,None]*phirf.T" in t and "flex=flex+phirf@flexrf" in t
    ctx.check(ok, "_add_rf_flex: the rf part contributes phi_rf K_rf^-1 phi_rf^T to displacement only", rf)


def r5_typestate(ctx):
    for rel, q in ((UNC, "SolveUnc.generator"), (SE2, "SolveExp2.generator")):
        fn = ctx.src.func(rel, q)
        body = fn.body
        t = [utext(s) for s in body]
        refuse = [i for i, s in enumerate(body) if isinstance(s, ast.If) and "notself.slices" in ast.unparse(s.test).replace(" ", "")
                  and any(isinstance(x, ast.Raise) for x in s.body)]
        alloc = [i for i, x in enumerate(t) if "self._init_dva_part(" in x]
        pub = [i for i, x in enumerate(t) if x.startswith("self._d,self._v,self._a,self._force=")]
        nxt = [s.lineno for s in ast.walk(fn) if isinstance(s, ast.Call) and dotted(s.func) == "next"]
        ok = bool(refuse) and bool(alloc) and bool(pub) and refuse[0] < alloc[0] < pub[0] and all(body[pub[0]].lineno < n for n in nxt) and nxt
        ctx.check(ok, f"{q}: interleaved partitions are refused before anything is allocated; _d, _v, _a, _force are published before the generator is primed", fn)
        ok = t[pub[0]] == "self._d,self._v,self._a,self._force=(d,v,a,force)" or t[pub[0]] == "self._d,self._v,self._a,self._force=d,v,a,force" if pub else False
        ctx.check(ok, f"{q}: the published arrays are the ones the generator updates and the caller receives", fn)
        rets = [ast.unparse(r.value).replace(" ", "") for r in ast.walk(fn) if isinstance(r, ast.Return)]
        ok = bool(rets) and all(r == "(generator,d,v)" for r in rets)
        ctx.check(ok, f"{q}: returns (generator, d, v)", fn)
    fin = ctx.src.func(BASE, "_BaseODE.finalize")
    t = [utext(s) for s in fin.body if not (isinstance(s, ast.Expr) and isinstance(s.value, ast.Constant))]
    ok = t[:4] == ["d,v,a,f=(self._d,self._v,self._a,self._force)", "delself._d,self._v,self._a,self._force", "self._calc_acce_kdof(d,v,a,f)",
                   "sol=self._solution(d,v,a)"]
    ctx.check(ok, "finalize: takes the published arrays, forgets them, recovers acceleration from equilibrium with the force finally in effect, builds the solution", fin, t[:4])
    # _force is read only by finalize and the generator functions
    readers = []
    for rel in (BASE, UNC, SE2, O.NM, O.FD):
        m = ctx.src.mod(rel)
        for qq, f2 in m.funcs.items():
            for n in walk_no_nested(f2):
                if isinstance(n, ast.Attribute) and n.attr == "_force" and isinstance(n.ctx, ast.Load):
                    readers.append(qq)
    ok = set(readers) <= {"_BaseODE.finalize", "SolveUnc._solve_real_unc_generator", "SolveUnc._solve_real_unc_generator_cdforces",
                          "SolveUnc._solve_complex_unc_generator", "SolveExp2._solve_se2_generator"}
    ctx.check(ok, "the stored force history `_force` is read only by the generator bodies and finalize", BASE + ":1", sorted(set(readers)))
    part = ctx.src.func(BASE, "_BaseODE._init_dva_part")
    t = utext(part)
    ok = "f=np.copy(a)" in t and "f[:,0]=F0" in t and "returnd,v,a,f" in t.replace("(", "").replace(")", "")
    ctx.check(ok, "_init_dva_part: the force history starts as zeros with column 0 = F0", part)


def r6_typing(ctx):
    U, E, X = O.mode_U(), O.mode_E(), O.exp2_attrs()
    plan = [
        (UNC, "SolveUnc._solve_real_unc_generator", U, "mode U", O.COND_U), (UNC, "SolveUnc._solve_real_unc_generator_cdforces", U, "mode U", O.COND_U),
        (UNC, "SolveUnc._solve_complex_unc_generator", E, "mode E", None), (SE2, "SolveExp2._solve_se2_generator", X, "SolveExp2", None),
        (UNC, "SolveUnc._get_f2x_real_unc", U, "mode U", O.COND_U), (UNC, "SolveUnc._get_f2x_complex_unc", E, "mode E", None),
        (SE2, "SolveExp2.get_f2x", X, "SolveExp2", None), (BASE, "_BaseODE._add_rf_flex", U, "mode U", None),
        (BASE, "_BaseODE._init_dva_part", U, "mode U", None),
    ]
    for rel, q, attrs, label, cond in plan:
        O.type_function(ctx, rel, q, attrs, label, rule="C08-R6", cond=cond)


RULES = [
    ("C08-R1", r1_carried_state, 30),
    ("C08-R2", r2_step_equals_batch, 40),
    ("C08-R2c", r2c_complex_path, 80),
    ("C08-R3", r3_addon_linear_part, 24),
    ("C08-R3c", r3c_complex_addon, 80),
    ("C08-R4", r4_get_f2x, 8),
    ("C08-R5", r5_typestate, 9),
    ("C08-R6", r6_typing, 40),
]
LEVEL = "other"
EXPLANATION = ("Static: per generator loop (16 loops in 4 generator functions) the state carried from one send to the next is exactly the step index "
               "(plus the guarded damping-force cache), the positive-send update is the batch step as an exact symbolic identity in (column i-1, "
               "Force[:, i-1], sent force), an add-on send adds exactly the f1-linear part, get_f2x uses that same coefficient; typestate of "
               "generator()/finalize(); partition typing of the generator bodies.")
MANIFEST = {
    "text": "Partial claim decided statically: (R1) loop-carried locals are exactly {i} (+ {dmpfrc1, i_last} for damping-as-force, every use of the cached force "
            "guarded by i_last == i - 1 with a recompute arm); (R2) positive send == batch step for the uncoupled, damping-as-force and SolveExp2 generators in "
            "every order/rf branch; (R3) add-on increment == d(update)/d f1 * F1 and touches nothing else; (R4) get_f2x == phi (d update/d f1) phi^T; "
            "(R5) publish-before-prime / finalize typestate; (R6) index-space typing. By induction over sends these give the batch solution for every "
            "finite history in the documented domain. (R2c/R3c) the same for the complex-eigenvalue generator against SolveUnc._solve_complex_unc in "
            "12 configurations (order x mass None/diagonal/full x real/complex system): positive send == batch step on the rb, elastic and rf partitions, "
            "zero-order arm == first-order arm with the force held, add-on == f1-linear part, _get_f2x_complex_unc == that same coefficient. "
            "Not decided: bit-equality of differently associated sums, add-on before any positive send.",
    "note": "Trusted: CPython ast; verifier/e2_formula.py with matrix products abstracted to commutative products (detects a wrong coefficient or term, "
            "not a wrong multiplication order); lemma used: the cached damping force, when its guard holds, equals bo @ V[:, i-1].",
    "technique": "static liveness (loop-carried state) + symbolic step formulas compared with the batch loop body + differentiation for the add-on part",
}
