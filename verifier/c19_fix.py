"""C19-R5 -- dsp.fixtime: exactly uniform time base, every output sample the nearest (or previous) input sample.

Three mechanisms, all static (nothing of pyyeti is imported or run; the functions are evaluated by the C19 value engine):

  * fixtime is evaluated on symbols once per *path* through the tests the rule knows nothing about (turning-point alignment, return form ...;
    helpers that neither build the time base nor receive it stay opaque calls).  On every path the returned (time, data) pair is read by value:
    time = arange(L) / sr + told[0] + scalars, data = X[index];
  * the index expression is a closed form over np.searchsorted(a, v); it is decided *element by element on a finite family of worlds* (sorted
    arrays of 2-4 break points, query times at / between / midway between / outside them - all order types of one query against its two
    neighbours incl. ties) against the definition "nearest sample, the earlier one on a tie" / "last sample before";
  * a selection that does not come from the search (identity, arange, slice) must be established by a test that compares old and new times
    element by element: lengths and turning-point counts do not establish it (typestate-style "not established");
  * every further definition of the search functions (the numba twins) is executed by the engine on the same worlds (constant ranges
    unrolled, break / for-else followed, while loops run while their test is decided, helpers of the module followed) and must select the
    same samples - exact coincidences of a new time with an old one included (F18).  World restriction kept: the first query lies before the
    last old time (strictly, for the previous-sample search); the loop variants answer "sample 0 for every query" otherwise (see the pass-3 report).
"""
from __future__ import annotations

import ast
import bisect
from fractions import Fraction as Q

from . import e2_formula as F
from .core import Unsupported
from .e2_eval import is_unknown
from . import c19_sem as S
from .c19_sem import Run, PyTuple, eq, un, israt, const_of, int_of, find_atoms, top_atoms, is_sym, unslice, ix_parts

DSP = "pyyeti/dsp.py"


def _short(v, n=300):
    s = repr(v)
    return s if len(s) <= n else s[:n] + "..."


# ------------------------------------------------------------------------------------------------------------------ which helpers are followed

def _reaching(mod, words=("searchsorted", "arange")):
    """names of the module's functions that (transitively) use np.searchsorted / np.arange: the ones that build the time base or search it"""
    direct, callees = set(), {}
    for q, f in mod.funcs.items():
        if "." in q:
            continue
        name = q.split("#")[0]
        cs = callees.setdefault(name, set())
        for n in ast.walk(f):
            if isinstance(n, ast.Attribute) and n.attr in words:
                direct.add(name)
            elif isinstance(n, ast.Name):
                cs.add(n.id)
    out = set(direct)
    changed = True
    while changed:
        changed = False
        for name, cs in callees.items():
            if name not in out and cs & out:
                out.add(name)
                changed = True
    return out


def _is_timebase(v):
    """an affine image of np.arange(...) (arange(L) / sr + t0), as opposed to a bare arange used as an index vector"""
    if not israt(v):
        return False
    if find_atoms(v, lambda n, a: n == "call:np.searchsorted"):
        return True          # (an index that came out of the search is followed as well)
    for m in v.n.t:
        for a, _e in m:
            d = F.atom_desc(a)
            if d[0] == "fn" and d[1] == "call:np.arange" and (len(m) > 1 or not v.d.is_const() or len(v.n.t) > 1):
                return True
    return False


# ------------------------------------------------------------------------------------------------------------------ paths

class Path:
    def __init__(self, R, decisions):
        self.R, self.decisions = R, decisions          # decisions: [(leaf value, truth)] in the order asked


def enumerate_paths(make, limit=400):
    """evaluate once per combination of truth values of the tests nothing decides (depth first; a leaf met twice gets one answer)"""
    out = []
    todo = [()]
    runs = 0
    while todo:
        prefix = todo.pop()
        forced = dict(prefix)
        asked, vals = [], {}

        def oracle(v, ev):
            k = S.fkey(v)
            if k not in vals:
                vals[k] = (v, forced.get(k, True))
                asked.append(k)
            return vals[k][1]
        R = make(oracle)
        runs += 1
        if runs > limit:
            raise Unsupported(f"more than {limit} paths through the tests of fixtime")
        for i, k in enumerate(asked):
            if k not in forced:
                todo.append(tuple((x, vals[x][1]) for x in asked[:i]) + ((k, False),))
        out.append(Path(R, [vals[k] for k in asked]))
    return out


# ------------------------------------------------------------------------------------------------------------------ finite worlds

class OutOfRange(Exception):
    pass


def worlds():
    """(sorted array, query times): every query lies below / on / between / midway between / above the break points"""
    out = []
    for A in ((0, 2, 6), (0, 1), (1, 4, 5, 9)):
        A = tuple(Q(x) for x in A)
        ts = {A[0] - 1, A[0] - Q(1, 4), A[-1] + Q(1, 4), A[-1] + 3}
        for a, b in zip(A, A[1:]):
            ts |= {a, b, (a + b) / 2, a + (b - a) / 4, b - (b - a) / 4}
        out.append((A, sorted(ts)))
    return out


def nearest(A, t):
    best = 0
    for i, a in enumerate(A):
        if abs(a - t) < abs(A[best] - t):          # strict: the earlier sample wins a tie
            best = i
    return best


def previous(A, t):
    i = bisect.bisect_right(A, t) - 1          # last sample at or before t: "a new time value is considered equal to an old time value if it is within
    return max(i, 0)                            # previous_value_tol * dt of it" - also for a tolerance of 0 (finding F18: the numpy variant took the sample before)


class Conc:
    """element-by-element value of a closed-form index expression on one world"""

    def __init__(self, bind):
        self.bind = bind          # symbol name -> concrete value (tuple of Fractions | Fraction)

    def val(self, v):
        if isinstance(v, str):
            raise Unsupported(f"string argument {v}")
        den = self._poly(v.d)
        if isinstance(den, bool) or not isinstance(den, Q) or den == 0:
            raise Unsupported("denominator")
        num = self._poly(v.n)
        if isinstance(num, Q) and not isinstance(num, bool):
            return num / den
        if den == 1:
            return num
        raise Unsupported("division of a non-number")

    def _poly(self, p_):
        terms = list(p_.t.items())
        if len(terms) == 1 and terms[0][1] == 1 and len(terms[0][0]) == 1 and terms[0][0][0][1] == 1:
            return self._atom(terms[0][0][0][0])          # a bare atom: may be a bool / tuple / None
        tot = Q(0)
        for m, c in terms:
            x = Q(c)
            for a, e in m:
                y = self._atom(a)
                if isinstance(y, bool):
                    y = Q(int(y))          # True == 1
                if not isinstance(y, Q):
                    raise Unsupported("arithmetic on a non-number")
                x *= y ** e
            tot += x
        return tot

    def _atom(self, a):
        d = F.atom_desc(a)
        if d[0] == "s" and d[1] in self.bind:
            return self.bind[d[1]]
        if d[0] == "s":
            if d[1] in ("True", "False"):
                return d[1] == "True"
            if d[1] == "None":
                return None
            raise Unsupported(f"free symbol {d[1]}")
        if d[0] != "fn":
            raise Unsupported(f"atom {d[0]}")
        nm = d[1]
        args = [x if isinstance(x, str) else F.Rat(F._poly_from_key(x[1]), F._poly_from_key(x[2])) for x in d[2]]
        if nm in ("lt0", "le0", "eq0"):
            x = self.num(args[0])
            return x < 0 if nm == "lt0" else x <= 0 if nm == "le0" else x == 0
        if nm == "not":
            return not self.boolean(args[0])
        if nm == "and":
            return all(self.boolean(x) for x in args)
        if nm == "or":
            return any(self.boolean(x) for x in args)
        if nm == "ite":
            return self.val(args[1]) if self.boolean(args[0]) else self.val(args[2])
        if nm == "abs":
            return abs(self.num(args[0]))
        if nm in ("max", "min"):
            xs = [self.num(x) for x in args]
            return max(xs) if nm == "max" else min(xs)
        if nm == "floor":
            x = self.num(args[0])
            return Q(x.numerator // x.denominator)
        if nm == "int":
            x = self.num(args[0])
            return Q(int(x))
        if nm == "len":
            x = self.val(args[0])
            if isinstance(x, tuple):
                return Q(len(x))
            raise Unsupported("len of a non-array")
        if nm == "call:np.searchsorted":
            pos, kw = S.call_args(args)
            side = kw.get("side", pos[2] if len(pos) > 2 else None)
            if len(pos) < 2 or set(kw) - {"side"}:
                raise Unsupported("searchsorted arguments")
            arr, x = self.val(pos[0]), self.val(pos[1])
            if not isinstance(arr, tuple) or not isinstance(x, Q):
                raise Unsupported("searchsorted(sorted array, value)")
            right = side is not None and is_sym(side, "'right'")
            if side is not None and not right and not is_sym(side, "'left'"):
                raise Unsupported("searchsorted side")
            return Q((bisect.bisect_right if right else bisect.bisect_left)(arr, x))
        if nm == "idx":
            base, ix = self.val(args[0]), self.val(args[1])
            if isinstance(ix, bool):
                if isinstance(base, tuple):
                    raise Unsupported("mask on an array")
                return base          # element by element: a masked selection of the element is the element
            if isinstance(base, tuple) and isinstance(ix, Q) and ix.denominator == 1:
                i = int(ix)
                if not -len(base) <= i < len(base):
                    raise OutOfRange(f"index {i} into an array of {len(base)} samples")
                return base[i]
            raise Unsupported("subscript")
        if nm == "store":
            old, ix = self.val(args[0]), self.val(args[1])
            if isinstance(ix, bool) and not isinstance(old, tuple):
                return self.val(args[2]) if ix else old          # element by element:  x[mask] = v
            raise Unsupported("store")
        raise Unsupported(f"{nm}")

    def num(self, v):
        x = self.val(v)
        if isinstance(x, bool):
            return Q(int(x))
        if not isinstance(x, Q):
            raise Unsupported("a number is needed")
        return x

    def boolean(self, v):
        x = self.val(v)
        if isinstance(x, bool):
            return x
        if isinstance(x, Q):
            return x != 0
        raise Unsupported("a truth value is needed")


_DECIDED = {}


def decide_index(E, a_v, v_v, want, also=()):
    """E element by element on every world  ->  (True, None) | (False, counterexample) | (None, why not evaluated).
    `also`: names of symbols that stand for the old time vector itself outside the search (with previous_value_tol = 0 it is the array searched)"""
    key = (S.fkey(E), S.fkey(a_v), S.fkey(v_v), want.__name__, tuple(also))
    if key not in _DECIDED:
        _DECIDED[key] = _decide_index(E, a_v, v_v, want, also)
    return _DECIDED[key]


def _decide_index(E, a_v, v_v, want, also=()):
    sa, sv = S._strsym(a_v), S._strsym(v_v)
    if not sa or not sv:
        return None, "the arrays searched are not atoms of the index expression"
    for A, ts in worlds():
        for t in ts:
            try:
                got = Conc(dict({k: A for k in also}, **{sa: A, sv: t})).val(E)
            except OutOfRange as e:
                return False, {"old times": [str(x) for x in A], "new time": str(t), "selected": str(e)}
            except Unsupported as e:
                return None, str(e)
            if isinstance(got, bool) or not isinstance(got, Q) or got.denominator != 1:
                return None, f"not an index: {got!r}"
            exp = want(A, t)
            if int(got) % len(A) != exp:
                return False, {"old times": [str(x) for x in A], "new time": str(t), "selected sample": int(got), "nearest sample" if want is nearest else "previous sample": exp}
    return True, None


def run_concrete(ctx, fn, args):
    """execute one definition on concrete arguments (PyTuples of constants) with the engine"""
    def hook(node, ev):
        d = S.dotted(node.func) or ""
        if d.rsplit(".", 1)[-1] == "searchsorted" and len(node.args) >= 2 and not node.keywords:
            a, x = ev.ev(node.args[0]), ev.ev(node.args[1])
            if isinstance(a, tuple) and all(const_of(y) is not None for y in a):
                arr = [const_of(y) for y in a]
                if isinstance(x, tuple) and all(const_of(y) is not None for y in x):
                    return PyTuple(F.const(bisect.bisect_left(arr, const_of(y))) for y in x)
                if const_of(x) is not None:
                    return F.const(bisect.bisect_left(arr, const_of(x)))
        return NotImplemented
    R = Run(ctx, fn, DSP, pins=dict(args), call=hook, run=False)
    R.sh.concrete = True
    R.ev.run(fn.body)
    return R.ret()


# ------------------------------------------------------------------------------------------------------------------ the rule

def _ret_pair(v):
    """the value fixtime returns (getall False)  ->  (time, data) | None"""
    if isinstance(v, tuple) and len(v) == 2:
        return v[0], v[1]
    tr = un(v, "call:np.transpose") if israt(v) else None
    if tr is not None and len(tr) == 1:
        c = un(tr[0], "cat")
        if c is not None and len(c) == 3:
            return c[1], c[2]
    return None


INT_ARRAYS = ("call:np.nonzero", "call:np.flatnonzero", "call:np.argsort", "call:np.searchsorted", "call:np.arange", "call:np.argwhere", "call:np.where")


def _integral(e, sh):
    """e is integer-valued by construction: an integer combination of lengths, insertion points, positions of extrema, elements of index arrays and values the
    code itself uses as slice bounds - a test on it compares counts / positions, not times"""
    if not israt(e) or not e.d.is_const():
        return False
    for a in e.n.atoms():
        d = F.atom_desc(a)
        av = F.Rat(F.Poly.atom(a))
        if S.fkey(av) in sh.scalar_uses:
            continue
        if d[0] != "fn":
            return False
        nm = d[1]
        if nm in ("len", "floor", "int", "attr:size", "attr:ndim", "call:np.searchsorted", "call:np.argmax", "call:np.argmin", "call:np.count_nonzero", "call:round"):
            continue
        if nm == "idx":
            base = F.Rat(F._poly_from_key(d[2][0][1]), F._poly_from_key(d[2][0][2]))
            while True:
                u = S.unfn(base)
                if u is not None and u[0] == "idx":
                    base = u[1][0]
                    continue
                break
            if u is not None and (u[0] in INT_ARRAYS or u[0] == "attr:shape"):
                continue
        return False
    return True


def _mentions(v, target, opaque=None, skip=("len", "attr:size", "attr:shape")):
    """does value v contain `target` other than inside a length / shape?  (`opaque`: label of a helper call not followed -> its arguments)"""
    if not israt(v):
        return False
    key = S.fkey(target)
    if S.fkey(v) == key:
        return True
    for p_ in (v.n, v.d):
        for a in p_.atoms():
            d = F.atom_desc(a)
            if d[0] == "s" and opaque and d[1].split(".")[0] in opaque and any(_mentions(x, target, None, skip) for x in opaque[d[1].split(".")[0]]):
                return True
    for av, nm, args in top_atoms(v):
        if S.fkey(av) == key:
            return True
        if nm in skip:
            continue
        for x in args:
            if not isinstance(x, str) and _mentions(x, target, opaque, skip):
                return True
    return False


def r5_fixtime(ctx):
    fn = ctx.src.func(DSP, "fixtime")
    mod = ctx.src.mod(DSP)
    reach = _reaching(mod)
    dup = {q.split("#")[0] for q in mod.funcs if "#" in q}

    ret_names = {S.dotted(n.value.func) for n in ast.walk(fn) if isinstance(n, ast.Return) and isinstance(n.value, ast.Call)}          # what builds the returned value is followed

    def policy(f, pos, kw, ev):
        return ev.depth >= 1 or f.name in reach or f.name in ret_names or any(_is_timebase(x) for x in list(pos) + list(kw.values()))

    opaque = {}          # label of a helper call that is not followed -> its argument values

    def hook(node, ev, force=False):
        """a helper of the module that neither builds / searches the time base nor receives it: one short symbol per call site"""
        name = S.dotted(node.func)
        if name is None or "." in name or ev.lookup(name) is not None or name not in ev.sh.inline or name in reach or name in ev.local_funcs:
            return NotImplemented
        if (ev.depth >= 1 or name in ret_names) and not force:
            return NotImplemented          # inside a helper that is followed, its own helpers are followed too (named only if that fails)
        vals = [ev.ev(a.value if isinstance(a, ast.Starred) else a) for a in node.args] + [ev.ev(k.value) for k in node.keywords]
        if any(_is_timebase(x) for x in vals) and not force:
            return NotImplemented
        label = f"@{name}:{node.lineno}"
        opaque[label] = [x for x in vals if israt(x)]
        return F.sym(label)

    def search_hook(node, ev):
        """np.searchsorted(a, v) with v a whole time base: from here on the two arrays are atoms (@A, @V) in the frame that makes the search, so that
        the index is a closed form over them whatever arithmetic follows"""
        r = hook(node, ev)
        if r is not NotImplemented:
            return r
        d = S.dotted(node.func) or ""
        if d.rsplit(".", 1)[-1] != "searchsorted" or d.split(".")[0] not in ("np", "numpy") or len(node.args) < 2:
            return NotImplemented
        a, v = ev.ev(node.args[0]), ev.ev(node.args[1])
        if not israt(a) or not israt(v) or not _is_timebase(v) or _is_timebase(a):
            return NotImplemented
        tab = ev.sh.notes
        n = sum(1 for x in tab if isinstance(x, tuple) and x[0] == "search")
        A, V_ = F.sym(f"@A{n}"), F.sym(f"@V{n}")
        params = [x.arg for x in ev.fn.args.posonlyargs + ev.fn.args.args + ev.fn.args.kwonlyargs] if ev.fn is not None else []
        pa = next((k for k in params if israt(ev.env.get(k)) and eq(ev.env[k], a)), None)
        pv = next((k for k in params if israt(ev.env.get(k)) and eq(ev.env[k], v)), None)
        tab.append(("search", A, a, V_, v, (ev.fn.name, pa, pv) if ev.fn is not None else None))
        for k, x in list(ev.env.items()):
            if israt(x) and eq(x, v):
                ev.env[k] = V_
            elif israt(x) and eq(x, a):
                ev.env[k] = A
        pos = [A, V_] + [ev.ev(x) for x in node.args[2:]]
        kw = {k.arg: ev.ev(k.value) for k in node.keywords if k.arg}
        return ev.np_call("np.searchsorted", pos, kw, node)

    def regime(hold, base):
        pins = {"hold_previous_value": "True" if hold else "False", "getall": "False", "deldrops": "False", "delspikes": "False", "verbose": "False"}
        if not base:
            pins["base"] = "None"
        facts = ["previous_value_tol >= 0.0", "previous_value_tol <= 1.0"] + (["not:base is None"] if base else [])

        def make(oracle):
            R = Run(ctx, fn, DSP, pins=pins, facts=facts, oracle=oracle, call=search_hook, run=False)
            for nm_ in dup:
                defs = [f for q, f in mod.funcs.items() if q.split("#")[0] == nm_ and "." not in q]
                flat = [f for f in defs if not any(isinstance(x, (ast.For, ast.While)) for x in ast.walk(f))]
                if flat and nm_ in R.sh.inline:
                    R.sh.inline[nm_] = flat[0]          # of several definitions of a helper the vectorised one has a closed form; the others are executed on the worlds
            R.sh.inline_policy = policy
            R.sh.elementwise_where = True
            R.sh.on_unknown = lambda node, ev: hook(node, ev, True)
            R.ev.run(fn.body)
            return R
        return [p_ for p_ in enumerate_paths(make) if p_.R.ev.returns]

    tag = {(False, False): "fixtime", (False, True): "fixtime (base given)", (True, False): "fixtime (hold_previous_value)"}
    info = {}
    for hold, base in ((False, False), (False, True), (True, False)):
        try:
            paths = regime(hold, base)
        except Unsupported as e:
            ctx.error(f"{tag[hold, base]}: the paths through fixtime", fn, str(e))
            return
        rows = []
        for p_ in paths:
            pr = _ret_pair(p_.R.ret())
            if pr is None or any(x is None or is_unknown(x) or not israt(x) for x in pr):
                ctx.error(f"{tag[hold, base]}: the returned (time, data) pair", p_.R.ret_node(), _short(p_.R.ret()))
                return
            t_ret, d_ret = pr
            table = [x for x in p_.R.sh.notes if isinstance(x, tuple) and x[0] == "search"]
            back = {}
            for _s, A, a, V_, v, _f in table:
                back[S._strsym(A)], back[S._strsym(V_)] = a, v
            for _i in range(len(table) + 1):          # (an earlier search may sit inside the arrays of a later one)
                if not back or not _has_sym(t_ret, set(back)):
                    break
                t_ret = t_ret.subs(back)
            ix = un(d_ret, "idx")
            E = ix[1] if ix is not None else None
            ss = _outer_searches(E) if E is not None else []
            # an index that went through a function the engine did not follow (a callee held in a value, an unknown routine) is not a closed form over the search
            opq = sorted({nm if nm == "apply" else nm[5:] for _v, nm, _a in find_atoms(E, lambda n, a: n == "apply" or (n.startswith("call:") and n[5:] not in S.KNOWN_CALLS))}) if E is not None else []
            rows.append({"path": p_, "t": t_ret, "d": d_ret, "E": E, "X": ix[0] if ix is not None else None, "ss": ss if not opq else [], "table": table, "back": back, "opaque": opq})
        if not rows:
            ctx.error(f"{tag[hold, base]}: no path returns", fn)
            return
        info[hold, base] = rows

    # ---- the arrays by role: the sorted array and the times of the search that selects the data (regime: nearest, no base)
    def search_args(row):
        """the searches the index is made of  ->  [(sorted array, values searched for, the two as they occur in the index expression)]"""
        keys = {}
        for pos in row["ss"]:
            a, v = pos[0], pos[1]
            for _i in range(len(row["table"]) + 1):
                if not row["back"] or not (_has_sym(a, set(row["back"])) or _has_sym(v, set(row["back"]))):
                    break
                a, v = a.subs(row["back"]), v.subs(row["back"])
            keys[S.fkey(pos[0]), S.fkey(pos[1])] = (a, v, pos[0], pos[1])
        return list(keys.values())

    main = [r for r in info[False, False] if r["ss"]]
    told_v = None
    if main:
        sa = search_args(main[0])
        if len(sa) == 1:
            told_v = sa[0][0]

    # ---- (1) exactly uniform time base
    def timebase(row, told):
        """time = c * arange(Lv) + rest  ->  (sr = 1 / c, Lv, rest) | None"""
        t = row["t"]
        ar = [(av, args) for av, nm, args in top_atoms(t) if nm == "call:np.arange"]
        if len(ar) != 1:
            return None
        av, args = ar[0]
        pos, kw = S.call_args(args)
        if len(pos) != 1 or kw:
            return None
        try:
            rest = _without(t, av)
        except Unsupported:
            return None
        a_ = next(iter(av.n.atoms()))
        c = F.Rat(F.Poly({tuple(x for x in m if x[0] != a_): k for m, k in t.n.t.items() if any(x[0] == a_ for x in m)}), t.d)          # coefficient of the arange atom
        if any(nm == "call:np.arange" for _v, nm, _a in top_atoms(c) + top_atoms(rest)):
            return None
        return 1 / c, pos[0], rest

    def check_time(regime_key, label):
        rows = info[regime_key]
        bad, unk, where = [], [], rows[0]["path"].R.ret_node()
        for r in rows:
            if told_v is None:
                unk.append("the sorted array of the search is not identified")
                continue
            tb = timebase(r, told_v)
            if tb is None:
                if not find_atoms(r["t"], lambda n, a: n == "call:np.arange") and not _und(r["t"]):
                    if r["E"] is None or not r["ss"]:
                        continue          # a path that returns without building a time base: judged by the selection obligation below
                    (unk if S.unrecognised([r["t"]]) else bad).append({"returned time": _short(r["t"]), "consequence": "not built from np.arange: not a uniform time base"})
                else:
                    unk.append(_short(r["t"]))
                continue
            sr_v, Lv, rest = tb
            R = r["path"].R
            R.sh.rank_of.update({S.fkey(told_v): 1, S.fkey(sr_v): 0, S.fkey(1 / sr_v): 0, S.fkey(F.sym("base")): 0, S.fkey(F.sym("previous_value_tol")): 0})
            Lw = R.E("int(round((T[-1] - T[0]) * SR)) + 1", T=told_v, SR=sr_v)
            shift = rest - R.ev.mk_idx(told_v, F.const(0))
            rk = R.ev.rank(shift)
            if S.unrecognised([r["t"]]):
                unk.append({"time vector built with routines the checker does not know": S.unrecognised([r["t"]])[:4]})
            elif not eq(Lv, Lw):
                bad.append({"number of samples": _short(Lv), "expected": _short(Lw)})
            elif rk is None:
                unk.append({"shift": _short(shift)})
            elif rk != 0:
                bad.append({"added to arange(L) / sr + told[0]": _short(shift), "consequence": "a vector is added to the uniform time base: the steps are no longer all 1 / sr"})
            r["sr"], r["shift"] = sr_v, shift
        msg = (f"{label}: on every path the returned time vector is np.arange(L) / sr + told[0] plus scalar shifts only, L = int(round((told[-1] - told[0]) sr)) + 1 "
               "(exactly uniform, spanning the input)")
        if bad:
            ctx.fail(msg, where, bad[:3])
        elif unk:
            ctx.error(msg, where, unk[:3])
        else:
            ctx.ok(msg, where)

    check_time((False, False), "fixtime")

    # ---- (2) the search is made on the arrays of the time base; (3) it selects the nearest sample; (4) nothing bypasses it unestablished
    def check_select(regime_key, label, want, told_expected):
        rows = info[regime_key]
        where = rows[0]["path"].R.ret_node()
        bad2, unk2, bad3, unk3, bad4, unk4 = [], [], [], [], [], []
        for r in rows:
            R = r["path"].R
            if r["ss"]:
                sa = search_args(r)
                if len(sa) != 1:
                    unk2.append("several different searches feed the index")
                    continue
                a_v, v_v, a_s, v_s = sa[0]
                te = told_expected(R, r)
                if te is None:
                    unk2.append("the arrays of the time base are not identified")
                elif (not eq(a_v, te) or not eq(v_v, r["t"])) and S.unrecognised([a_v, v_v, r["t"]]):
                    unk2.append({"built with routines the checker does not know": S.unrecognised([a_v, v_v, r["t"]])[:4]})
                elif not eq(a_v, te) or not eq(v_v, r["t"]):
                    bad2.append({"sorted array searched": _short(a_v, 200), "expected": _short(te, 200), "times searched for": _short(v_v, 200), "time vector returned": _short(r["t"], 200)})
                ok, why = decide_index(r["E"], a_s, v_s, want, [x for x in [S._strsym(told_v)] if x])
                if ok is None:
                    unk3.append(why)
                elif not ok:
                    bad3.append(why)
                if r["X"] is not None and find_atoms(r["X"], lambda n, a: n == "call:np.searchsorted"):
                    unk3.append("the array indexed depends on the search")
                continue
            # no search on this path
            if r["opaque"]:
                unk4.append({"the index goes through routines that are not followed": r["opaque"][:4]})
                continue
            verdict, detail = judge_bypass(r)
            if verdict != "ok":
                (bad4 if verdict == "bad" else unk4).append(detail)
        m2 = f"{label}: the index comes from a search of the new time vector (as returned, before the base shift) in " + ("the old times" if want is nearest else "the old times moved back by dt * previous_value_tol")
        m3 = (f"{label}: element by element on every world of 2-4 old times (queries below / on / between / midway between / above them) the index selected is "
              + ("the nearest old sample, the earlier one on a tie" if want is nearest else "the last old sample before the new time (the first one when there is none)")
              + " - searchsorted argument order, clamp at the end, direction and tie rule of the one-step-earlier test, decrement by exactly 1")
        m4 = f"{label}: no path selects the data without the search unless a test on that path compares old and new times element by element (lengths and turning-point counts do not establish it)"
        for msg, bad, unk in ((m2, bad2, unk2), (m3, bad3, unk3), (m4, bad4, unk4)):
            if bad:
                ctx.fail(msg, where, bad[:3])
            elif unk:
                ctx.error(msg, where, unk[:3])
            else:
                ctx.ok(msg, where)

    def judge_bypass(r):
        """a path on which the data do not come out of the search"""
        E, sh = r["E"], r["path"].R.sh
        ident = E is None or un(E, "call:np.arange") is not None or unslice(E) is not None or is_sym(E, "Ellipsis")
        tn_ = r["t"]
        R_ = r["path"].R

        def is_new_times(x):
            """x is the new time vector at the time of the test: the one returned, or the one returned before the base shift"""
            if eq(x, tn_):
                return True
            tb = timebase({"t": x}, told_v) if told_v is not None and israt(x) else None
            if tb is None:
                return False
            return eq(tn_ - x, R_.E("base - t0 - round((base - t0) * SR) / SR", t0=R_.ev.mk_idx(x, F.const(0)), SR=tb[0]))
        may, counts = [], []
        equal = False
        for g, t in r["path"].decisions:
            u = S.unfn(g)
            if t and told_v is not None and u is not None:
                # the one test that does establish the identity selection: old and new times are equal element by element
                pair = None
                if u[0] == "call:np.array_equal" and len(u[1]) == 2:
                    pair = u[1]
                elif u[0] == "call:np.all" and len(u[1]) == 1 and un(u[1][0], "eq0") is not None:
                    d_ = un(u[1][0], "eq0")[0]
                    if is_new_times(told_v - d_) or is_new_times(told_v + d_):
                        equal = True
                if pair is not None and ((eq(pair[0], told_v) and is_new_times(pair[1])) or (eq(pair[1], told_v) and is_new_times(pair[0]))):
                    equal = True
            if u is not None and u[0] in ("lt0", "le0", "eq0") and _integral(u[1][0], sh):
                counts.append(_short(g, 100) + " is " + str(t))
            elif told_v is None or _mentions(g, told_v, opaque) or _mentions(g, tn_, opaque):
                may.append(_short(g, 160))
        if ident and equal and (E is None or (un(E, "call:np.arange") is not None and eq(un(E, "call:np.arange")[0], r["path"].R.E("len(T)", T=told_v)))):
            return "ok", None
        if ident and not may:
            return "bad", {"data returned": _short(r["d"], 200), "tests on this path (all on counts / positions)": counts[-6:],
                           "consequence": "the data are selected without the nearest-sample search; the tests made compare lengths / counts only, which does not make sample k of "
                                          "the input the nearest one to new time k (a clock that drifts within the turning-point tolerance accumulates more than half a step)"}
        return "unk", {"selection": _short(E), "tests on old / new times": may[-4:]}

    check_select((False, False), "fixtime", nearest, lambda R, r: told_v)

    # ---- (5) base: the time vector is moved by the documented scalar, the data selection is the one made before the move
    rows = info[False, True]
    where = rows[0]["path"].R.ret_node()
    bad, unk = [], []
    for r in rows:
        R = r["path"].R
        if told_v is None:
            unk.append("the old time vector is not identified")
            continue
        if not r["ss"]:
            if r["opaque"]:
                unk.append({"the index goes through routines that are not followed": r["opaque"][:4]})
                continue
            verdict, detail = judge_bypass(r)
            if verdict != "ok":
                (bad if verdict == "bad" else unk).append(detail)
            continue
        sa = search_args(r)
        if len(sa) != 1:
            unk.append("several searches")
            continue
        a_v, v_v, a_s, v_s = sa[0]
        tb = timebase(r, told_v)
        if tb is None:
            unk.append(_short(r["t"]))
            continue
        sr_v = tb[0]
        want_shift = R.E("base - t0 - round((base - t0) * SR) / SR", t0=R.ev.mk_idx(v_v, F.const(0)), SR=sr_v)
        if S.unrecognised([r["t"], v_v, a_v]):
            unk.append({"built with routines the checker does not know": S.unrecognised([r["t"], v_v, a_v])[:4]})
        elif not eq(r["t"] - v_v, want_shift):
            bad.append({"time returned - time searched": _short(r["t"] - v_v), "expected": _short(want_shift)})
        elif not eq(a_v, told_v):
            bad.append({"sorted array searched": _short(a_v)})
        else:
            ok, why = decide_index(r["E"], a_s, v_s, nearest, [x for x in [S._strsym(told_v)] if x])
            if ok is None:
                unk.append(why)
            elif not ok:
                bad.append(why)
    msg = ("fixtime (base given): the returned time vector is the searched one moved by base - t0 - round((base - t0) sr) / sr (a scalar below one step: the grid hits `base`), "
           "the data being the nearest samples of the unmoved vector")
    if bad:
        ctx.fail(msg, where, bad[:3])
    elif unk:
        ctx.error(msg, where, unk[:3])
    else:
        ctx.ok(msg, where)

    # ---- (6) hold_previous_value
    def told_early(R, r):
        tb = timebase(r, told_v) if told_v is not None else None
        if tb is None:
            return None
        return told_v - (1 / tb[0]) * F.sym("previous_value_tol")
    check_time((True, False), "fixtime (hold_previous_value)")
    check_select((True, False), "fixtime (hold_previous_value)", previous, told_early)

    # ---- (7) the other definitions of the search functions (numba twins) select the same samples
    twins = []
    for key, want in (((False, False), nearest), ((True, False), previous)):
        names = set()
        for r in info[key]:
            used = {S._strsym(x) for pos in r["ss"] for x in pos[:2]}
            for _s, A, a, V_, v, where_ in r["table"]:
                if where_ is not None and where_[0] in dup and S._strsym(A) in used and where_[1] and where_[2]:
                    names.add(where_)          # the function that makes the search the index comes from has several definitions
        for nm, pa, pv in sorted(names):
            for q, f in mod.funcs.items():
                if q.split("#")[0] == nm and "." not in q:
                    twins.append((q, f, want, pa, pv))
    for q, f, want, pa, pv in twins:
        ctx.src.funcs_consulted.add(f"{DSP}:{q}")
        bad = unk = None
        for A, ts0, k0 in [(A, ts, k) for A, ts in worlds() for k in range(len(ts))]:
            # (every suffix of the query list: loop code treats the first query separately; the searches assume the first query is not beyond the last old time)
            ts = list(ts0[k0:])          # (exact coincidences included: a new time that equals an old one selects that sample)
            if not ts or ts[0] > A[-1] or (want is previous and ts[0] == A[-1]):
                continue          # (the loop variants return sample 0 for every query when no old time lies after [at or after] the first query: outside what fixtime asks)
            tup = lambda xs: PyTuple(F.const(x) for x in xs)      # noqa
            params = [x.arg for x in f.args.posonlyargs + f.args.args]
            if pa not in params or pv not in params:
                unk = f"the parameters {pa}, {pv} of the definition followed are not parameters of this one"
                break
            got = run_concrete(ctx, f, {pa: tup(A), pv: tup(ts)})
            if is_unknown(got) and "index out of range" in str(getattr(got, "why", "")):
                bad = {"old times": [str(x) for x in A], "new times": [str(x) for x in ts], "selected": "an element outside the arrays is read or written"}
                break
            if isinstance(got, tuple) and len(got) == len(ts) and all(int_of(x) is not None for x in got):
                res = [int_of(x) for x in got]
            else:
                # vectorised numpy code: the closed form, element by element
                R = Run(ctx, f, DSP)
                E = R.ret()
                if E is None or is_unknown(E) or not israt(E):
                    unk = _short(got)
                    break
                res = []
                for t in ts:
                    try:
                        g = Conc({pa: A, pv: t}).val(E)
                    except OutOfRange as e:
                        bad = {"old times": [str(x) for x in A], "new time": str(t), "selected": str(e)}
                        break
                    except Unsupported as e:
                        unk = str(e)
                        break
                    if isinstance(g, bool) or not isinstance(g, Q) or g.denominator != 1:
                        unk = f"not an index: {g!r}"
                        break
                    res.append(int(g))
                if bad or unk:
                    break
            for t, g in zip(ts, res):
                if g % len(A) != want(A, t):
                    bad = {"old times": [str(x) for x in A], "new time": str(t), "selected sample": g, "nearest sample" if want is nearest else "previous sample": want(A, t)}
                    break
            if bad:
                break
        msg = (f"fixtime: definition `{q}` of the search selects, on every world, " + ("the nearest old sample (the earlier one on a tie)" if want is nearest else "the last old sample before the new time")
               + " - all definitions of one interface (numpy / numba) agree")
        if bad:
            ctx.fail(msg, f, bad)
        elif unk:
            ctx.error(msg, f, unk)
        else:
            ctx.ok(msg, f)


def _outer_searches(E):
    """positional arguments of the np.searchsorted applications in E that do not sit inside the arguments of another one"""
    out, seen = [], set()

    def walk(v):
        if not israt(v):
            return
        for av, nm, args in top_atoms(v):
            if S.fkey(av) in seen:
                continue
            seen.add(S.fkey(av))
            if nm == "call:np.searchsorted":
                pos, kw = S.call_args(args)
                if len(pos) >= 2:
                    out.append(pos)
                continue
            for x in args:
                if not isinstance(x, str):
                    walk(x)
        for p_ in (v.n, v.d):
            for a in p_.atoms():
                d = F.atom_desc(a)
                if d[0] in ("exp", "sin", "cos", "sqrt"):
                    walk(F.Rat(F._poly_from_key(d[1])))
    walk(E)
    return out


def _has_sym(v, names, _seen=None):
    """does a symbol of `names` occur anywhere in value v?"""
    if not israt(v):
        return False
    seen = _seen if _seen is not None else set()
    for p_ in (v.n, v.d):
        for a in p_.atoms():
            if a in seen:
                continue
            seen.add(a)
            d = F.atom_desc(a)
            if d[0] == "s":
                if d[1] in names:
                    return True
            elif d[0] == "fn":
                for k in d[2]:
                    if not isinstance(k, str) and _has_sym(F.Rat(F._poly_from_key(k[1]), F._poly_from_key(k[2])), names, seen):
                        return True
            elif _has_sym(F.Rat(F._poly_from_key(d[1])), names, seen):
                return True
    return False


def _und(v):
    return v is None or is_unknown(v) or (israt(v) and bool(find_atoms(v, lambda n, a: n == "ite")))


def _without(t, av):
    """t with the atom av replaced by 0"""
    a = next(iter(av.n.atoms()))
    if any(x == a and e != 1 for m in t.n.t for x, e in m):
        raise Unsupported("not linear in arange")
    n = F.Poly({m: c for m, c in t.n.t.items() if all(x != a for x, _e in m)})
    if any(x == a for m in t.d.t for x, _e in m):
        raise Unsupported("arange in a denominator")
    return F.Rat(n, t.d)
