"""C03 self-test recipes in addition to the table in selftest.py: (property, "break" | "neutral", expected rules, file, old text, new text, description).
The old text occurs exactly once in pyyeti/srs.py."""

S = "pyyeti/srs.py"

_TAIL = '''    if getresp:
        if eqsine:
            SRSmax /= Q
            resp["hist"] /= Q
        return SRSmax, resp
    if eqsine:
        SRSmax /= Q
    return SRSmax
'''

_TAIL_RESTRUCTURED = '''    if eqsine:
        SRSmax = SRSmax / Q
        if getresp:
            resp["hist"] = resp["hist"] / Q
    if not getresp:
        return SRSmax
    return SRSmax, resp
'''

_TAIL_HIST_NOT_SCALED = '''    if getresp:
        if eqsine:
            SRSmax /= Q
        return SRSmax, resp
    if eqsine:
        SRSmax /= Q
    return SRSmax
'''

_TAIL_TWICE = '''    if eqsine:
        SRSmax /= Q
    if getresp:
        if eqsine:
            SRSmax /= Q
            resp["hist"] /= Q
        return SRSmax, resp
    return SRSmax
'''

_PAD_HEAD = '''    pv = (freq > 0).nonzero()[0]
    if pv.size > 0:
        minf = freq[pv].min()
'''

_PAD_HEAD_MASK = '''    positive = freq > 0
    if positive.any():
        minf = np.min(freq[positive])
'''

_SERIAL_IC_LOOP = '''                b, a = coeffunc(Q, dT, wn[j])
                resphist = signal.lfilter(b, a, sig, axis=0)
                if stype == "reldisp":
'''

RECIPES = [
    # ---- break: new obligations of the value-level rules
    ("C03", "break", ["C03-R4"], S, "            sig = np.vstack((sig, z - s1))", "            sig = np.vstack((sig, z + s1))", "appended cycle: sign of the steady-state offset"),
    ("C03", "break", ["C03-R4"], S, '        if ic == "steady":\n            sig = np.vstack((sig, z - s1))', '        if ic != "zero":\n            sig = np.vstack((sig, z - s1))',
     "appended cycle shifted for every ic but 'zero'"),
    ("C03", "break", ["C03-R4"], S, "        nzeros = int(np.ceil(sr / minf))", "        nzeros = int(np.ceil(minf / sr))", "length of the appended cycle"),
    ("C03", "break", ["C03-R4"], S, '            resp["t"] = np.arange(M, N) / sr', '            resp["t"] = np.arange(M, N - 1) / sr', "residual time vector one sample short"),
    ("C03", "break", ["C03-R4"], S, '                resp["hist"] = np.empty((N - M, H, LF))', '                resp["hist"] = np.empty((N, H, LF))', "residual history allocated for the total window"),
    ("C03", "break", ["C03-R4"], S, "                HIST = (createSharedArray((N - M, H, LF)), (N - M, H, LF))", "                HIST = (createSharedArray((N, H, LF)), (N, H, LF))",
     "shared residual history allocated for the total window"),
    ("C03", "break", ["C03-R4"], S, "    if ptr:\n        sig, N = _add_one_cycle", "    if ptr == 2:\n        sig, N = _add_one_cycle", "time='total' without the appended cycle"),
    ("C03", "break", ["C03-R4"], S, '        resp = {}\n        resp["sr"] = sr\n', '        resp = {}\n        resp["sr"] = ppc\n', "resp['sr'] is not the sample rate of the filter"),
    ("C03", "break", ["C03-R3"], S, _SERIAL_IC_LOOP, _SERIAL_IC_LOOP.replace("lfilter(b, a, sig", "lfilter(a, b, sig"), "lfilter(a, b, ...) in the serial loop"),
    ("C03", "break", ["C03-R3"], S, '        "pvelo": pvelo,\n        "pacce": pacce,', '        "pvelo": pacce,\n        "pacce": pvelo,', "coefficient table entries swapped"),
    ("C03", "break", ["C03-R3"], S, "            icvals = -s1\n", "            icvals = s1\n", "sign of the steady-state values of the displacement types"),
    ("C03", "break", ["C03-R3"], S, "            icvals = -s1\n", "            icvals = -1.0 * sig[0]\n", "steady-state values read from the already shifted signal (always zero)"),
    ("C03", "break", ["C03-R4"], S, "    doic = 0\n    icvals = None\n    s1 = sig[0]\n    if ic == \"shift\":\n        sig = sig - s1\n",
     "    doic = 0\n    icvals = None\n    s1 = sig[0]\n    if ic == \"shift\":\n        sig = sig - s1\n        icvals = s1\n        doic = 1\n", "ic='shift' adds the first sample back"),
    ("C03", "break", ["C03-R7"], S, _TAIL, _TAIL_HIST_NOT_SCALED, "eqsine: response history not divided by Q"),
    ("C03", "break", ["C03-R7"], S, _TAIL, _TAIL_TWICE, "eqsine: spectrum divided by Q twice when getresp"),
    ("C03", "break", ["C03-R6"], S, "            z_miles = np.sqrt((np.pi / 2 * Fn * Q) * psdf2.T).T", "            z_miles = np.sqrt((np.pi * Fn * Q) * psdf2.T).T", "Miles factor pi instead of pi/2"),
    ("C03", "break", ["C03-R6"], S, "            psdf2 = ifunc(Fn)", "            psdf2 = ifunc(freq[: len(Fn)])", "Miles: PSD not evaluated at Fn"),
    ("C03", "break", ["C03-R6"], S, "            psd_vrs[i] = t  # npsds x len(freq)", "            psd_vrs[i] = t * df  # npsds x len(freq)", "response PSD multiplied by the band widths"),
    ("C03", "break", ["C03-R6"], S, "        p = freq / fn\n        p2z2 = (2 * zeta * p) ** 2\n        t = ((1 + p2z2) / ((1 - p**2) ** 2 + p2z2) * df) * psdfull.T",
     "        p = fn / freq\n        p2z2 = (2 * zeta * p) ** 2\n        t = ((1 + p2z2) / ((1 - p**2) ** 2 + p2z2) * df) * psdfull.T", "frequency ratio inverted in the non-getresp loop"),
    ("C03", "break", ["C03-R8"], S, '        "rms": _rmsmeth,\n', '        "rms": _absmeth,\n', "peak table: rms -> abs"),
    # ---- neutral: refactorings the value-level rules must not notice
    ("C03", "neutral", [], S, _PAD_HEAD, _PAD_HEAD_MASK, "lowest non-zero frequency through a boolean mask"),
    ("C03", "neutral", [], S, "    S = M if ptr == 2 else 0\n", '    S = 0\n    if time == "residual":\n        S = M\n', "window start decided on the option string"),
    ("C03", "neutral", [], S, '            resp["t"] = np.arange(M, N) / sr', '            resp["t"] = np.arange(M, N) * (1 / sr)', "time vector times the step"),
    ("C03", "neutral", [], S, _TAIL, _TAIL_RESTRUCTURED, "eqsine tail restructured, plain division"),
    ("C03", "neutral", [], S, "        b = np.array([beta0, beta1, beta2])\n    a = np.array([1, -2 * C, E2])\n    return b, a\n\n\ndef relacce",
     "        b = (beta0, beta1, beta2)\n    return np.asarray(b), np.asarray((1, -2 * C, E2))\n\n\ndef relacce", "absacce returns np.asarray of tuples"),
    ("C03", "neutral", [], S, "        resphist += ICVALS_ / WN_[j] ** 2\n    elif stype == \"pvelo\":\n        resphist += ICVALS_ / WN_[j]\n    else:\n        # stype == 'pacce' or 'absacce'\n        resphist += ICVALS_\n    SRSmax_[j] = methfunc(resphist[S:])\n    HIST_",
     "        w = WN_[j]\n        resphist = resphist + ICVALS_ / (w * w)\n    elif stype in (\"pacce\", \"absacce\"):\n        resphist += ICVALS_\n    else:\n        resphist += ICVALS_ / WN_[j]\n    SRSmax_[j] = methfunc(resphist[S:])\n    HIST_",
     "worker add-back arms reordered, membership test, plain addition"),
]
