"""C03 self-test recipes in addition to the table in selftest.py: (property, "break" | "neutral", expected rules, file, old text, new text, description).
The old text occurs exactly once in pyyeti/srs.py."""

S = "pyyeti/srs.py"

_TAIL = '''    if getresp:
        if eqsine:
            SRSmax /= Q
            resp["hist"] /= Q
        return SRSmax, resp
    if eqsine:
        SRSmax /= Q
    return SRSmax
'''

_TAIL_RESTRUCTURED = '''    if eqsine:
        SRSmax = SRSmax / Q
        if getresp:
            resp["hist"] = resp["hist"] / Q
    if not getresp:
        return SRSmax
    return SRSmax, resp
'''

_TAIL_HIST_NOT_SCALED = '''    if getresp:
        if eqsine:
            SRSmax /= Q
        return SRSmax, resp
    if eqsine:
        SRSmax /= Q
    return SRSmax
'''

_TAIL_TWICE = '''    if eqsine:
        SRSmax /= Q
    if getresp:
        if eqsine:
            SRSmax /= Q
            resp["hist"] /= Q
        return SRSmax, resp
    return SRSmax
'''

_PAD_HEAD = '''    pv = (freq > 0).nonzero()[0]
    if pv.size > 0:
        minf = freq[pv].min()
'''

_PAD_HEAD_MASK = '''    positive = freq > 0
    if positive.any():
        minf = np.min(freq[positive])
'''

_SERIAL_IC_LOOP = '''                b, a = coeffunc(Q, dT, wn[j])
                resphist = signal.lfilter(b, a, sig, axis=0)
                if stype == "reldisp":
'''

def _multi(*edits):
    """several (old, new) replacements in pyyeti/srs.py as one recipe: the old text is the contiguous span of the file that covers all of them (each must
    occur exactly once), the new text is that span with the replacements made.  Read from the pinned tree when the module is imported."""
    import os
    from . import core
    try:
        src = open(os.path.join(core.REPO, S)).read()
    except OSError:
        return "<pyyeti/srs.py not readable>", ""
    pos = []
    for o, _n in edits:
        if src.count(o) != 1:
            return "<multi-edit recipe: text occurs %d times: %s>" % (src.count(o), o[:40]), ""
        pos.append((src.index(o), src.index(o) + len(o)))
    a, b = min(p[0] for p in pos), max(p[1] for p in pos)
    span = src[a:b]
    new = span
    for o, n in edits:
        new = new.replace(o, n)
    return span, new


_GETRESP_BLOCK = '''    if getresp:
        resp = {}
        resp["sr"] = sr
        # hist is:  len(time) x nsignals x len(freq)
        if ptr == 2:
            # residual
            resp["t"] = np.arange(M, N) / sr
            if parallel == "yes":
                HIST = (createSharedArray((N - M, H, LF)), (N - M, H, LF))
            else:
                resp["hist"] = np.empty((N - M, H, LF))
        else:
            resp["t"] = np.arange(N) / sr
            if parallel == "yes":
                HIST = (createSharedArray((N, H, LF)), (N, H, LF))
            else:
                resp["hist"] = np.empty((N, H, LF))
'''

_START_RESP = '''def _start_resp(sr, M, N, H, LF, residual, shared):
    out = {}
    out["sr"] = sr
    first = M if residual else 0
    out["t"] = np.arange(first, N) / sr
    dims = (N - first, H, LF)
    if shared:
        return out, (createSharedArray(dims), dims)
    out["hist"] = np.empty(dims)
    return out, None


def vrs('''

_GETRESP_HELPER = '''    if getresp:
        resp, shared_hist = _start_resp(sr, M, N, H, LF, ptr == 2, parallel == "yes")
        if shared_hist is not None:
            HIST = shared_hist
'''

_GETRESP_LITERAL = '''    if getresp:
        first = (0, 0, M)[ptr]
        if parallel == "yes":
            resp = {"sr": sr, "t": np.arange(first, N) / sr}
            HIST = (createSharedArray((N - first, H, LF)), (N - first, H, LF))
        else:
            resp = dict(sr=sr, t=np.arange(first, N) / sr, hist=np.empty((N - first, H, LF)))
'''

_TAIL_INCREMENTAL = '''    if eqsine:
        SRSmax /= Q
    result = (SRSmax,)
    if getresp:
        if eqsine:
            resp["hist"] /= Q
        result += (resp,)
    return result if len(result) > 1 else result[0]
'''

_TAIL_CONCAT = '''    if eqsine:
        SRSmax /= Q
    extra = ()
    if getresp:
        if eqsine:
            resp["hist"] /= Q
        extra = (resp,)
    if extra:
        return (SRSmax,) + extra
    return SRSmax
'''

_NOIC_LOOP = '''            dT = 1 / sr
            for j in range(LF):
                b, a = coeffunc(Q, dT, wn[j])
                resphist = signal.lfilter(b, a, sig, axis=0)
                SRSmax[j] = methfunc(resphist[S:])
                if getresp:
                    resp["hist"][:, :, j] = resphist[S:]
'''

_NOIC_WHILE = '''            dT = 1 / sr
            j = 0
            while j != LF:
                b, a = coeffunc(Q, dT, wn[j])
                resphist = signal.lfilter(b, a, sig, axis=0)
                SRSmax[j] = methfunc(resphist[S:])
                if getresp:
                    resp["hist"][:, :, j] = resphist[S:]
                j = j + 1
'''

_IC_LOOP_HEAD = '''            for j in range(LF):
                b, a = coeffunc(Q, dT, wn[j])
                resphist = signal.lfilter(b, a, sig, axis=0)
                if stype == "reldisp":
                    resphist += icvals / wn[j] ** 2
                elif stype == "pvelo":
                    resphist += icvals / wn[j]
'''

_IC_LOOP_ZIP = '''            for j, wnj in zip(range(LF), wn):
                b, a = coeffunc(Q, dT, wnj)
                resphist = signal.lfilter(b, a, sig, axis=0)
                if stype == "reldisp":
                    resphist += icvals / wnj ** 2
                elif stype == "pvelo":
                    resphist += icvals / wn[j]
'''

_LOOKUP = '''def _lookup(table, key, what):
    try:
        return table[key]
    except KeyError:
        raise ValueError("invalid {} option: {!r}".format(what, key)) from None


def _process_inputs('''

_SOS = '''def _sos(b0, b1, b2, C, E2):
    num = np.empty(3)
    num[0] = b0
    num[1] = b1
    num[2] = b2
    den = np.empty(3)
    den[0], den[1], den[2] = 1.0, -2 * C, E2
    return num, den


def absacce(Q, dT, wn):'''

_ROLL_TABLE = '''    roll = {
        "fft": fftroll,
        "lanczos": lanroll,
        "prefilter": preroll,
        "linear": linroll,
        "none": None,
    }
'''

_VRS_TAIL = '''        resp = {}
        resp["f"] = freq
        resp["psd"] = psd_vrs
        if PSD.ndim == 1:
            z_vrs = z_vrs.ravel()
        return z_vrs, z_miles, resp

    for i, fn in enumerate(Fn):
        p = freq / fn
        p2z2 = (2 * zeta * p) ** 2
        t = ((1 + p2z2) / ((1 - p**2) ** 2 + p2z2) * df) * psdfull.T
        z_vrs[i] = np.sqrt(np.sum(t, axis=1))

    if PSD.ndim == 1:
        z_vrs = z_vrs.ravel()
    if getmiles:
        return z_vrs, z_miles
    return z_vrs
'''

_VRS_TAIL_INCREMENTAL = '''    else:
        i = 0
        while i < len(Fn):
            p = freq / Fn[i]
            p2z2 = (2 * zeta * p) ** 2
            t = ((1 + p2z2) / ((1 - p**2) ** 2 + p2z2) * df) * psdfull.T
            z_vrs[i] = np.sqrt(np.sum(t, axis=1))
            i += 1

    if PSD.ndim == 1:
        z_vrs = z_vrs.ravel()
    out = (z_vrs,)
    if getmiles or getresp:
        out += (z_miles,)
    if getresp:
        out += (dict(f=freq, psd=psd_vrs),)
    return out if len(out) > 1 else out[0]
'''

_WORKER_IC_BODY = '''    (j, (coeffunc, Q, dT, methfunc, S, stype)) = args
    b, a = coeffunc(Q, dT, WN_[j])
    resphist = signal.lfilter(b, a, SIG_, axis=0)
    if stype == "reldisp":
        resphist += ICVALS_ / WN_[j] ** 2
    elif stype == "pvelo":
        resphist += ICVALS_ / WN_[j]
    else:
        # stype == 'pacce' or 'absacce'
        resphist += ICVALS_
    SRSmax_[j] = methfunc(resphist[S:])
    HIST_[:, :, j] = resphist[S:]
'''

_WORKER_IC_COMMON = '''    _dosrs_any(args, True, True)


def _dosrs_any(args, ic, hist):
    j, rest = args
    coeffunc, Q, dT, methfunc, S = rest[:5]
    w = WN_[j]
    b, a = coeffunc(Q, dT, w)
    resphist = signal.lfilter(b, a, SIG_, axis=0)
    if ic:
        stype = rest[5]
        if stype == "reldisp":
            resphist += ICVALS_ / w ** 2
        elif stype == "pvelo":
            resphist += ICVALS_ / w
        else:
            resphist += ICVALS_
    SRSmax_[j] = methfunc(resphist[S:])
    if hist:
        HIST_[:, :, j] = resphist[S:]
'''

_ALLOC_HELPER = _multi(("def _process_inputs(", "def _zeros(shape):\n    out = np.empty(shape)\n    out[...] = 0.0\n    return out\n\n\ndef _process_inputs("),
                       ("    else:\n        SRSmax = np.empty((LF, H))\n", "    else:\n        SRSmax = _zeros((LF, H))\n"),
                       ('                resp["hist"] = np.empty((N - M, H, LF))\n', '                resp["hist"] = _zeros((N - M, H, LF))\n'),
                       ('                resp["hist"] = np.empty((N, H, LF))\n', '                resp["hist"] = _zeros((N, H, LF))\n'))
_ALLOC_HELPER_DIMS = (_ALLOC_HELPER[0], _ALLOC_HELPER[1].replace("_zeros((N - M, H, LF))", "_zeros((N, H, LF))"))

_HELPER_RESP = _multi((_GETRESP_BLOCK, _GETRESP_HELPER), ("def vrs(", _START_RESP))
_HELPER_RESP_SHORT_T = (_HELPER_RESP[0], _HELPER_RESP[1].replace("np.arange(first, N) / sr", "np.arange(first, N - 1) / sr"))
_HELPER_RESP_DIMS = (_HELPER_RESP[0], _HELPER_RESP[1].replace("dims = (N - first, H, LF)", "dims = (N, H, LF)"))
_LOOPS = _multi((_NOIC_LOOP, _NOIC_WHILE), (_IC_LOOP_HEAD, _IC_LOOP_ZIP))
_LOOPS_SWAPPED = (_LOOPS[0], _LOOPS[1].replace("while j != LF:\n                b, a = coeffunc(Q, dT, wn[j])\n                resphist = signal.lfilter(b, a, sig",
                                                "while j != LF:\n                b, a = coeffunc(Q, dT, wn[j])\n                resphist = signal.lfilter(a, b, sig"))
_LOOPS_START = (_LOOPS[0], _LOOPS[1].replace(
    "while j != LF:\n                b, a = coeffunc(Q, dT, wn[j])\n                resphist = signal.lfilter(b, a, sig, axis=0)\n                SRSmax[j] = methfunc(resphist[S:])",
    "while j != LF:\n                b, a = coeffunc(Q, dT, wn[j])\n                resphist = signal.lfilter(b, a, sig, axis=0)\n                SRSmax[j] = methfunc(resphist[M:])"))
_TABLES = _multi(("    S = M if ptr == 2 else 0\n", "    S = {0: 0, 1: 0, 2: M}[ptr]\n"),
                 ('    ptr = {"primary": 0, "total": 1, "residual": 2}\n', "    ptr = _TIME_CODES\n"),
                 ("def _process_inputs(", "_TIME_CODES = dict(primary=0, total=1, residual=2)\n\n\ndef _process_inputs("),
                 (_ROLL_TABLE, '    roll = dict(zip(("none", "linear", "lanczos", "fft", "prefilter"), (None, linroll, lanroll, fftroll, preroll)))\n'),
                 ("            func = _dosrs if getresp else _dosrs_nohist\n", "            func = {True: _dosrs, False: _dosrs_nohist}[bool(getresp)]\n"),
                 ("            func = _dosrs_ic if getresp else _dosrs_nohist_ic\n", "            func = [_dosrs_nohist_ic, _dosrs_ic][1 if getresp else 0]\n"))
_TABLES_S = (_TABLES[0], _TABLES[1].replace("{0: 0, 1: 0, 2: M}[ptr]", "{0: 0, 1: M, 2: M}[ptr]"))
_TABLES_CODES = (_TABLES[0], _TABLES[1].replace("dict(primary=0, total=1, residual=2)", "dict(primary=0, total=2, residual=1)"))
_TRY_LOOKUP = _multi(("def _process_inputs(", _LOOKUP), ("    coeffunc = coefs[stype]\n", '    coeffunc = _lookup(coefs, stype, "stype")\n'),
                     ("        methfunc = meth[peak]\n", '        methfunc = _lookup(meth, peak, "peak")\n'),
                     ("        rollfunc = roll[rolloff]\n", '        rollfunc = _lookup(roll, rolloff, "rolloff")\n'),
                     ("    ptr = ptr[time]\n", '    ptr = _lookup(ptr, time, "time")\n'))
_ELEMENT_STORES = _multi(("def absacce(Q, dT, wn):", _SOS),
                         ("        b = np.array([beta0, beta1, beta2])\n    a = np.array([1, -2 * C, E2])\n    return b, a\n\n\ndef relacce",
                          "        return _sos(beta0, beta1, beta2, C, E2)\n    a = np.array([1, -2 * C, E2])\n    return b, a\n\n\ndef relacce"))
_ELEMENT_STORES_WRONG = (_ELEMENT_STORES[0], _ELEMENT_STORES[1].replace("    num[1] = b1\n    num[2] = b2\n", "    num[1] = b2\n    num[2] = b1\n"))

RECIPES = [
    # ---- break: new obligations of the value-level rules
    ("C03", "break", ["C03-R4"], S, "            sig = np.vstack((sig, z - s1))", "            sig = np.vstack((sig, z + s1))", "appended cycle: sign of the steady-state offset"),
    ("C03", "break", ["C03-R4"], S, '        if ic == "steady":\n            sig = np.vstack((sig, z - s1))', '        if ic != "zero":\n            sig = np.vstack((sig, z - s1))',
     "appended cycle shifted for every ic but 'zero'"),
    ("C03", "break", ["C03-R4"], S, "        nzeros = int(np.ceil(sr / minf))", "        nzeros = int(np.ceil(minf / sr))", "length of the appended cycle"),
    ("C03", "break", ["C03-R4"], S, '            resp["t"] = np.arange(M, N) / sr', '            resp["t"] = np.arange(M, N - 1) / sr', "residual time vector one sample short"),
    ("C03", "break", ["C03-R4"], S, '                resp["hist"] = np.empty((N - M, H, LF))', '                resp["hist"] = np.empty((N, H, LF))', "residual history allocated for the total window"),
    ("C03", "break", ["C03-R4"], S, "                HIST = (createSharedArray((N - M, H, LF)), (N - M, H, LF))", "                HIST = (createSharedArray((N, H, LF)), (N, H, LF))",
     "shared residual history allocated for the total window"),
    ("C03", "break", ["C03-R4"], S, "    if ptr:\n        sig, N = _add_one_cycle", "    if ptr == 2:\n        sig, N = _add_one_cycle", "time='total' without the appended cycle"),
    ("C03", "break", ["C03-R4"], S, '        resp = {}\n        resp["sr"] = sr\n', '        resp = {}\n        resp["sr"] = ppc\n', "resp['sr'] is not the sample rate of the filter"),
    ("C03", "break", ["C03-R3"], S, _SERIAL_IC_LOOP, _SERIAL_IC_LOOP.replace("lfilter(b, a, sig", "lfilter(a, b, sig"), "lfilter(a, b, ...) in the serial loop"),
    ("C03", "break", ["C03-R3"], S, '        "pvelo": pvelo,\n        "pacce": pacce,', '        "pvelo": pacce,\n        "pacce": pvelo,', "coefficient table entries swapped"),
    ("C03", "break", ["C03-R3"], S, "            icvals = -s1\n", "            icvals = s1\n", "sign of the steady-state values of the displacement types"),
    ("C03", "break", ["C03-R3"], S, "            icvals = -s1\n", "            icvals = -1.0 * sig[0]\n", "steady-state values read from the already shifted signal (always zero)"),
    ("C03", "break", ["C03-R4"], S, "    doic = 0\n    icvals = None\n    s1 = sig[0]\n    if ic == \"shift\":\n        sig = sig - s1\n",
     "    doic = 0\n    icvals = None\n    s1 = sig[0]\n    if ic == \"shift\":\n        sig = sig - s1\n        icvals = s1\n        doic = 1\n", "ic='shift' adds the first sample back"),
    ("C03", "break", ["C03-R7"], S, _TAIL, _TAIL_HIST_NOT_SCALED, "eqsine: response history not divided by Q"),
    ("C03", "break", ["C03-R7"], S, _TAIL, _TAIL_TWICE, "eqsine: spectrum divided by Q twice when getresp"),
    ("C03", "break", ["C03-R6"], S, "            z_miles = np.sqrt((np.pi / 2 * Fn * Q) * psdf2.T).T", "            z_miles = np.sqrt((np.pi * Fn * Q) * psdf2.T).T", "Miles factor pi instead of pi/2"),
    ("C03", "break", ["C03-R6"], S, "            psdf2 = ifunc(Fn)", "            psdf2 = ifunc(freq[: len(Fn)])", "Miles: PSD not evaluated at Fn"),
    ("C03", "break", ["C03-R6"], S, "            psd_vrs[i] = t  # npsds x len(freq)", "            psd_vrs[i] = t * df  # npsds x len(freq)", "response PSD multiplied by the band widths"),
    ("C03", "break", ["C03-R6"], S, "        p = freq / fn\n        p2z2 = (2 * zeta * p) ** 2\n        t = ((1 + p2z2) / ((1 - p**2) ** 2 + p2z2) * df) * psdfull.T",
     "        p = fn / freq\n        p2z2 = (2 * zeta * p) ** 2\n        t = ((1 + p2z2) / ((1 - p**2) ** 2 + p2z2) * df) * psdfull.T", "frequency ratio inverted in the non-getresp loop"),
    ("C03", "break", ["C03-R8"], S, '        "rms": _rmsmeth,\n', '        "rms": _absmeth,\n', "peak table: rms -> abs"),
    # ---- break: the same changes hidden behind the refactorings of the second hardening pass (helpers that build and return the dictionary / the arrays,
    #      while / zip loops, module-level and integer-key tables)
    ("C03", "break", ["C03-R4"], S) + _HELPER_RESP_SHORT_T + ("response dictionary built in a helper: time vector one sample short",),
    ("C03", "break", ["C03-R4"], S) + _HELPER_RESP_DIMS + ("response dictionary built in a helper: residual history allocated for the total window",),
    ("C03", "break", ["C03-R3"], S) + _LOOPS_SWAPPED + ("lfilter(a, b, ...) inside a counted while loop",),
    ("C03", "break", ["C03-R4"], S) + _LOOPS_START + ("peak taken from row M inside a counted while loop",),
    ("C03", "break", ["C03-R4"], S) + _TABLES_S + ("window start table: total starts at M",),
    ("C03", "break", ["C03-R4"], S) + _TABLES_CODES + ("module-level time-code table: total and residual swapped",),
    ("C03", "break", ["C03-R1"], S) + _ELEMENT_STORES_WRONG + ("coefficient array filled element by element in a helper: beta1 and beta2 swapped",),
    ("C03", "break", ["C03-R7"], S, _TAIL, _TAIL_INCREMENTAL.replace('        if eqsine:\n            resp["hist"] /= Q\n', ""), "result tuple assembled incrementally: history not divided by Q"),
    ("C03", "break", ["C03-R4"], S, _TAIL, _TAIL_CONCAT.replace("return (SRSmax,) + extra", "return extra + (SRSmax,)"), "result tuple concatenated in the wrong order"),
    ("C03", "break", ["C03-R3"], S, _WORKER_IC_BODY, _WORKER_IC_COMMON.replace("resphist += ICVALS_ / w\n", "resphist += ICVALS_ / w ** 2\n"),
     "worker body in a common helper that reads the worker globals: pvelo add-back divided by wn^2"),
    ("C03", "break", ["C03-R4"], S) + _ALLOC_HELPER_DIMS + ("arrays allocated by a helper used twice: residual history allocated for the total window",),
    # ---- neutral: refactorings the value-level rules must not notice
    ("C03", "neutral", [], S, _PAD_HEAD, _PAD_HEAD_MASK, "lowest non-zero frequency through a boolean mask"),
    ("C03", "neutral", [], S, "    S = M if ptr == 2 else 0\n", '    S = 0\n    if time == "residual":\n        S = M\n', "window start decided on the option string"),
    ("C03", "neutral", [], S, '            resp["t"] = np.arange(M, N) / sr', '            resp["t"] = np.arange(M, N) * (1 / sr)', "time vector times the step"),
    ("C03", "neutral", [], S, _TAIL, _TAIL_RESTRUCTURED, "eqsine tail restructured, plain division"),
    ("C03", "neutral", [], S, "        b = np.array([beta0, beta1, beta2])\n    a = np.array([1, -2 * C, E2])\n    return b, a\n\n\ndef relacce",
     "        b = (beta0, beta1, beta2)\n    return np.asarray(b), np.asarray((1, -2 * C, E2))\n\n\ndef relacce", "absacce returns np.asarray of tuples"),
    ("C03", "neutral", [], S, "        resphist += ICVALS_ / WN_[j] ** 2\n    elif stype == \"pvelo\":\n        resphist += ICVALS_ / WN_[j]\n    else:\n        # stype == 'pacce' or 'absacce'\n        resphist += ICVALS_\n    SRSmax_[j] = methfunc(resphist[S:])\n    HIST_",
     "        w = WN_[j]\n        resphist = resphist + ICVALS_ / (w * w)\n    elif stype in (\"pacce\", \"absacce\"):\n        resphist += ICVALS_\n    else:\n        resphist += ICVALS_ / WN_[j]\n    SRSmax_[j] = methfunc(resphist[S:])\n    HIST_",
     "worker add-back arms reordered, membership test, plain addition"),
    # second hardening pass
    ("C03", "neutral", [], S) + _HELPER_RESP + ("response dictionary built under another name in a helper that returns it (or the shared buffer)",),
    ("C03", "neutral", [], S, _GETRESP_BLOCK, _GETRESP_LITERAL, "response dictionary as a display / dict(...) call, window start selected by tuple index"),
    ("C03", "neutral", [], S, _TAIL, _TAIL_INCREMENTAL, "result tuple assembled incrementally (+=), returned whole or by index"),
    ("C03", "neutral", [], S, _TAIL, _TAIL_CONCAT, "result tuple concatenated from displays"),
    ("C03", "neutral", [], S) + _LOOPS + ("serial loops as a counted while loop and as a zip over (range, wn)",),
    ("C03", "neutral", [], S) + _TABLES + ("module-level dict(...) table, integer- and bool-key tables, dict(zip(...)), list indexed by 0 / 1",),
    ("C03", "neutral", [], S) + _TRY_LOOKUP + ("table look-ups through a helper with try / except KeyError",),
    ("C03", "neutral", [], S) + _ELEMENT_STORES + ("coefficient arrays filled element by element in a helper that returns them",),
    ("C03", "neutral", [], S, _WORKER_IC_BODY, _WORKER_IC_COMMON, "worker body moved into a common helper that reads the worker globals, flags as arguments"),
    ("C03", "neutral", [], S) + _ALLOC_HELPER + ("spectrum and history arrays allocated and zeroed by one helper (a local array returned twice)",),
    ("C03", "neutral", [], S, _VRS_TAIL, _VRS_TAIL_INCREMENTAL, "vrs: counted while loop, result tuple assembled incrementally, dict(...) response"),
]
