"""C03 self-test recipes in addition to the table in selftest.py: (property, "break" | "neutral", expected rules, file, old text, new text, description).
The old text occurs exactly once in pyyeti/srs.py."""

S = "pyyeti/srs.py"

_TAIL = '''    if getresp:
        if eqsine:
            SRSmax /= Q
            resp["hist"] /= Q
        return SRSmax, resp
    if eqsine:
        SRSmax /= Q
    return SRSmax
'''

_TAIL_RESTRUCTURED = '''    if eqsine:
        SRSmax = SRSmax / Q
        if getresp:
            resp["hist"] = resp["hist"] / Q
    if not getresp:
        return SRSmax
    return SRSmax, resp
'''

_TAIL_HIST_NOT_SCALED = '''    if getresp:
        if eqsine:
            SRSmax /= Q
        return SRSmax, resp
    if eqsine:
        SRSmax /= Q
    return SRSmax
'''

_TAIL_TWICE = '''    if eqsine:
        SRSmax /= Q
    if getresp:
        if eqsine:
            SRSmax /= Q
            resp["hist"] /= Q
        return SRSmax, resp
    return SRSmax
'''

_PAD_HEAD = '''    pv = (freq > 0).nonzero()[0]
    if pv.size > 0:
        minf = freq[pv].min()
'''

_PAD_HEAD_MASK = '''    positive = freq > 0
    if positive.any():
        minf = np.min(freq[positive])
'''

_SERIAL_IC_LOOP = '''                b, a = coeffunc(Q, dT, wn[j])
                resphist = signal.lfilter(b, a, sig, axis=0)
                if stype == "reldisp":
'''

def _multi(*edits):
    """several (old, new) replacements in pyyeti/srs.py as one recipe: the old text is the contiguous span of the file that covers all of them (each must
    occur exactly once), the new text is that span with the replacements made.  Read from the pinned tree when the module is imported."""
    import os
    from . import core
    try:
        src = open(os.path.join(core.REPO, S)).read()
    except OSError:
        return "<pyyeti/srs.py not readable>", ""
    pos = []
    for o, _n in edits:
        if src.count(o) != 1:
            return "<multi-edit recipe: text occurs %d times: %s>" % (src.count(o), o[:40]), ""
        pos.append((src.index(o), src.index(o) + len(o)))
    a, b = min(p[0] for p in pos), max(p[1] for p in pos)
    span = src[a:b]
    new = span
    for o, n in edits:
        new = new.replace(o, n)
    return span, new


_GETRESP_BLOCK = '''    if getresp:
        resp = {}
        resp["sr"] = sr
        # hist is:  len(time) x nsignals x len(freq)
        if ptr == 2:
            # residual
            resp["t"] = np.arange(M, N) / sr
            if parallel == "yes":
                HIST = (createSharedArray((N - M, H, LF)), (N - M, H, LF))
            else:
                resp["hist"] = np.empty((N - M, H, LF))
        else:
            resp["t"] = np.arange(N) / sr
            if parallel == "yes":
                HIST = (createSharedArray((N, H, LF)), (N, H, LF))
            else:
                resp["hist"] = np.empty((N, H, LF))
'''

_START_RESP = '''def _start_resp(sr, M, N, H, LF, residual, shared):
    out = {}
    out["sr"] = sr
    first = M if residual else 0
    out["t"] = np.arange(first, N) / sr
    dims = (N - first, H, LF)
    if shared:
        return out, (createSharedArray(dims), dims)
    out["hist"] = np.empty(dims)
    return out, None


def vrs('''

_GETRESP_HELPER = '''    if getresp:
        resp, shared_hist = _start_resp(sr, M, N, H, LF, ptr == 2, parallel == "yes")
        if shared_hist is not None:
            HIST = shared_hist
'''

_GETRESP_LITERAL = '''    if getresp:
        first = (0, 0, M)[ptr]
        if parallel == "yes":
            resp = {"sr": sr, "t": np.arange(first, N) / sr}
            HIST = (createSharedArray((N - first, H, LF)), (N - first, H, LF))
        else:
            resp = dict(sr=sr, t=np.arange(first, N) / sr, hist=np.empty((N - first, H, LF)))
'''

_TAIL_INCREMENTAL = '''    if eqsine:
        SRSmax /= Q
    result = (SRSmax,)
    if getresp:
        if eqsine:
            resp["hist"] /= Q
        result += (resp,)
    return result if len(result) > 1 else result[0]
'''

_TAIL_CONCAT = '''    if eqsine:
        SRSmax /= Q
    extra = ()
    if getresp:
        if eqsine:
            resp["hist"] /= Q
        extra = (resp,)
    if extra:
        return (SRSmax,) + extra
    return SRSmax
'''

_NOIC_LOOP = '''            dT = 1 / sr
            for j in range(LF):
                b, a = coeffunc(Q, dT, wn[j])
                resphist = signal.lfilter(b, a, sig, axis=0)
                SRSmax[j] = methfunc(resphist[S:])
                if getresp:
                    resp["hist"][:, :, j] = resphist[S:]
'''

_NOIC_WHILE = '''            dT = 1 / sr
            j = 0
            while j != LF:
                b, a = coeffunc(Q, dT, wn[j])
                resphist = signal.lfilter(b, a, sig, axis=0)
                SRSmax[j] = methfunc(resphist[S:])
                if getresp:
                    resp["hist"][:, :, j] = resphist[S:]
                j = j + 1
'''

_IC_LOOP_HEAD = '''            for j in range(LF):
                b, a = coeffunc(Q, dT, wn[j])
                resphist = signal.lfilter(b, a, sig, axis=0)
                if stype == "reldisp":
                    resphist += icvals / wn[j] ** 2
                elif stype == "pvelo":
                    resphist += icvals / wn[j]
'''

_IC_LOOP_ZIP = '''            for j, wnj in zip(range(LF), wn):
                b, a = coeffunc(Q, dT, wnj)
                resphist = signal.lfilter(b, a, sig, axis=0)
                if stype == "reldisp":
                    resphist += icvals / wnj ** 2
                elif stype == "pvelo":
                    resphist += icvals / wn[j]
'''

_LOOKUP = '''def _lookup(table, key, what):
    try:
        return table[key]
    except KeyError:
        raise ValueError("invalid {} option: {!r}".format(what, key)) from None


def _process_inputs('''

_SOS = '''def _sos(b0, b1, b2, C, E2):
    num = np.empty(3)
    num[0] = b0
    num[1] = b1
    num[2] = b2
    den = np.empty(3)
    den[0], den[1], den[2] = 1.0, -2 * C, E2
    return num, den


def absacce(Q, dT, wn):'''

_ROLL_TABLE = '''    roll = {
        "fft": fftroll,
        "lanczos": lanroll,
        "prefilter": preroll,
        "linear": linroll,
        "none": None,
    }
'''

_VRS_TAIL = '''        resp = {}
        resp["f"] = freq
        resp["psd"] = psd_vrs
        if PSD.ndim == 1:
            z_vrs = z_vrs.ravel()
        return z_vrs, z_miles, resp

    for i, fn in enumerate(Fn):
        p = freq / fn
        p2z2 = (2 * zeta * p) ** 2
        t = ((1 + p2z2) / ((1 - p**2) ** 2 + p2z2) * df) * psdfull.T
        z_vrs[i] = np.sqrt(np.sum(t, axis=1))

    if PSD.ndim == 1:
        z_vrs = z_vrs.ravel()
    if getmiles:
        return z_vrs, z_miles
    return z_vrs
'''

_VRS_TAIL_INCREMENTAL = '''    else:
        i = 0
        while i < len(Fn):
            p = freq / Fn[i]
            p2z2 = (2 * zeta * p) ** 2
            t = ((1 + p2z2) / ((1 - p**2) ** 2 + p2z2) * df) * psdfull.T
            z_vrs[i] = np.sqrt(np.sum(t, axis=1))
            i += 1

    if PSD.ndim == 1:
        z_vrs = z_vrs.ravel()
    out = (z_vrs,)
    if getmiles or getresp:
        out += (z_miles,)
    if getresp:
        out += (dict(f=freq, psd=psd_vrs),)
    return out if len(out) > 1 else out[0]
'''

_WORKER_IC_BODY = '''    (j, (coeffunc, Q, dT, methfunc, S, stype)) = args
    b, a = coeffunc(Q, dT, WN_[j])
    resphist = signal.lfilter(b, a, SIG_, axis=0)
    if stype == "reldisp":
        resphist += ICVALS_ / WN_[j] ** 2
    elif stype == "pvelo":
        resphist += ICVALS_ / WN_[j]
    else:
        # stype == 'pacce' or 'absacce'
        resphist += ICVALS_
    SRSmax_[j] = methfunc(resphist[S:])
    HIST_[:, :, j] = resphist[S:]
'''

_WORKER_IC_COMMON = '''    _dosrs_any(args, True, True)


def _dosrs_any(args, ic, hist):
    j, rest = args
    coeffunc, Q, dT, methfunc, S = rest[:5]
    w = WN_[j]
    b, a = coeffunc(Q, dT, w)
    resphist = signal.lfilter(b, a, SIG_, axis=0)
    if ic:
        stype = rest[5]
        if stype == "reldisp":
            resphist += ICVALS_ / w ** 2
        elif stype == "pvelo":
            resphist += ICVALS_ / w
        else:
            resphist += ICVALS_
    SRSmax_[j] = methfunc(resphist[S:])
    if hist:
        HIST_[:, :, j] = resphist[S:]
'''

_ALLOC_HELPER = _multi(("def _process_inputs(", "def _zeros(shape):\n    out = np.empty(shape)\n    out[...] = 0.0\n    return out\n\n\ndef _process_inputs("),
                       ("    else:\n        SRSmax = np.empty((LF, H))\n", "    else:\n        SRSmax = _zeros((LF, H))\n"),
                       ('                resp["hist"] = np.empty((N - M, H, LF))\n', '                resp["hist"] = _zeros((N - M, H, LF))\n'),
                       ('                resp["hist"] = np.empty((N, H, LF))\n', '                resp["hist"] = _zeros((N, H, LF))\n'))
_ALLOC_HELPER_DIMS = (_ALLOC_HELPER[0], _ALLOC_HELPER[1].replace("_zeros((N - M, H, LF))", "_zeros((N, H, LF))"))

_HELPER_RESP = _multi((_GETRESP_BLOCK, _GETRESP_HELPER), ("def vrs(", _START_RESP))
_HELPER_RESP_SHORT_T = (_HELPER_RESP[0], _HELPER_RESP[1].replace("np.arange(first, N) / sr", "np.arange(first, N - 1) / sr"))
_HELPER_RESP_DIMS = (_HELPER_RESP[0], _HELPER_RESP[1].replace("dims = (N - first, H, LF)", "dims = (N, H, LF)"))
_LOOPS = _multi((_NOIC_LOOP, _NOIC_WHILE), (_IC_LOOP_HEAD, _IC_LOOP_ZIP))
_LOOPS_SWAPPED = (_LOOPS[0], _LOOPS[1].replace("while j != LF:\n                b, a = coeffunc(Q, dT, wn[j])\n                resphist = signal.lfilter(b, a, sig",
                                                "while j != LF:\n                b, a = coeffunc(Q, dT, wn[j])\n                resphist = signal.lfilter(a, b, sig"))
_LOOPS_START = (_LOOPS[0], _LOOPS[1].replace(
    "while j != LF:\n                b, a = coeffunc(Q, dT, wn[j])\n                resphist = signal.lfilter(b, a, sig, axis=0)\n                SRSmax[j] = methfunc(resphist[S:])",
    "while j != LF:\n                b, a = coeffunc(Q, dT, wn[j])\n                resphist = signal.lfilter(b, a, sig, axis=0)\n                SRSmax[j] = methfunc(resphist[M:])"))
_TABLES = _multi(("    S = M if ptr == 2 else 0\n", "    S = {0: 0, 1: 0, 2: M}[ptr]\n"),
                 ('    ptr = {"primary": 0, "total": 1, "residual": 2}\n', "    ptr = _TIME_CODES\n"),
                 ("def _process_inputs(", "_TIME_CODES = dict(primary=0, total=1, residual=2)\n\n\ndef _process_inputs("),
                 (_ROLL_TABLE, '    roll = dict(zip(("none", "linear", "lanczos", "fft", "prefilter"), (None, linroll, lanroll, fftroll, preroll)))\n'),
                 ("            func = _dosrs if getresp else _dosrs_nohist\n", "            func = {True: _dosrs, False: _dosrs_nohist}[bool(getresp)]\n"),
                 ("            func = _dosrs_ic if getresp else _dosrs_nohist_ic\n", "            func = [_dosrs_nohist_ic, _dosrs_ic][1 if getresp else 0]\n"))
_TABLES_S = (_TABLES[0], _TABLES[1].replace("{0: 0, 1: 0, 2: M}[ptr]", "{0: 0, 1: M, 2: M}[ptr]"))
_TABLES_CODES = (_TABLES[0], _TABLES[1].replace("dict(primary=0, total=1, residual=2)", "dict(primary=0, total=2, residual=1)"))
_TRY_LOOKUP = _multi(("def _process_inputs(", _LOOKUP), ("    coeffunc = coefs[stype]\n", '    coeffunc = _lookup(coefs, stype, "stype")\n'),
                     ("        methfunc = meth[peak]\n", '        methfunc = _lookup(meth, peak, "peak")\n'),
                     ("        rollfunc = roll[rolloff]\n", '        rollfunc = _lookup(roll, rolloff, "rolloff")\n'),
                     ("    ptr = ptr[time]\n", '    ptr = _lookup(ptr, time, "time")\n'))
_ELEMENT_STORES = _multi(("def absacce(Q, dT, wn):", _SOS),
                         ("        b = np.array([beta0, beta1, beta2])\n    a = np.array([1, -2 * C, E2])\n    return b, a\n\n\ndef relacce",
                          "        return _sos(beta0, beta1, beta2, C, E2)\n    a = np.array([1, -2 * C, E2])\n    return b, a\n\n\ndef relacce"))
_ELEMENT_STORES_WRONG = (_ELEMENT_STORES[0], _ELEMENT_STORES[1].replace("    num[1] = b1\n    num[2] = b2\n", "    num[1] = b2\n    num[2] = b1\n"))

RECIPES = [
    # ---- break: new obligations of the value-level rules
    ("C03", "break", ["C03-R4"], S, "            sig = np.vstack((sig, z - s1))", "            sig = np.vstack((sig, z + s1))", "appended cycle: sign of the steady-state offset"),
    ("C03", "break", ["C03-R4"], S, '        if ic == "steady":\n            sig = np.vstack((sig, z - s1))', '        if ic != "zero":\n            sig = np.vstack((sig, z - s1))',
     "appended cycle shifted for every ic but 'zero'"),
    ("C03", "break", ["C03-R4"], S, "        nzeros = int(np.ceil(sr / minf))", "        nzeros = int(np.ceil(minf / sr))", "length of the appended cycle"),
    ("C03", "break", ["C03-R4"], S, '            resp["t"] = np.arange(M, N) / sr', '            resp["t"] = np.arange(M, N - 1) / sr', "residual time vector one sample short"),
    ("C03", "break", ["C03-R4"], S, '                resp["hist"] = np.empty((N - M, H, LF))', '                resp["hist"] = np.empty((N, H, LF))', "residual history allocated for the total window"),
    ("C03", "break", ["C03-R4"], S, "                HIST = (createSharedArray((N - M, H, LF)), (N - M, H, LF))", "                HIST = (createSharedArray((N, H, LF)), (N, H, LF))",
     "shared residual history allocated for the total window"),
    ("C03", "break", ["C03-R4"], S, "    if ptr:\n        sig, N = _add_one_cycle", "    if ptr == 2:\n        sig, N = _add_one_cycle", "time='total' without the appended cycle"),
    ("C03", "break", ["C03-R4"], S, '        resp = {}\n        resp["sr"] = sr\n', '        resp = {}\n        resp["sr"] = ppc\n', "resp['sr'] is not the sample rate of the filter"),
    ("C03", "break", ["C03-R3"], S, _SERIAL_IC_LOOP, _SERIAL_IC_LOOP.replace("lfilter(b, a, sig", "lfilter(a, b, sig"), "lfilter(a, b, ...) in the serial loop"),
    ("C03", "break", ["C03-R3"], S, '        "pvelo": pvelo,\n        "pacce": pacce,', '        "pvelo": pacce,\n        "pacce": pvelo,', "coefficient table entries swapped"),
    ("C03", "break", ["C03-R3"], S, "            icvals = -s1\n", "            icvals = s1\n", "sign of the steady-state values of the displacement types"),
    ("C03", "break", ["C03-R3"], S, "            icvals = -s1\n", "            icvals = -1.0 * sig[0]\n", "steady-state values read from the already shifted signal (always zero)"),
    ("C03", "break", ["C03-R4"], S, "    doic = 0\n    icvals = None\n    s1 = sig[0]\n    if ic == \"shift\":\n        sig = sig - s1\n",
     "    doic = 0\n    icvals = None\n    s1 = sig[0]\n    if ic == \"shift\":\n        sig = sig - s1\n        icvals = s1\n        doic = 1\n", "ic='shift' adds the first sample back"),
    ("C03", "break", ["C03-R7"], S, _TAIL, _TAIL_HIST_NOT_SCALED, "eqsine: response history not divided by Q"),
    ("C03", "break", ["C03-R7"], S, _TAIL, _TAIL_TWICE, "eqsine: spectrum divided by Q twice when getresp"),
    ("C03", "break", ["C03-R6"], S, "            z_miles = np.sqrt((np.pi / 2 * Fn * Q) * psdf2.T).T", "            z_miles = np.sqrt((np.pi * Fn * Q) * psdf2.T).T", "Miles factor pi instead of pi/2"),
    ("C03", "break", ["C03-R6"], S, "            psdf2 = ifunc(Fn)", "            psdf2 = ifunc(freq[: len(Fn)])", "Miles: PSD not evaluated at Fn"),
    ("C03", "break", ["C03-R6"], S, "            psd_vrs[i] = t  # npsds x len(freq)", "            psd_vrs[i] = t * df  # npsds x len(freq)", "response PSD multiplied by the band widths"),
    ("C03", "break", ["C03-R6"], S, "        p = freq / fn\n        p2z2 = (2 * zeta * p) ** 2\n        t = ((1 + p2z2) / ((1 - p**2) ** 2 + p2z2) * df) * psdfull.T",
     "        p = fn / freq\n        p2z2 = (2 * zeta * p) ** 2\n        t = ((1 + p2z2) / ((1 - p**2) ** 2 + p2z2) * df) * psdfull.T", "frequency ratio inverted in the non-getresp loop"),
    ("C03", "break", ["C03-R8"], S, '        "rms": _rmsmeth,\n', '        "rms": _absmeth,\n', "peak table: rms -> abs"),
    # ---- break: the same changes hidden behind the refactorings of the second hardening pass (helpers that build and return the dictionary / the arrays,
    #      while / zip loops, module-level and integer-key tables)
    ("C03", "break", ["C03-R4"], S) + _HELPER_RESP_SHORT_T + ("response dictionary built in a helper: time vector one sample short",),
    ("C03", "break", ["C03-R4"], S) + _HELPER_RESP_DIMS + ("response dictionary built in a helper: residual history allocated for the total window",),
    ("C03", "break", ["C03-R3"], S) + _LOOPS_SWAPPED + ("lfilter(a, b, ...) inside a counted while loop",),
    ("C03", "break", ["C03-R4"], S) + _LOOPS_START + ("peak taken from row M inside a counted while loop",),
    ("C03", "break", ["C03-R4"], S) + _TABLES_S + ("window start table: total starts at M",),
    ("C03", "break", ["C03-R4"], S) + _TABLES_CODES + ("module-level time-code table: total and residual swapped",),
    ("C03", "break", ["C03-R1"], S) + _ELEMENT_STORES_WRONG + ("coefficient array filled element by element in a helper: beta1 and beta2 swapped",),
    ("C03", "break", ["C03-R7"], S, _TAIL, _TAIL_INCREMENTAL.replace('        if eqsine:\n            resp["hist"] /= Q\n', ""), "result tuple assembled incrementally: history not divided by Q"),
    ("C03", "break", ["C03-R4"], S, _TAIL, _TAIL_CONCAT.replace("return (SRSmax,) + extra", "return extra + (SRSmax,)"), "result tuple concatenated in the wrong order"),
    ("C03", "break", ["C03-R3"], S, _WORKER_IC_BODY, _WORKER_IC_COMMON.replace("resphist += ICVALS_ / w\n", "resphist += ICVALS_ / w ** 2\n"),
     "worker body in a common helper that reads the worker globals: pvelo add-back divided by wn^2"),
    ("C03", "break", ["C03-R4"], S) + _ALLOC_HELPER_DIMS + ("arrays allocated by a helper used twice: residual history allocated for the total window",),
    # ---- neutral: refactorings the value-level rules must not notice
    ("C03", "neutral", [], S, _PAD_HEAD, _PAD_HEAD_MASK, "lowest non-zero frequency through a boolean mask"),
    ("C03", "neutral", [], S, "    S = M if ptr == 2 else 0\n", '    S = 0\n    if time == "residual":\n        S = M\n', "window start decided on the option string"),
    ("C03", "neutral", [], S, '            resp["t"] = np.arange(M, N) / sr', '            resp["t"] = np.arange(M, N) * (1 / sr)', "time vector times the step"),
    ("C03", "neutral", [], S, _TAIL, _TAIL_RESTRUCTURED, "eqsine tail restructured, plain division"),
    ("C03", "neutral", [], S, "        b = np.array([beta0, beta1, beta2])\n    a = np.array([1, -2 * C, E2])\n    return b, a\n\n\ndef relacce",
     "        b = (beta0, beta1, beta2)\n    return np.asarray(b), np.asarray((1, -2 * C, E2))\n\n\ndef relacce", "absacce returns np.asarray of tuples"),
    ("C03", "neutral", [], S, "        resphist += ICVALS_ / WN_[j] ** 2\n    elif stype == \"pvelo\":\n        resphist += ICVALS_ / WN_[j]\n    else:\n        # stype == 'pacce' or 'absacce'\n        resphist += ICVALS_\n    SRSmax_[j] = methfunc(resphist[S:])\n    HIST_",
     "        w = WN_[j]\n        resphist = resphist + ICVALS_ / (w * w)\n    elif stype in (\"pacce\", \"absacce\"):\n        resphist += ICVALS_\n    else:\n        resphist += ICVALS_ / WN_[j]\n    SRSmax_[j] = methfunc(resphist[S:])\n    HIST_",
     "worker add-back arms reordered, membership test, plain addition"),
    # second hardening pass
    ("C03", "neutral", [], S) + _HELPER_RESP + ("response dictionary built under another name in a helper that returns it (or the shared buffer)",),
    ("C03", "neutral", [], S, _GETRESP_BLOCK, _GETRESP_LITERAL, "response dictionary as a display / dict(...) call, window start selected by tuple index"),
    ("C03", "neutral", [], S, _TAIL, _TAIL_INCREMENTAL, "result tuple assembled incrementally (+=), returned whole or by index"),
    ("C03", "neutral", [], S, _TAIL, _TAIL_CONCAT, "result tuple concatenated from displays"),
    ("C03", "neutral", [], S) + _LOOPS + ("serial loops as a counted while loop and as a zip over (range, wn)",),
    ("C03", "neutral", [], S) + _TABLES + ("module-level dict(...) table, integer- and bool-key tables, dict(zip(...)), list indexed by 0 / 1",),
    ("C03", "neutral", [], S) + _TRY_LOOKUP + ("table look-ups through a helper with try / except KeyError",),
    ("C03", "neutral", [], S) + _ELEMENT_STORES + ("coefficient arrays filled element by element in a helper that returns them",),
    ("C03", "neutral", [], S, _WORKER_IC_BODY, _WORKER_IC_COMMON, "worker body moved into a common helper that reads the worker globals, flags as arguments"),
    ("C03", "neutral", [], S) + _ALLOC_HELPER + ("spectrum and history arrays allocated and zeroed by one helper (a local array returned twice)",),
    ("C03", "neutral", [], S, _VRS_TAIL, _VRS_TAIL_INCREMENTAL, "vrs: counted while loop, result tuple assembled incrementally, dict(...) response"),
]


# ------------------------------------------------------------------------------------------------------------------------------------------------
# third pass: srs_frf (C03-R9) and the vrs quadrature weights / return forms (C03-R6)
_FRF_ABS = "    nfrf = frf.shape[1]\n    frf = np.abs(frf)\n"
_FRF_INTERP = '''        ifunc = interp.interp1d(
            frf_frq, frf, axis=0, bounds_error=False, fill_value=0, assume_sorted=True
        )
        frf = ifunc(ffreq)
'''
_FRF_H = '''        if el:
            fw = freqw.reshape(1, -1)
            H = (
                ks[pvel].reshape(-1, 1)
                - ms[pvel].reshape(-1, 1) @ fw**2
                + 1j * (bs[pvel].reshape(-1, 1) @ fw)
            )
'''
_FRF_H_EXPR = '''            H = (
                ks[pvel].reshape(-1, 1)
                - ms[pvel].reshape(-1, 1) @ fw**2
                + 1j * (bs[pvel].reshape(-1, 1) @ fw)
            )
'''
_FRF_LOOP_BODY = '''            a[:] = 0.0
            fs = frf[:, j]  # len(frf)
            if rb:
                a[pvrb] = -fs  # / ms ... since ms == 1
            if el:
                a[pvel] = (fs * freqw**2) / H
            # from relative to absolute acceleration:
            a += fs
'''
_FRF_LOOP = '''        for j in range(nfrf):
            # compute relative response, then absolute (see eqns in srs)
''' + _FRF_LOOP_BODY + '''            if getresp:
                frfs[:, j, :] = a.T
            shk[:, j] = abs(a).max(axis=1)
'''
_FRF_TAIL = '''        if getresp:
            resp = {"freq": ffreq, "frfs": frfs, "srs_frq": srs_frq}
            if return_srs_frq:
                return shk, srs_frq, resp
            return shk, resp

    if return_srs_frq:
        return shk, srs_frq
    return shk
'''
_FRF_THIN = '''        df = np.diff(ffreq)
        pv = np.ones(len(ffreq), bool)
        pv[1:] = df > 1.0e-5
        ffreq = ffreq[pv]
'''
_FRF_DEFAULT = "        if scale_by_Q_only:\n            srs_frq = frf_frq\n        else:\n            srs_frq = frf_frq / p_peak\n"
_FRF_SEED_H = _multi((_FRF_ABS, "    nfrf = frf.shape[1]\n"), ("        newfrf = np.zeros((nf, nfrf), float)\n", "        newfrf = np.zeros((nf, nfrf), frf.dtype)\n"),
                     ("        frf = ifunc(ffreq)\n", "        frf = ifunc(ffreq)\n\n    # only the magnitude of the (expanded) input is needed from here on:\n    frf = np.abs(frf)\n"))
_FRF_OWN_MAGNITUDE = '''        if not getresp:
            # only the gain |H| is needed
            gain = np.zeros((n, nf))
            if el:
                kk = ks[pvel].reshape(-1, 1)
                cw = bs[pvel].reshape(-1, 1) * freqw
                gain[pvel] = np.sqrt((kk**2 + cw**2) / ((kk - freqw**2) ** 2 + cw**2))
            for j in range(nfrf):
                shk[:, j] = (gain * frf[:, j]).max(axis=1)
        else:
            for j in range(nfrf):
                a[:] = 0.0
                fs = frf[:, j]
                if rb:
                    a[pvrb] = -fs
                if el:
                    a[pvel] = (fs * freqw**2) / H
                a += fs
                frfs[:, j, :] = a.T
                shk[:, j] = abs(a).max(axis=1)
'''
_FRF_OWN_WHERE = _multi((_FRF_H, "        fw = freqw.reshape(1, -1)\n        H = ks.reshape(-1, 1) - fw**2 + 1j * (bs.reshape(-1, 1) @ fw)\n"),
                        (_FRF_LOOP, '''        for j in range(nfrf):
            fs = frf[:, j]
            a = np.where(pvrb[:, None], 0.0, fs * (freqw**2 / H + 1.0))
            if getresp:
                frfs[:, j, :] = a.T
            shk[:, j] = abs(a).max(axis=1)
'''))
_FRF_OWN_ALL = '''        # all FRFs at once: (oscillator, frequency, frf)
        a3 = np.zeros((n, nf, nfrf), complex)
        if el:
            a3[pvel] = (freqw**2 / H)[:, :, None] * frf[None, :, :]
        if rb:
            a3[pvrb] = -frf[None, :, :]
        a3 = a3 + frf[None, :, :]
        shk[:] = abs(a3).max(axis=1)
        if getresp:
            frfs = a3.transpose(1, 2, 0)
'''
_FRF_OWN_OSC = _multi((_FRF_H, ""), (_FRF_LOOP, '''        for k in range(n):
            if ks[k] < 0.005:
                resp_k = np.zeros((nf, nfrf), complex)
            else:
                Hk = ks[k] - freqw**2 + 1j * (bs[k] * freqw)
                resp_k = frf * (freqw**2 / Hk + 1.0)[:, None]
            if getresp:
                frfs[:, :, k] = resp_k
            shk[k] = abs(resp_k).max(axis=0)
'''))
_FRF_H_ALWAYS = '''        fw = freqw.reshape(1, -1)
        H = (
            ks[pvel].reshape(-1, 1)
            - ms[pvel].reshape(-1, 1) @ fw**2
            + 1j * (bs[pvel].reshape(-1, 1) @ fw)
        )
'''
_FRF_OWN_NOTESTS = _multi((_FRF_H, _FRF_H_ALWAYS), (_FRF_LOOP, '''        for j in range(nfrf):
            fs = frf[:, j]
            a[:] = fs
            a[pvrb] = 0.0
            a[pvel] += (fs * freqw**2) / H
            if getresp:
                frfs[:, j, :] = a.T
            shk[:, j] = abs(a).max(axis=1)
'''))
_FRF_HELPERS = '''

def _frf_peak_ratio(Q):
    # maximizing Omega / omega_n ratio (see math in srs_frf docstr)
    return Q * np.sqrt(np.sqrt(1 + 2 / Q**2) - 1)


def _frf_grid(frf_frq, srs_frq, p_peak):
    grid = np.sort(np.hstack((frf_frq, p_peak * srs_frq)))
    keep = np.ones(len(grid), bool)
    keep[1:] = np.diff(grid) > 1.0e-5
    return grid[keep]


def _frf_expand(mag, frf_frq, grid):
    if len(frf_frq) != 1:
        return interp.interp1d(
            frf_frq, mag, axis=0, bounds_error=False, fill_value=0, assume_sorted=True
        )(grid)
    out = np.zeros((len(grid), mag.shape[1]), float)
    row = min(np.searchsorted(grid, frf_frq)[0], len(grid) - 1)
    out[row] = mag
    return out


def _frf_sdof(fs, omega, ks, bs, out):
    stiff = ks >= 0.005
    out[:] = 0.0
    if np.any(stiff):
        den = ks[stiff][:, None] - omega**2 + 1j * bs[stiff][:, None] * omega
        out[stiff] = fs * omega**2 / den
    if not np.all(stiff):
        out[~stiff] = -fs
    out += fs
    return out
'''
_FRF_HELPER_BODY = '''    if getresp and scale_by_Q_only:
        raise ValueError("`getresp` and `scale_by_Q_only` cannot both be True")

    p_peak = _frf_peak_ratio(Q)
    frf_frq = np.asarray(frf_frq)
    if return_srs_frq is None:
        return_srs_frq = srs_frq is None
    if srs_frq is None:
        srs_frq = frf_frq if scale_by_Q_only else frf_frq / p_peak
    else:
        srs_frq = np.asarray(srs_frq)

    mag = np.abs(np.asarray(frf))
    if mag.ndim == 1:
        mag = mag.reshape(-1, 1)
    nfrf = mag.shape[1]
    n = len(srs_frq)

    if scale_by_Q_only:
        shk = Q * _frf_expand(mag, frf_frq, srs_frq)
        return (shk, srs_frq) if return_srs_frq else shk

    ffreq = _frf_grid(frf_frq, srs_frq, p_peak)
    nf = len(ffreq)
    mag = _frf_expand(mag, frf_frq, ffreq)
    ws = 2.0 * np.pi * srs_frq
    omega = 2 * np.pi * ffreq
    shk = np.empty((n, nfrf), float)
    a = np.empty((n, nf), complex)
    frfs = np.empty((nf, nfrf, n), complex) if getresp else None
    for j in range(nfrf):
        _frf_sdof(mag[:, j], omega, ws**2, ws / Q, a)
        if getresp:
            frfs[:, j, :] = a.T
        shk[:, j] = abs(a).max(axis=1)

    result = (shk,)
    if return_srs_frq:
        result = result + (srs_frq,)
    if getresp:
        result = result + ({"freq": ffreq, "frfs": frfs, "srs_frq": srs_frq},)
    return result[0] if len(result) == 1 else result
'''


def _frf_body():
    """(old, new): the whole body of srs_frf replaced by a version built from four module-level helpers (defined after it)"""
    import os
    from . import core
    try:
        src = open(os.path.join(core.REPO, S)).read()
        i0 = src.index("    if getresp and scale_by_Q_only:\n        raise ValueError(\"`getresp` and `scale_by_Q_only` cannot both be True\")\n")
        i1 = src.index("\n\ndef srsmap(")
    except (OSError, ValueError):
        return "<srs_frf body not found>", ""
    return src[i0:i1 + 1], _FRF_HELPER_BODY + _FRF_HELPERS


_FRF_OWN_HELPERS = _frf_body()
_FRF_OWN_HELPERS_BAD = (_FRF_OWN_HELPERS[0], _FRF_OWN_HELPERS[1].replace("    out += fs\n", ""))
_VRS_DF = '''    # Create delta_f for area calculation:
    df = np.empty(rf)
    df[1:-1] = (freq[2:] - freq[:-2]) / 2
    df[0] = freq[1] - freq[0]
    df[-1] = freq[-1] - freq[-2]
'''
R9, R6 = ["C03-R9"], ["C03-R6"]

RECIPES += [
    # ---- break: the seed of this pass (H) and its siblings
    ("C03", "break", R9, S) + _FRF_SEED_H + ("srs_frf: magnitude taken after the expansion onto the analysis grid (seed H)",),
    ("C03", "break", R9, S, _FRF_ABS, "    nfrf = frf.shape[1]\n", "srs_frf: complex FRF interpolated and used as it is (no magnitude)"),
    ("C03", "break", R9, S, "    frf = np.abs(frf)\n", "    frf = np.abs(frf.real)\n", "srs_frf: magnitude of the real part only"),
    ("C03", "break", R9, S, "        bs = 1 / Q * ws\n", "        bs = 2 / Q * ws\n", "srs_frf: damping term doubled"),
    ("C03", "break", R9, S, "        ks = ws**2\n", "        ks = ws\n", "srs_frf: stiffness not squared"),
    ("C03", "break", R9, S, "    p_peak = Q * np.sqrt(np.sqrt(1 + 2 / Q**2) - 1)\n", "    p_peak = Q * np.sqrt(np.sqrt(1 + 1 / Q**2) - 1)\n", "srs_frf: p_peak is not the maximiser of |H|"),
    ("C03", "break", R9, S, "            a += fs\n", "            pass\n", "srs_frf: relative instead of absolute acceleration"),
    ("C03", "break", R9, S, "            shk[:, j] = abs(a).max(axis=1)\n", "            shk[:, j] = abs(a).max(axis=0)\n", "srs_frf: peak over the oscillators instead of over the grid"),
    ("C03", "break", R9, S, "            shk[:, j] = abs(a).max(axis=1)\n", "            shk[:, j] = abs(a.real).max(axis=1)\n", "srs_frf: peak of the real part of the response"),
    ("C03", "break", R9, S, "        shk = frf * Q\n", "        shk = frf * np.sqrt(Q**2 + 1)\n", "srs_frf: scale_by_Q_only scales by sqrt(Q^2+1)"),
    ("C03", "break", R9, S, "    if scale_by_Q_only:\n        ffreq = srs_frq\n", "    if scale_by_Q_only:\n        ffreq = p_peak * srs_frq\n", "srs_frf: scale_by_Q_only evaluated off the oscillator frequencies"),
    ("C03", "break", R9, S, "            srs_frq = frf_frq / p_peak\n", "            srs_frq = frf_frq * p_peak\n", "srs_frf: default oscillator frequencies frf_frq * p_peak"),
    ("C03", "break", R9, S, _FRF_DEFAULT, _FRF_DEFAULT.replace("if scale_by_Q_only:", "if not scale_by_Q_only:"), "srs_frf: default oscillator frequencies of the two modes swapped"),
    ("C03", "break", R9, S, "        ffreq = np.sort(np.hstack((frf_frq, p_peak * srs_frq)))\n", "        ffreq = np.sort(np.hstack((frf_frq, srs_frq)))\n", "srs_frf: grid without the maximising frequencies"),
    ("C03", "break", R9, S, "        ffreq = np.sort(np.hstack((frf_frq, p_peak * srs_frq)))\n", "        ffreq = np.sort(p_peak * srs_frq)\n", "srs_frf: grid without the FRF frequencies"),
    ("C03", "break", R9, S, "        if return_srs_frq is None:\n            return_srs_frq = True\n", "        if return_srs_frq is None:\n            return_srs_frq = False\n",
     "srs_frf: srs_frq not returned by default when it was None"),
    ("C03", "break", R9, S, "                a[pvrb] = -fs  # / ms ... since ms == 1\n", "                a[pvrb] = fs  # / ms ... since ms == 1\n", "srs_frf: rigid oscillators respond with 2 * frf"),
    ("C03", "break", R9, S, "        pvrb = ks < 0.005  # ks/ms < .005 ... since ms == 1\n", "        pvrb = ks > 0.005  # ks/ms < .005 ... since ms == 1\n", "srs_frf: rigid / elastic test inverted"),
    ("C03", "break", R9, S, "        el = np.any(pvel)\n", "        el = np.all(pvel)\n", "srs_frf: elastic oscillators only handled when there is no rigid one (np.all)"),
    ("C03", "break", R9, S, "            if el:\n                a[pvel] = (fs * freqw**2) / H\n", "            elif el:\n                a[pvel] = (fs * freqw**2) / H\n",
     "srs_frf: rigid and elastic stores made exclusive (elif)"),
    ("C03", "break", R9, S, '            resp = {"freq": ffreq, "frfs": frfs, "srs_frq": srs_frq}\n', '            resp = {"freq": frf_frq, "frfs": frfs, "srs_frq": srs_frq}\n', "srs_frf: resp['freq'] is not the analysis grid"),
    ("C03", "break", R9, S, "                frfs[:, j, :] = a.T\n", "                frfs[:, j, :] = abs(a.T)\n", "srs_frf: resp['frfs'] holds magnitudes"),
    ("C03", "break", R9, S, "                + 1j * (bs[pvel].reshape(-1, 1) @ fw)\n", "                - 1j * (bs[pvel].reshape(-1, 1) @ fw)\n", "srs_frf: transfer function conjugated (resp['frfs'])"),
    ("C03", "break", R9, S, "                a[pvel] = (fs * freqw**2) / H\n", "                a[pvel] = (fs * freqw) / H\n", "srs_frf: numerator Omega instead of Omega^2"),
    ("C03", "break", R9, S, "        freqw = 2 * np.pi * ffreq\n", "        freqw = ffreq\n", "srs_frf: forcing frequency in Hz against oscillator frequency in rad/s"),
    ("C03", "break", R9, S, "                return shk, srs_frq, resp\n", "                return shk, resp, srs_frq\n", "srs_frf: return tuple in the wrong order"),
    ("C03", "break", R9, S, "            frf_frq, frf, axis=0, bounds_error=False, fill_value=0, assume_sorted=True\n", "            srs_frq, frf, axis=0, bounds_error=False, fill_value=0, assume_sorted=True\n",
     "srs_frf: FRF interpolated from the wrong abscissae"),
    ("C03", "break", R9, S, _FRF_LOOP, _FRF_OWN_MAGNITUDE.replace("((kk - freqw**2) ** 2 + cw**2)", "((kk - freqw**2) ** 2 - cw**2)"), "srs_frf: magnitude-only path with a wrong gain"),
    ("C03", "break", R9, S, _FRF_INTERP, "        frf = np.column_stack(\n            [np.abs(np.interp(ffreq, frf_frq, frf[:, k].real, left=0.0, right=0.0)) for k in range(nfrf)]\n        )\n",
     "srs_frf: np.interp per column on the real part"),
    ("C03", "break", R9, S) + (_FRF_OWN_OSC[0], _FRF_OWN_OSC[1].replace("if ks[k] < 0.005:", "if ks[k] > 0.005:")) + ("srs_frf: loop over oscillators, rigid test inverted",),
    ("C03", "break", R9, S) + (_FRF_OWN_WHERE[0], _FRF_OWN_WHERE[1].replace("np.where(pvrb[:, None], 0.0, fs * (freqw**2 / H + 1.0))", "np.where(pvrb[:, None], fs * (freqw**2 / H + 1.0), 0.0)"))
    + ("srs_frf: np.where assembly with the arms swapped",),
    ("C03", "break", R9, S) + _FRF_OWN_HELPERS_BAD + ("srs_frf built from helpers: the response helper returns the relative acceleration",),
    ("C03", "break", R6, S, "    df[1:-1] = (freq[2:] - freq[:-2]) / 2\n", "    df[1:-1] = (freq[2:] - freq[:-2]) * 2\n", "vrs: interior quadrature weight four times the step"),
    ("C03", "break", R6, S, "    df[1:-1] = (freq[2:] - freq[:-2]) / 2\n", "    df[1:-1] = freq[2:] - freq[:-2]\n", "vrs: interior quadrature weight twice the step"),
    ("C03", "break", R6, S, "    df[0] = freq[1] - freq[0]\n", "    df[0] = freq[2] - freq[0]\n", "vrs: first quadrature weight two steps"),
    ("C03", "break", R6, S, "    # Compute Miles' equation\n", "    df[-1] = freq[-2] - freq[-1]\n    # Compute Miles' equation\n", "vrs: last quadrature weight negative"),
    ("C03", "break", R6, S, '        resp["f"] = freq\n', '        resp["f"] = Fn\n', "vrs: resp['f'] is not the grid of the responses"),
    ("C03", "break", R6, S, "    if getmiles:\n        return z_vrs, z_miles\n    return z_vrs\n", "    if getmiles:\n        return z_vrs, z_miles\n    return (z_vrs,)\n", "vrs: the spectrum alone returned as a tuple"),
    # ---- neutral: refactorings of srs_frf / vrs the rules must not notice
    ("C03", "neutral", [], S, "    frf = np.asarray(frf)\n    if frf.ndim == 1:\n        frf = frf.reshape(-1, 1)\n" + _FRF_ABS,
     "    frf = np.abs(np.asarray(frf))\n    if frf.ndim == 1:\n        frf = frf[:, np.newaxis]\n    nfrf = frf.shape[1]\n", "srs_frf: magnitude taken at np.asarray"),
    ("C03", "neutral", [], S, "    frf = np.abs(frf)\n", "    frf = np.hypot(frf.real, frf.imag)\n", "srs_frf: magnitude as hypot(re, im)"),
    ("C03", "neutral", [], S, "    frf = np.abs(frf)\n", "    frf = np.sqrt(frf.real**2 + frf.imag**2)\n", "srs_frf: magnitude as sqrt(re^2 + im^2)"),
    ("C03", "neutral", [], S, "        bs = 1 / Q * ws\n", "        zeta = 1 / (2 * Q)\n        bs = 2 * zeta * ws\n", "srs_frf: damping through zeta"),
    ("C03", "neutral", [], S, "    p_peak = Q * np.sqrt(np.sqrt(1 + 2 / Q**2) - 1)\n", "    zeta_ = 0.5 / Q\n    p_peak = np.sqrt(np.sqrt(1 + 8 * zeta_**2) - 1) / (2 * zeta_)\n",
     "srs_frf: p_peak in the docstring's zeta form"),
    ("C03", "neutral", [], S, _FRF_H_EXPR, "            H = ks[pvel][:, None] - fw**2 + 1j * bs[pvel][:, None] * fw\n", "srs_frf: H by broadcasting, unit masses dropped"),
    ("C03", "neutral", [], S, _FRF_H_EXPR, "            H = ks[pvel].reshape(-1, 1) - np.outer(ms[pvel], freqw**2) + 1j * np.outer(bs[pvel], freqw)\n", "srs_frf: H with np.outer"),
    ("C03", "neutral", [], S, "            shk[:, j] = abs(a).max(axis=1)\n", "            shk[:, j] = np.amax(np.absolute(a), 1)\n", "srs_frf: peak as np.amax(np.absolute(a), 1)"),
    ("C03", "neutral", [], S, _FRF_LOOP_BODY, "            a[:] = 0.0\n            fs = frf[:, j]  # len(frf)\n            if el:\n                a[pvel] = fs * (freqw**2 / H + 1.0)\n",
     "srs_frf: absolute response assembled in one store"),
    ("C03", "neutral", [], S, _FRF_LOOP_BODY, "            fs = frf[:, j]\n            a = np.zeros((n, nf), complex)\n            if rb:\n                a[pvrb] = -fs\n            if el:\n"
                                              "                a[pvel] = (fs * freqw**2) / H\n            a = a + fs\n", "srs_frf: fresh response array per FRF"),
    ("C03", "neutral", [], S, "        pvrb = ks < 0.005  # ks/ms < .005 ... since ms == 1\n        pvel = np.logical_not(pvrb)\n", "        pvel = ks >= 0.005\n        pvrb = ~pvel\n",
     "srs_frf: elastic mask first"),
    ("C03", "neutral", [], S, "        rb = np.any(pvrb)\n        el = np.any(pvel)\n", "        rb = pvrb.any()\n        el = bool(np.count_nonzero(pvel) > 0)\n", "srs_frf: any() as method / count"),
    ("C03", "neutral", [], S, _FRF_TAIL, '''        if getresp:
            resp = dict(freq=ffreq, frfs=frfs, srs_frq=srs_frq)

    out = (shk,)
    if return_srs_frq:
        out += (srs_frq,)
    if getresp:
        out += (resp,)
    return out if len(out) > 1 else out[0]
''', "srs_frf: result tuple assembled incrementally"),
    ("C03", "neutral", [], S, _FRF_TAIL, '''    if getresp:
        resp = {"freq": ffreq, "frfs": frfs, "srs_frq": srs_frq}
        return (shk, srs_frq, resp) if return_srs_frq else (shk, resp)
    return (shk, srs_frq) if return_srs_frq else shk
''', "srs_frf: returns as conditional expressions"),
    ("C03", "neutral", [], S, _FRF_THIN, "        ffreq = ffreq[np.r_[True, np.diff(ffreq) > 1.0e-5]]\n", "srs_frf: near-duplicates removed with an np.r_ mask"),
    ("C03", "neutral", [], S, "        ffreq = np.sort(np.hstack((frf_frq, p_peak * srs_frq)))\n", "        ffreq = np.concatenate((frf_frq, srs_frq * p_peak))\n        ffreq.sort()\n",
     "srs_frf: grid by concatenate and in-place sort"),
    ("C03", "neutral", [], S, _FRF_INTERP, "        frf = interp.interp1d(frf_frq, frf, axis=0, bounds_error=False, fill_value=0, assume_sorted=True)(ffreq)\n", "srs_frf: interpolant called directly"),
    ("C03", "neutral", [], S, _FRF_INTERP, _FRF_INTERP + "        frf = abs(frf)\n", "srs_frf: a second abs of the interpolated magnitudes"),
    ("C03", "neutral", [], S, _FRF_INTERP, "        frf = np.column_stack(\n            [np.interp(ffreq, frf_frq, frf[:, k], left=0.0, right=0.0) for k in range(nfrf)]\n        )\n",
     "srs_frf: np.interp per column in a comprehension"),
    ("C03", "neutral", [], S, _FRF_DEFAULT, "        srs_frq = frf_frq if scale_by_Q_only else frf_frq / p_peak\n", "srs_frf: default oscillator frequencies as a conditional expression"),
    ("C03", "neutral", [], S, _FRF_LOOP, _FRF_OWN_MAGNITUDE, "srs_frf: without getresp only the gain |H| is computed (real arithmetic; equal up to rounding)"),
    ("C03", "neutral", [], S) + _FRF_OWN_WHERE + ("srs_frf: response assembled with np.where over all oscillators",),
    ("C03", "neutral", [], S, _FRF_LOOP, _FRF_OWN_ALL, "srs_frf: all FRFs at once in a 3-D array"),
    ("C03", "neutral", [], S) + _FRF_OWN_OSC + ("srs_frf: loop over the oscillators instead of the FRFs",),
    ("C03", "neutral", [], S) + _FRF_OWN_NOTESTS + ("srs_frf: no rb / el tests, in-place update of the elastic rows",),
    ("C03", "neutral", [], S) + _FRF_OWN_HELPERS + ("srs_frf built from four module-level helpers (grid, expansion, response filled through a parameter)",),
    ("C03", "neutral", [], S, _FRF_INTERP, "        frf = psd.interp((frf_frq, frf), ffreq, linear=True)\n", "srs_frf: expansion through pyyeti.psd.interp (linear)"),
    ("C03", "neutral", [], S, "        pvrb = ks < 0.005  # ks/ms < .005 ... since ms == 1\n", "        pvrb = np.less(ws**2, 5.0e-3)\n", "srs_frf: rigid mask through np.less on ws**2"),
    ("C03", "neutral", [], S, _VRS_DF, "    # delta_f for area calculation (central differences, one-sided at the ends):\n    df = np.gradient(freq)\n", "vrs: quadrature weights as np.gradient(freq)"),
    ("C03", "neutral", [], S, _VRS_DF, "    # Create delta_f for area calculation:\n    steps = np.diff(freq)\n    df = np.empty(rf)\n    df[1:-1] = (steps[1:] + steps[:-1]) / 2\n    df[0] = steps[0]\n    df[-1] = steps[-1]\n",
     "vrs: quadrature weights from np.diff(freq)"),
]


# ---------------------------------------------------------------------------------------------------------------- pass 4
# effects the evaluator must follow (out=, .fill, np.copyto, views, in-place operators on aliases), function values (lambdas in tables, nested functions,
# functools.partial workers), tables built by comprehensions, match statements, keyword bundles, whole-array stores, vectorised vrs
_RELACCE_B = "    b = np.array([-1.0, 2.0, -1.0])\n    if wn != 0.0:\n        b *= (E * sin(B)) / B\n"
_ABSACCE_A = "        beta2 = E2 - Sb\n        b = np.array([beta0, beta1, beta2])\n    a = np.array([1, -2 * C, E2])\n"
_PACCE_B = ("        f = dT * wn\n        q = (2 * zeta * zeta - 1) / sqz\n        beta0 = ((1 - C) / Q - q * S - wn * dT) / f\n"
            "        beta1 = (2 * C * wn * dT - (1 - E2) / Q + 2 * q * S) / f\n        beta2 = (-E2 * (wn * dT + 1 / Q) + C / Q - q * S) / f\n"
            "        b = np.array([beta0, beta1, beta2])\n")
_PACCE_B_LOOP = _PACCE_B.replace("        b = np.array([beta0, beta1, beta2])\n",
                                 "        b = np.empty(3)\n        for k, beta in enumerate((beta0, beta1, beta2)):\n            b[k] = beta\n")
_IC_STEADY = '''    elif ic == "steady":
        sig = sig - s1
        if stype == "absacce":
            icvals = s1
            doic = 1
        elif stype == "relacce" or stype == "relvelo":
            pass
        else:
            # 'reldisp', 'pvelo' or 'pacce'
            icvals = -s1
            doic = 1
    return sig, s1, doic, icvals
'''
_IC_STEADY_UFUNC = '''    elif ic == "steady":
        sig = np.subtract(sig, s1)
        if stype not in ("relacce", "relvelo"):
            icvals = s1 if stype == "absacce" else np.negative(s1)
    doic = int(icvals is not None)
    return sig, s1, doic, icvals
'''
_IC_STEADY_TABLE = '''    elif ic == "steady":
        sig = sig - s1
        steady = {"absacce": (1, s1), "relacce": (0, None), "relvelo": (0, None)}
        doic, icvals = steady[stype] if stype in steady else (1, -s1)
    return sig, s1, doic, icvals
'''
_TAIL_DISPLAY_LOOP = '''    if eqsine:
        for arr in (SRSmax, resp["hist"]) if getresp else (SRSmax,):
            np.divide(arr, Q, out=arr)
    return (SRSmax, resp) if getresp else SRSmax
'''
_IC_SERIAL = '''            dT = 1 / sr
            for j in range(LF):
                b, a = coeffunc(Q, dT, wn[j])
                resphist = signal.lfilter(b, a, sig, axis=0)
                if stype == "reldisp":
                    resphist += icvals / wn[j] ** 2
                elif stype == "pvelo":
                    resphist += icvals / wn[j]
                else:
                    # stype == 'pacce' or 'absacce'
                    resphist += icvals
                SRSmax[j] = methfunc(resphist[S:])
                if getresp:
                    resp["hist"][:, :, j] = resphist[S:]
'''
_IC_SERIAL_CLOSURE = '''            dT = 1 / sr

            def one_frequency(j):
                b, a = coeffunc(Q, dT, wn[j])
                resphist = signal.lfilter(b, a, sig, axis=0)
                match stype:
                    case "reldisp":
                        resphist[...] += icvals / wn[j] ** 2
                    case "pvelo":
                        resphist[...] += icvals / wn[j]
                    case _:
                        resphist[...] += icvals
                SRSmax[j] = methfunc(resphist[S:])
                if getresp:
                    resp["hist"][:, :, j] = resphist[S:]

            for j in range(LF):
                one_frequency(j)
'''
_IC_SERIAL_LAMBDAS = '''            dT = 1 / sr
            offsets = {"reldisp": lambda w: icvals / w**2, "pvelo": lambda w: icvals / w}
            offset = offsets.get(stype, lambda w: icvals)
            for j, w in enumerate(wn):
                resphist = signal.lfilter(*coeffunc(Q, dT, w), sig, 0)
                resphist += offset(w)
                SRSmax[j] = methfunc(resphist[S:])
                if getresp:
                    resp["hist"][..., j] = resphist[S:]
'''
_SERIAL_PASS = '''def _serial_pass(SRSmax, hist, wn, *, coeffunc, Q, dT, sig, methfunc, S, offset=None):
    j = 0
    while j < len(wn):
        w = wn[j]
        b, a = coeffunc(Q, dT, w)
        resphist = signal.lfilter(b, a, sig, axis=0)
        if offset is not None:
            resphist += offset(w)
        window = resphist[S:]
        SRSmax[j] = methfunc(window)
        if hist is not None:
            hist[..., j] = window
        j += 1


def vrs('''
_IC_SERIAL_BUNDLE = '''            job = dict(coeffunc=coeffunc, Q=Q, dT=1 / sr, sig=sig, methfunc=methfunc, S=S)
            offsets = {"reldisp": lambda w: icvals / w**2, "pvelo": lambda w: icvals / w}
            job["offset"] = offsets.get(stype, lambda w: icvals)
            _serial_pass(SRSmax, resp["hist"] if getresp else None, wn, **job)
'''
_BUNDLE = _multi((_IC_SERIAL, _IC_SERIAL_BUNDLE), ("def vrs(", _SERIAL_PASS))
_BUNDLE_BAD = (_BUNDLE[0], _BUNDLE[1].replace('"pvelo": lambda w: icvals / w}', '"pvelo": lambda w: icvals / w**2}'))
_BUNDLE_BAD_WINDOW = (_BUNDLE[0], _BUNDLE[1].replace("            hist[..., j] = window\n", "            hist[..., j] = resphist\n"))
_WORKER_ADDBACK = '''    if stype == "reldisp":
        resphist += ICVALS_ / WN_[j] ** 2
    elif stype == "pvelo":
        resphist += ICVALS_ / WN_[j]
    else:
        # stype == 'pacce' or 'absacce'
        resphist += ICVALS_
    SRSmax_[j] = methfunc(resphist[S:])
    HIST_[:, :, j] = resphist[S:]
'''
_WORKER_DIVISOR = '''    divisor = _IC_DIVISOR.get(stype)
    resphist += ICVALS_ if divisor is None else ICVALS_ / divisor(WN_[j])
    SRSmax_[j] = methfunc(resphist[S:])
    HIST_[:, :, j] = resphist[S:]
'''
_DIVISOR_TABLE = '_IC_DIVISOR = {"reldisp": lambda w: w**2, "pvelo": lambda w: w}\n\n\ndef _process_inputs('
_WORKER_TABLE = _multi((_WORKER_ADDBACK, _WORKER_DIVISOR), ("def _process_inputs(", _DIVISOR_TABLE))
_WORKER_TABLE_BAD = (_WORKER_TABLE[0], _WORKER_TABLE[1].replace('"pvelo": lambda w: w}', '"pvelo": lambda w: w**2}'))
_WORKER_MATCH = '''    match stype:
        case "reldisp":
            resphist[:] = resphist + ICVALS_ / WN_[j] ** 2
        case "pvelo":
            resphist[:] = resphist + ICVALS_ / WN_[j]
        case "pacce" | "absacce":
            resphist[:] = resphist + ICVALS_
        case _:
            raise ValueError("no steady-state value for this response type")
    SRSmax_[j] = methfunc(resphist[S:])
    HIST_[:, :, j] = resphist[S:]
'''
_PAR_WORKER = '''def _par_worker(args, with_ic=False, with_hist=False):
    j, common = args
    coeffunc, Q, dT, methfunc, S = common[:5]
    b, a = coeffunc(Q, dT, WN_[j])
    resphist = signal.lfilter(b, a, SIG_, axis=0)
    if with_ic:
        stype = common[5]
        if stype == "reldisp":
            resphist += ICVALS_ / WN_[j] ** 2
        elif stype == "pvelo":
            resphist += ICVALS_ / WN_[j]
        else:
            resphist += ICVALS_
    SRSmax_[j] = methfunc(resphist[S:])
    if with_hist:
        HIST_[:, :, j] = resphist[S:]


def _process_inputs('''
_PARTIAL = _multi(("import itertools as it\n", "import itertools as it\nfrom functools import partial\n"), ("def _process_inputs(", _PAR_WORKER),
                  ("            func = _dosrs_ic if getresp else _dosrs_nohist_ic\n", "            func = partial(_par_worker, with_ic=True, with_hist=getresp)\n"),
                  ("            func = _dosrs if getresp else _dosrs_nohist\n", "            func = partial(_par_worker, with_hist=getresp)\n"))
_PARTIAL_NO_IC = (_PARTIAL[0], _PARTIAL[1].replace("partial(_par_worker, with_ic=True, with_hist=getresp)", "partial(_par_worker, with_hist=getresp)"))
_TIME_CODES = _multi(('    ptr = {"primary": 0, "total": 1, "residual": 2}\n', '    codes = {name: code for code, name in enumerate(("primary", "total", "residual"))}\n'),
                     ("    ptr = ptr[time]\n", "    ptr = codes[time]\n"))
_TIME_CODES_BAD = (_TIME_CODES[0], _TIME_CODES[1].replace('enumerate(("primary", "total", "residual"))', 'enumerate(("primary", "total", "residual"), 1)'))
_TIME_INDEX = _multi(('    ptr = {"primary": 0, "total": 1, "residual": 2}\n', ""), ("    ptr = ptr[time]\n", '    ptr = ("primary", "total", "residual").index(time)\n'))
_TIME_INDEX_BAD = (_TIME_INDEX[0], _TIME_INDEX[1].replace('("primary", "total", "residual").index(time)', '("primary", "residual", "total").index(time)'))
_COEF_NAMES = _multi(('''    coefs = {
        "absacce": absacce,
        "relacce": relacce,
        "reldisp": reldisp,
        "relvelo": relvelo,
        "pvelo": pvelo,
        "pacce": pacce,
    }
''', "    coefs = {func.__name__: func for func in (absacce, relacce, reldisp, relvelo, pvelo, pacce)}\n"))
_VRS_LOOPS = '''    if getresp:
        psd_vrs = np.empty((len(Fn), npsds, len(freq)))
        for i, fn in enumerate(Fn):
            p = freq / fn
            p2z2 = (2 * zeta * p) ** 2
            t = ((1 + p2z2) / ((1 - p**2) ** 2 + p2z2)) * psdfull.T
            psd_vrs[i] = t  # npsds x len(freq)
            z_vrs[i] = np.sqrt(np.sum(df * t, axis=1))
'''
_VRS_LOOPS_VIEWS = '''    if getresp:
        psd_vrs = np.empty((len(Fn), npsds, len(freq)))
        for z_row, psd_slab, fn in zip(z_vrs, psd_vrs, Fn):
            p = freq / fn
            p2z2 = np.square(2 * zeta * p)
            t = ((1 + p2z2) / (np.square(1 - np.square(p)) + p2z2)) * psdfull.T
            psd_slab[...] = t
            np.sqrt((df * t).sum(axis=1), out=z_row)
'''
_VRS_ALL = '''    # Compute VRS at each frequency
    z_vrs = np.empty((len(Fn), npsds))
    zeta = 1 / 2 / Q
''' + _VRS_LOOPS + '''        resp = {}
        resp["f"] = freq
        resp["psd"] = psd_vrs
        if PSD.ndim == 1:
            z_vrs = z_vrs.ravel()
        return z_vrs, z_miles, resp

    for i, fn in enumerate(Fn):
        p = freq / fn
        p2z2 = (2 * zeta * p) ** 2
        t = ((1 + p2z2) / ((1 - p**2) ** 2 + p2z2) * df) * psdfull.T
        z_vrs[i] = np.sqrt(np.sum(t, axis=1))

    if PSD.ndim == 1:
        z_vrs = z_vrs.ravel()
    if getmiles:
        return z_vrs, z_miles
    return z_vrs
'''
_VRS_VECTORISED = '''    # all oscillators at once; `p` is len(Fn) x len(freq)
    zeta = 1 / 2 / Q
    p = freq / Fn[:, None]
    p2z2 = (2 * zeta * p) ** 2
    trans = (1 + p2z2) / ((1 - p**2) ** 2 + p2z2)
    if getresp:
        psd_vrs = trans[:, None, :] * psdfull.T
        z_vrs = np.sqrt(np.sum(df * psd_vrs, axis=2))
    else:
        z_vrs = np.sqrt(np.sum((trans * df)[:, None, :] * psdfull.T, axis=2))
    if PSD.ndim == 1:
        z_vrs = z_vrs.ravel()
    result = (z_vrs,)
    if getresp or getmiles:
        result += (z_miles,)
    if getresp:
        result += (dict(f=freq, psd=psd_vrs),)
    return result if len(result) > 1 else z_vrs
'''
_FRF_EFFECTS = _multi(("            a[:] = 0.0\n", "            a.fill(0.0)\n"), ("            a += fs\n", "            np.add(a, fs, out=a)\n"),
                      ("                frfs[:, j, :] = a.T\n", "                np.copyto(frfs[:, j, :], a.T)\n"))
_FRF_EFFECTS_DROPPED = (_FRF_EFFECTS[0], _FRF_EFFECTS[1].replace("np.add(a, fs, out=a)", "np.add(a, fs)"))
_FRF_EFFECTS_SIGN = (_FRF_EFFECTS[0], _FRF_EFFECTS[1].replace("np.add(a, fs, out=a)", "np.subtract(a, fs, out=a)"))
_FRF_EFFECTS_ABS = (_FRF_EFFECTS[0], _FRF_EFFECTS[1].replace("np.copyto(frfs[:, j, :], a.T)", "np.copyto(frfs[:, j, :], abs(a.T))"))
_FRF_RETURN_LIST = '''    out = [shk]
    if return_srs_frq:
        out.append(srs_frq)
    if getresp:
        out.append({"freq": ffreq, "frfs": frfs, "srs_frq": srs_frq})
    if len(out) == 1:
        return shk
    return tuple(out)
'''
_FRF_TAIL_ALL = _FRF_TAIL

RECIPES += [
    ("C03", "neutral", [], S, _RELACCE_B, "    b = np.array((-1.0, 2.0, -1.0))\n    if wn != 0.0:\n        np.multiply(b, (E * sin(B)) / B, out=b)\n", "relacce: scaled through np.multiply(..., out=b)"),
    ("C03", "break", ["C03-R1"], S, _RELACCE_B, "    b = np.array((-1.0, 2.0, -1.0))\n    if wn != 0.0:\n        np.multiply(b, (E * cos(B)) / B, out=b)\n", "relacce: out= scaling with the cosine"),
    ("C03", "break", ["C03-R1"], S, _RELACCE_B, "    b = np.array((-1.0, 2.0, -1.0))\n    if wn != 0.0:\n        np.multiply(b, (E * sin(B)) / B)\n", "relacce: the scaled array is discarded (no out=)"),
    ("C03", "neutral", [], S, _RELACCE_B, "    scale = (E * sin(B)) / B if wn != 0.0 else 1.0\n    b = np.array([c * scale for c in (-1.0, 2.0, -1.0)])\n", "relacce: numerator by a comprehension over a display"),
    ("C03", "break", ["C03-R1"], S, _RELACCE_B, "    scale = (E * sin(B)) / B if wn != 0.0 else 1.0\n    b = np.array([c * scale for c in (-1.0, 2.0, 1.0)])\n", "relacce: comprehension over a wrong display"),
    ("C03", "neutral", [], S, _ABSACCE_A, "        beta2 = E2 - Sb\n        b = np.array([beta0, beta1, beta2])\n    a = np.empty(3)\n    a[0] = 1\n    a[1:] = (-2 * C, E2)\n", "absacce: denominator filled by an element store and a slice store"),
    ("C03", "break", ["C03-R1"], S, _ABSACCE_A, "        beta2 = E2 - Sb\n        b = np.array([beta0, beta1, beta2])\n    a = np.empty(3)\n    a[0] = 1\n    a[1:] = (E2, -2 * C)\n", "absacce: slice store in the wrong order"),
    ("C03", "neutral", [], S, _ABSACCE_A, "        beta2 = E2 - Sb\n        b = np.hstack((beta0, beta1, beta2))\n    a = np.r_[1.0, -2 * C, E2]\n", "absacce: np.hstack / np.r_ of the scalar coefficients"),
    ("C03", "neutral", [], S, _PACCE_B, _PACCE_B_LOOP, "pacce: numerator stored element by element in a loop over a display"),
    ("C03", "break", ["C03-R1"], S, _PACCE_B, _PACCE_B_LOOP.replace("b[k] = beta", "b[2 - k] = beta"), "pacce: loop stores in reverse order"),
    ("C03", "neutral", [], S, _IC_STEADY, _IC_STEADY_UFUNC, "_process_ic: np.subtract / np.negative, doic from `icvals is not None`"),
    ("C03", "break", ["C03-R3"], S, _IC_STEADY, _IC_STEADY_UFUNC.replace('s1 if stype == "absacce" else np.negative(s1)', 'np.negative(s1) if stype == "absacce" else s1'), "_process_ic: ufunc form with the signs exchanged"),
    ("C03", "neutral", [], S, _IC_STEADY, _IC_STEADY_TABLE, "_process_ic: (doic, icvals) from a table of displays, `in` on the table"),
    ("C03", "break", ["C03-R3"], S, _IC_STEADY, _IC_STEADY_TABLE.replace('"relacce": (0, None)', '"relacce": (1, s1)'), "_process_ic: table restores an offset for relacce"),
    ("C03", "neutral", [], S, "    S = M if ptr == 2 else 0\n", "    S = (0, 0, M)[ptr]\n", "srs: S from a display indexed by ptr"),
    ("C03", "break", ["C03-R4"], S, "    S = M if ptr == 2 else 0\n", "    S = (0, M, M)[ptr]\n", "srs: S display wrong for time='total'"),
    ("C03", "neutral", [], S, "    S = M if ptr == 2 else 0\n", "    S = M * (ptr == 2)\n", "srs: S by arithmetic on the truth value"),
    ("C03", "break", ["C03-R4"], S, "    S = M if ptr == 2 else 0\n", "    S = M * (ptr != 0)\n", "srs: S by arithmetic on the wrong truth value"),
    ("C03", "neutral", [], S, _TAIL, _TAIL_DISPLAY_LOOP, "srs: eqsine through np.divide(arr, Q, out=arr) in a loop over a display of the two arrays"),
    ("C03", "break", ["C03-R7"], S, _TAIL, _TAIL_DISPLAY_LOOP.replace('(SRSmax, resp["hist"]) if getresp else (SRSmax,)', "(SRSmax,)"), "srs: display loop forgets the history"),
    ("C03", "break", ["C03-R7"], S, _TAIL, _TAIL_DISPLAY_LOOP.replace("np.divide(arr, Q, out=arr)", "np.divide(arr, Q)"), "srs: eqsine division without out= (result discarded)"),
    ("C03", "break", ["C03-R7"], S, _TAIL, _TAIL_DISPLAY_LOOP.replace("np.divide(arr, Q, out=arr)", "np.multiply(arr, Q, out=arr)"), "srs: eqsine multiplies in place"),
    ("C03", "neutral", [], S, _IC_SERIAL, _IC_SERIAL_CLOSURE, "srs: serial add-back loop as a nested function with match / whole-array in-place updates"),
    ("C03", "break", ["C03-R3"], S, _IC_SERIAL, _IC_SERIAL_CLOSURE.replace('resphist[...] += icvals / wn[j]\n', 'resphist[...] += icvals / wn[j] ** 2\n'), "srs: nested function, pvelo case divides by wn^2"),
    ("C03", "break", ["C03-R4"], S, _IC_SERIAL, _IC_SERIAL_CLOSURE.replace('resp["hist"][:, :, j] = resphist[S:]', 'resp["hist"][:, :, j] = resphist[M:]'), "srs: nested function stores another window"),
    ("C03", "neutral", [], S, _IC_SERIAL, _IC_SERIAL_LAMBDAS, "srs: add-back from a table of lambdas closing over icvals; lfilter(*coeffunc(...), sig, 0)"),
    ("C03", "break", ["C03-R3"], S, _IC_SERIAL, _IC_SERIAL_LAMBDAS.replace('"reldisp": lambda w: icvals / w**2', '"reldisp": lambda w: icvals / w'), "srs: lambda table, reldisp divides by wn"),
    ("C03", "neutral", [], S) + _BUNDLE + ("srs: serial pass in a helper called with a keyword bundle (**job) and an offset lambda; counted while loop",),
    ("C03", "break", ["C03-R3"], S) + _BUNDLE_BAD + ("srs: keyword bundle, pvelo offset divides by wn^2",),
    ("C03", "break", ["C03-R4"], S) + _BUNDLE_BAD_WINDOW + ("srs: keyword-bundle helper stores the whole response",),
    ("C03", "neutral", [], S) + _WORKER_TABLE + ("_dosrs_ic: add-back divisor from a module-level table of lambdas",),
    ("C03", "break", ["C03-R3"], S) + _WORKER_TABLE_BAD + ("_dosrs_ic: table of lambdas, pvelo divides by wn^2",),
    ("C03", "neutral", [], S, _WORKER_ADDBACK, _WORKER_MATCH, "_dosrs_ic: match statement with whole-array stores"),
    ("C03", "break", ["C03-R3"], S, _WORKER_ADDBACK, _WORKER_MATCH.replace("resphist + ICVALS_ / WN_[j]\n", "resphist - ICVALS_ / WN_[j]\n"), "_dosrs_ic: match statement, pvelo subtracts"),
    ("C03", "neutral", [], S) + _PARTIAL + ("srs: one worker specialised with functools.partial",),
    ("C03", "break", ["C03-R3"], S) + _PARTIAL_NO_IC + ("srs: partial worker without the add-back flag",),
    ("C03", "neutral", [], S) + _TIME_CODES + ("_process_inputs: time codes by a dict comprehension over enumerate",),
    ("C03", "break", ["C03-R4"], S) + _TIME_CODES_BAD + ("_process_inputs: enumerate starts at 1",),
    ("C03", "neutral", [], S) + _TIME_INDEX + ("_process_inputs: time code by display.index",),
    ("C03", "break", ["C03-R4"], S) + _TIME_INDEX_BAD + ("_process_inputs: display.index over a permuted display",),
    ("C03", "neutral", [], S) + _COEF_NAMES + ("_process_inputs: coefficient table keyed by func.__name__",),
    ("C03", "neutral", [], S, _VRS_LOOPS, _VRS_LOOPS_VIEWS, "vrs: loop over row / slab views, results written through out= and [...]"),
    ("C03", "break", ["C03-R6"], S, _VRS_LOOPS, _VRS_LOOPS_VIEWS.replace("np.sqrt((df * t).sum(axis=1), out=z_row)", "np.sqrt((2 * df * t).sum(axis=1), out=z_row)"), "vrs: view loop integrates with doubled weights"),
    ("C03", "break", ["C03-R6"], S, _VRS_LOOPS, _VRS_LOOPS_VIEWS.replace("psd_slab[...] = t", "psd_slab[...] = t * df"), "vrs: view loop stores the weighted response PSD"),
    ("C03", "neutral", [], S, _VRS_ALL, _VRS_VECTORISED, "vrs: all oscillators at once by broadcasting"),
    ("C03", "break", ["C03-R6"], S, _VRS_ALL, _VRS_VECTORISED.replace("((1 - p**2) ** 2 + p2z2)", "((1 - p**2) ** 2 - p2z2)"), "vrs: broadcast form with a wrong transmissibility"),
    ("C03", "break", ["C03-R6"], S, _VRS_ALL, _VRS_VECTORISED.replace("(trans * df)[:, None, :]", "(trans * df * df)[:, None, :]"), "vrs: broadcast form with squared weights"),
    ("C03", "neutral", [], S) + _FRF_EFFECTS + ("srs_frf: a.fill / np.add(out=) / np.copyto into a slab",),
    ("C03", "break", ["C03-R9"], S) + _FRF_EFFECTS_DROPPED + ("srs_frf: np.add without out= (relative response kept)",),
    ("C03", "break", ["C03-R9"], S) + _FRF_EFFECTS_SIGN + ("srs_frf: np.subtract(out=) instead of add",),
    ("C03", "break", ["C03-R9"], S) + _FRF_EFFECTS_ABS + ("srs_frf: np.copyto stores magnitudes in resp['frfs']",),
    ("C03", "neutral", [], S, _FRF_TAIL_ALL, _FRF_RETURN_LIST, "srs_frf: result assembled in a list with append"),
    ("C03", "break", ["C03-R9"], S, _FRF_TAIL_ALL, _FRF_RETURN_LIST.replace("    if return_srs_frq:\n        out.append(srs_frq)\n", "").replace("    if len(out) == 1:", "    if return_srs_frq:\n        out.append(srs_frq)\n    if len(out) == 1:"), "srs_frf: list assembled in the wrong order"),
    ("C03", "neutral", [], S, "def _rmsmeth(resp):\n    return np.sqrt((resp**2).mean(axis=0))\n", "def _rmsmeth(resp):\n    nsteps = resp.shape[0]\n    return np.sqrt(np.sum(np.square(resp), axis=0) / nsteps)\n", "_rmsmeth: sum of np.square over the number of rows"),
    ("C03", "break", ["C03-R8"], S, "def _rmsmeth(resp):\n    return np.sqrt((resp**2).mean(axis=0))\n", "def _rmsmeth(resp):\n    nsteps = resp.shape[1]\n    return np.sqrt(np.sum(np.square(resp), axis=0) / nsteps)\n", "_rmsmeth: divided by the number of signals"),
    ("C03", "break", ["C03-R4"], S, _IC_SERIAL, _IC_SERIAL.replace('resp["hist"][:, :, j] = resphist[S:]', 'resp["hist"][:, :, j] = resphist[M:]'), "srs: steady-state branch stores the residual window only"),
    ("C03", "break", ["C03-R4"], S, _IC_SERIAL, _IC_SERIAL.replace("SRSmax[j] = methfunc(resphist[S:])", "SRSmax[j] = methfunc(resphist)"), "srs: steady-state branch takes the peak over the whole response"),
    ("C03", "neutral", [], S, "def _absmeth(resp):\n    return abs(resp).max(axis=0)\n", "def _absmeth(resp):\n    return np.fabs(resp).max(0)\n", "_absmeth: np.fabs, positional axis"),
    ("C03", "break", ["C03-R8"], S, "def _absmeth(resp):\n    return abs(resp).max(axis=0)\n", "def _absmeth(resp):\n    return np.fabs(resp).max(1)\n", "_absmeth: peak over the signals"),
]

# canonical forms of rows / reductions / allocations, windows taken before the offset is added, contraction forms of the vrs quadrature, string tests on options
_IC_HEAD = '''    s1 = sig[0]
    if ic == "shift":
        sig = sig - s1
    elif ic == "mshift":
        sig = sig - sig.mean(axis=0)
'''
_IC_HEAD_ROWS = '''    s1 = sig[0, :]
    if ic == "shift":
        sig = sig - sig[:1]
    elif ic == "mshift":
        sig = sig - sig.mean(axis=0, keepdims=True)
'''
_PAD_TAIL = '''        z = np.zeros((nzeros, H))
        if ic == "steady":
            sig = np.vstack((sig, z - s1))
        else:
            sig = np.vstack((sig, z))
'''
_PAD_TAIL_FULL = '''        if ic == "steady":
            pad = np.full((nzeros, H), 0.0) - s1
        else:
            pad = np.full((nzeros, H), 0.0)
        sig = np.vstack((sig, pad))
'''
_IC_SERIAL_WINDOW = '''            dT = 1 / sr
            for j in range(LF):
                b, a = coeffunc(Q, dT, wn[j])
                window = signal.lfilter(b, a, sig, axis=0)[S:, :]
                if stype == "reldisp":
                    window = window + icvals / wn[j] ** 2
                elif stype == "pvelo":
                    window = window + icvals / wn[j]
                else:
                    window = window + icvals
                SRSmax[j] = methfunc(window)
                if getresp:
                    resp["hist"][:, :, j] = window
'''
_RESID_T = '''        if ptr == 2:
            # residual
            resp["t"] = np.arange(M, N) / sr
'''
_VRS_NOHIST = "        t = ((1 + p2z2) / ((1 - p**2) ** 2 + p2z2) * df) * psdfull.T\n        z_vrs[i] = np.sqrt(np.sum(t, axis=1))\n"

RECIPES += [
    ("C03", "neutral", [], S, _IC_HEAD, _IC_HEAD_ROWS, "_process_ic: first row as sig[0, :] / sig[:1], mean with keepdims"),
    ("C03", "break", ["C03-R4"], S, _IC_HEAD, _IC_HEAD_ROWS.replace("sig = sig - sig[:1]", "sig = sig - sig[-1:]"), "_process_ic: 'shift' removes the last sample"),
    ("C03", "neutral", [], S, _PAD_TAIL, _PAD_TAIL_FULL, "_add_one_cycle: appended block through np.full"),
    ("C03", "break", ["C03-R4"], S, _PAD_TAIL, _PAD_TAIL_FULL.replace("np.full((nzeros, H), 0.0) - s1", "np.full((nzeros, H), 0.0) + s1"), "_add_one_cycle: np.full block with the offset added"),
    ("C03", "break", ["C03-R4"], S, _PAD_TAIL, _PAD_TAIL_FULL.replace("            pad = np.full((nzeros, H), 0.0)\n", "            pad = np.full((nzeros, H), 1.0)\n"), "_add_one_cycle: np.full block of ones"),
    ("C03", "neutral", [], S, _IC_SERIAL, _IC_SERIAL_WINDOW, "srs: the window is cut out of the filter output before the steady-state value is added"),
    ("C03", "break", ["C03-R3"], S, _IC_SERIAL, _IC_SERIAL_WINDOW.replace("window = window + icvals / wn[j]\n", "window = window - icvals / wn[j]\n"), "srs: window first, pvelo offset subtracted"),
    ("C03", "break", ["C03-R4"], S, _IC_SERIAL, _IC_SERIAL_WINDOW.replace("[S:, :]", "[M:, :]"), "srs: window first, cut at the end of the primary part"),
    ("C03", "neutral", [], S, _RESID_T, '        if 1 < ptr <= 2:\n            # residual\n            tall = np.arange(N) / sr\n            resp["t"] = tall[M:]\n', "srs: chained comparison on ptr, time vector as a slice of the full one"),
    ("C03", "break", ["C03-R4"], S, _RESID_T, '        if 1 < ptr <= 2:\n            # residual\n            tall = np.arange(N) / sr\n            resp["t"] = tall[M + 1:]\n', "srs: sliced time vector starts one sample late"),
    ("C03", "break", ["C03-R4"], S, _RESID_T, '        if 1 <= ptr <= 2:\n            # residual\n            resp["t"] = np.arange(M, N) / sr\n', "srs: chained comparison includes time='total'"),
    ("C03", "neutral", [], S, '        elif stype == "relacce" or stype == "relvelo":\n', '        elif stype.startswith("rel") and not stype.endswith("disp"):\n', "_process_ic: response types told apart by string methods"),
    ("C03", "break", ["C03-R3"], S, '        elif stype == "relacce" or stype == "relvelo":\n', '        elif stype.startswith("rel"):\n', "_process_ic: string test also catches reldisp"),
    ("C03", "neutral", [], S, "    if ptr:\n        sig, N = _add_one_cycle(sig, freq, sr, H, ic, s1)\n", '    if time[:1] in "tr":\n        sig, N = _add_one_cycle(sig, freq, sr, H, ic, s1)\n', "srs: padding decided by the first letter of `time`"),
    ("C03", "break", ["C03-R4"], S, "    if ptr:\n        sig, N = _add_one_cycle(sig, freq, sr, H, ic, s1)\n", '    if time[:1] in "pr":\n        sig, N = _add_one_cycle(sig, freq, sr, H, ic, s1)\n', "srs: padding decided by the wrong letters"),
    ("C03", "neutral", [], S, "            z_vrs[i] = np.sqrt(np.sum(df * t, axis=1))\n", "            z_vrs[i] = np.sqrt(t @ df)\n", "vrs: quadrature as a matrix product with the weights (equal up to rounding)"),
    ("C03", "break", ["C03-R6"], S, "            z_vrs[i] = np.sqrt(np.sum(df * t, axis=1))\n", "            z_vrs[i] = np.sqrt(t @ (df * df))\n", "vrs: matrix product with squared weights"),
    ("C03", "neutral", [], S, _VRS_NOHIST, "        t = ((1 + p2z2) / ((1 - p**2) ** 2 + p2z2)) * psdfull.T\n        z_vrs[i] = np.sqrt(np.dot(t, df))\n", "vrs: np.dot with the weights (equal up to rounding)"),
    ("C03", "neutral", [], S, "def _rmsmeth(resp):\n    return np.sqrt((resp**2).mean(axis=0))\n", "def _rmsmeth(resp):\n    return np.sqrt(np.mean(np.abs(resp) ** 2, axis=0))\n", "_rmsmeth: |x|^2 of the real response"),
    ("C03", "break", ["C03-R8"], S, "def _rmsmeth(resp):\n    return np.sqrt((resp**2).mean(axis=0))\n", "def _rmsmeth(resp):\n    return np.sqrt(np.mean(np.abs(resp) ** 3, axis=0))\n", "_rmsmeth: |x|^3"),
]

_VRS_T_RESP = "            p2z2 = (2 * zeta * p) ** 2\n            t = ((1 + p2z2) / ((1 - p**2) ** 2 + p2z2)) * psdfull.T\n            psd_vrs[i] = t  # npsds x len(freq)\n"
_VRS_T_COMPLEX = "            damp = 2j * zeta * p\n            H = (1 + damp) / (1 - p**2 + damp)\n            t = (np.abs(H) ** 2) * psdfull.T\n            psd_vrs[i] = t  # npsds x len(freq)\n"
RECIPES += [
    ("C03", "neutral", [], S, _VRS_T_RESP, _VRS_T_COMPLEX, "vrs: |H|^2 from the complex transfer function"),
    ("C03", "break", ["C03-R6"], S, _VRS_T_RESP, _VRS_T_COMPLEX.replace("(1 - p**2 + damp)", "(1 - p**2 + 2 * damp)"), "vrs: complex transfer function with doubled damping in the denominator"),
    ("C03", "neutral", [], S, "        sig = sig - s1\n        if stype == \"absacce\":", "        sig = sig - np.take(sig, 0, axis=0)\n        if stype == \"absacce\":", "_process_ic: first sample through np.take"),
]

RECIPES += [
    ("C03", "break", ["C03-R9"], S, "                a[pvrb] = -fs  # / ms ... since ms == 1\n", "                np.negative(fs, out=a[pvrb])  # / ms ... since ms == 1\n",
     "srs_frf: rigid rows written through out= into a[mask] (a copy: the write is lost)"),
    ("C03", "neutral", [], S, "                a[pvrb] = -fs  # / ms ... since ms == 1\n", "                a[pvrb] = np.negative(fs)  # / ms ... since ms == 1\n", "srs_frf: rigid rows through np.negative"),
    ("C03", "neutral", [], S, "            shk[:, j] = abs(a).max(axis=1)\n", "            np.amax(np.abs(a), axis=1, out=shk[:, j])\n", "srs_frf: peak written through out= into a column view"),
    ("C03", "break", ["C03-R9"], S, "            shk[:, j] = abs(a).max(axis=1)\n", "            np.amax(np.abs(a), axis=0, out=shk[:, j])\n", "srs_frf: out= peak over the oscillator axis"),
]

RECIPES += [
    ("C03", "neutral", [], S, "        nzeros = int(np.ceil(sr / minf))\n", "        nzeros = int(-(-sr // minf))\n", "_add_one_cycle: ceil by negated floor division"),
    ("C03", "break", ["C03-R4"], S, "        nzeros = int(np.ceil(sr / minf))\n", "        nzeros = int(sr // minf)\n", "_add_one_cycle: floor division (a partial cycle)"),
    ("C03", "break", ["C03-R4"], S, "        nzeros = int(np.ceil(sr / minf))\n", "        nzeros = int(np.round(sr / minf))\n", "_add_one_cycle: rounded to nearest"),
]


# ---- pass 5: a starred coefficient pair, task iterables of every spelling, coefficient pairs precomputed in a comprehension / map, a coefficient
#      function that returns through a dictionary / a namedtuple, the eqsine flag folded into a divisor
_W_HIST = ('    (j, (coeffunc, Q, dT, methfunc, S)) = args\n    b, a = coeffunc(Q, dT, WN_[j])\n    resphist = signal.lfilter(b, a, SIG_, axis=0)\n'
           '    SRSmax_[j] = methfunc(resphist[S:])\n    HIST_[:, :, j]')
_W_NOHIST = ('    (j, (coeffunc, Q, dT, methfunc, S)) = args\n    b, a = coeffunc(Q, dT, WN_[j])\n    resphist = signal.lfilter(b, a, SIG_, axis=0)\n'
             '    SRSmax_[j] = methfunc(resphist[S:])\n\n\ndef _dosrs(')
_W_BA = "    b, a = coeffunc(Q, dT, WN_[j])\n    resphist = signal.lfilter(b, a, SIG_, axis=0)\n"
_POOL = "                for _ in pool.imap_unordered(func, zip(range(LF), it.repeat(args, LF))):\n                    pass\n"
_POOL_TAIL = ('            SRSmax = np.frombuffer(SRSmax[0]).reshape(SRSmax[1])\n            if getresp:\n                HIST = np.frombuffer(HIST[0]).reshape(HIST[1])\n'
              '                resp["hist"] = HIST\n        else:\n            dT = 1 / sr\n            for j in range(LF):\n                b, a = coeffunc(Q, dT, wn[j])\n'
              '                resphist = signal.lfilter(b, a, sig, axis=0)\n')
_POOL_IC = _POOL + _POOL_TAIL + "                if stype"
_POOL_NOIC = _POOL + _POOL_TAIL + "                SRSmax"
_SER_NOIC = '''            dT = 1 / sr
            for j in range(LF):
                b, a = coeffunc(Q, dT, wn[j])
                resphist = signal.lfilter(b, a, sig, axis=0)
                SRSmax[j] = methfunc(resphist[S:])
                if getresp:
                    resp["hist"][:, :, j] = resphist[S:]
'''
_SER_IC_HEAD = '''            dT = 1 / sr
            for j in range(LF):
                b, a = coeffunc(Q, dT, wn[j])
                resphist = signal.lfilter(b, a, sig, axis=0)
                if stype == "reldisp":
'''


def _ser_noic(head, loop="for j, (b, a) in enumerate(coefs):", extra=""):
    return ("            dT = 1 / sr\n" + head + "            " + loop + "\n" + extra + "                resphist = signal.lfilter(b, a, sig, axis=0)\n"
            "                SRSmax[j] = methfunc(resphist[S:])\n                if getresp:\n                    resp[\"hist\"][:, :, j] = resphist[S:]\n")


def _ser_ic(comp):
    return ("            dT = 1 / sr\n            coefs = " + comp + "\n            for j, (b, a) in enumerate(coefs):\n"
            "                resphist = signal.lfilter(b, a, sig, axis=0)\n                if stype == \"reldisp\":\n")


_ABS_BODY = '''    zeta = 1 / 2 / Q
    sqz = sqrt(1 - zeta * zeta)
    wd = wn * sqz
    E = exp(-zeta * wn * dT)
    E2 = E * E
    B = dT * wd
    C = E * cos(B)
    if wn == 0:
        b = np.array([0.0, 0.0, 0.0])
    else:
        S = E * sin(B)
        Sb = S / B
        beta0 = 1 - Sb
        beta1 = 2 * (Sb - C)
        beta2 = E2 - Sb
        b = np.array([beta0, beta1, beta2])
    a = np.array([1, -2 * C, E2])
    return b, a
'''
_ABS_RET = "    a = np.array([1, -2 * C, E2])\n    return b, a\n"
_ABS_DICT = _ABS_BODY.replace(_ABS_RET, '    out = {"b": b}\n    out["a"] = np.array([1, -2 * C, E2])\n    return out["b"], out["a"]\n')
_ABS_EARLY = _ABS_BODY.replace("    if wn == 0:\n        b = np.array([0.0, 0.0, 0.0])\n    else:\n        S = E * sin(B)\n        Sb = S / B\n        beta0 = 1 - Sb\n"
                               "        beta1 = 2 * (Sb - C)\n        beta2 = E2 - Sb\n        b = np.array([beta0, beta1, beta2])\n" + _ABS_RET,
                               "    a = np.array([1, -2 * C, E2])\n    if wn == 0:\n        return np.zeros(3), a\n    S = E * sin(B)\n    Sb = S / B\n"
                               "    return np.array([1 - Sb, 2 * (Sb - C), E2 - Sb]), a\n")
_ABS_DEF = ('def absacce(Q, dT, wn):\n    """\n    Utility routine used by :func:`srs` to get absolute acceleration\n    digital filter coefficients. Returns (b, a) for use in\n'
            '    :func:`scipy.signal.lfilter`.\n    """\n')
_NT = 'import collections\n\n_Coefs = collections.namedtuple("_Coefs", "b a")\n\n\n'
_EQ_DIV = '''    divisor = Q if eqsine else 1
    SRSmax /= divisor
    if getresp:
        resp["hist"] /= divisor
        return SRSmax, resp
    return SRSmax
'''

RECIPES += [
    ("C03", "neutral", [], S, _W_HIST, _W_HIST.replace(_W_BA, "    resphist = signal.lfilter(*coeffunc(Q, dT, WN_[j]), SIG_, axis=0)\n"),
     "_dosrs: lfilter(*coeffunc(Q, dT, WN_[j]), SIG_, axis=0)"),
    ("C03", "neutral", [], S, _W_HIST, _W_HIST.replace(_W_BA, "    resphist = signal.lfilter(*coeffunc(Q, dT, WN_[j]), x=SIG_, axis=0)\n"),
     "_dosrs: starred coefficient pair, signal by keyword"),
    ("C03", "neutral", [], S, _W_HIST, _W_HIST.replace(_W_BA, "    ba = coeffunc(Q, dT, WN_[j])\n    resphist = signal.lfilter(ba[0], ba[1], SIG_, axis=0)\n"),
     "_dosrs: coefficient pair indexed"),
    ("C03", "break", ["C03-R3"], S, _W_NOHIST, _W_NOHIST.replace(_W_BA, "    resphist = signal.lfilter(*coeffunc(Q, dT, WN_[j])[::-1], SIG_, axis=0)\n"),
     "_dosrs_nohist: starred coefficient pair read backwards (a, b)"),
    ("C03", "break", ["C03-R3"], S, _W_NOHIST, _W_NOHIST.replace(_W_BA, "    a, b = coeffunc(Q, dT, WN_[j])\n    resphist = signal.lfilter(b, a, SIG_, axis=0)\n"),
     "_dosrs_nohist: coefficient pair unpacked as (a, b)"),
    ("C03", "neutral", [], S, _POOL_NOIC, _POOL_NOIC.replace(_POOL, "                for _ in pool.imap_unordered(func, enumerate(it.repeat(args, LF))):\n                    pass\n"),
     "srs: tasks as enumerate(it.repeat(args, LF))"),
    ("C03", "neutral", [], S, _POOL_NOIC, _POOL_NOIC.replace(_POOL, "                for _ in pool.imap_unordered(func, ((j, args) for j in range(LF))):\n                    pass\n"),
     "srs: tasks from a generator expression"),
    ("C03", "neutral", [], S, _POOL_IC, _POOL_IC.replace(_POOL, "                pool.map(func, [(j, args) for j in range(LF)])\n"),
     "srs: pool.map over a list comprehension of tasks"),
    ("C03", "break", ["C03-R3"], S, _POOL_IC, _POOL_IC.replace(_POOL, "                pool.map(func, [(j, (coeffunc, Q, sr, methfunc, S, stype)) for j in range(LF)])\n"),
     "srs: tasks of a list comprehension carry sr where the workers expect the step 1/sr"),
    ("C03", "break", ["C03-R3"], S, "            args = (coeffunc, Q, 1 / sr, methfunc, S, stype)\n", "            args = (coeffunc, Q, sr, methfunc, S, stype)\n",
     "srs: the workers with add-back get sr for the step"),
    ("C03", "break", ["C03-R3"], S, "            args = (coeffunc, Q, 1 / sr, methfunc, S)\n", "            args = (coeffunc, Q, sr, methfunc, S)\n",
     "srs: the workers without add-back get sr for the step"),
    ("C03", "neutral", [], S, _SER_NOIC, _ser_noic("            coefs = [coeffunc(Q, dT, w) for w in wn]\n"),
     "srs: coefficient pairs precomputed in a list comprehension, loop over enumerate"),
    ("C03", "neutral", [], S, _SER_NOIC, _ser_noic("", loop="for j, (b, a) in enumerate(map(lambda w: coeffunc(Q, dT, w), wn)):"),
     "srs: coefficient pairs from map(lambda) in the loop header"),
    ("C03", "neutral", [], S, _SER_NOIC, _ser_noic("            coefs = [coeffunc(Q, dT, w) for w in wn]\n", loop="for j, (b, a) in zip(range(LF), coefs):"),
     "srs: precomputed coefficient pairs, loop over zip(range(LF), coefs)"),
    ("C03", "neutral", [], S, _SER_NOIC, _ser_noic("            coefs = list(map(lambda w: coeffunc(Q, dT, w), wn))\n", loop="for j in range(LF):", extra="                b, a = coefs[j]\n"),
     "srs: precomputed coefficient pairs indexed by the loop counter"),
    ("C03", "neutral", [], S, _SER_NOIC, '''            dT = 1 / sr
            hists = (signal.lfilter(*coeffunc(Q, dT, w), sig, axis=0)[S:] for w in wn)
            for j, resphist in enumerate(hists):
                SRSmax[j] = methfunc(resphist)
                if getresp:
                    resp["hist"][:, :, j] = resphist
''', "srs: filtered windows from a generator expression"),
    ("C03", "break", ["C03-R4"], S, _SER_NOIC, _ser_noic("            coefs = [coeffunc(Q, sr, w) for w in wn]\n"),
     "srs: precomputed coefficient pairs for the step sr"),
    ("C03", "break", ["C03-R3"], S, _SER_IC_HEAD, _ser_ic("[coeffunc(Q, dT, w) for w in wn[::-1]]"),
     "srs: precomputed coefficient pairs in reversed frequency order (add-back for another frequency)"),
    ("C03", "break", ["C03-R3"], S, _SER_IC_HEAD, _ser_ic("[coeffunc(Q, dT, w) for w in freq]"),
     "srs: precomputed coefficient pairs for Hz instead of rad/s"),
    ("C03", "neutral", [], S, _SER_IC_HEAD, _ser_ic("[coeffunc(Q, dT, w) for w in wn]"),
     "srs: add-back loop over precomputed coefficient pairs"),
    ("C03", "neutral", [], S, _ABS_BODY, _ABS_DICT, "absacce: coefficients collected in a dictionary, returned by key"),
    ("C03", "break", ["C03-R1"], S, _ABS_BODY, _ABS_DICT.replace('out["a"] = np.array([1, -2 * C, E2])', 'out["a"] = np.array([1, 2 * C, E2])'),
     "absacce: dictionary form with the sign of a[1] lost"),
    ("C03", "neutral", [], S, _ABS_BODY, _ABS_EARLY, "absacce: early return in the wn == 0 branch, np.zeros(3)"),
    ("C03", "neutral", [], S, _ABS_DEF + _ABS_BODY, _NT + _ABS_DEF + _ABS_BODY.replace("    return b, a\n", "    return _Coefs(b, a)\n"),
     "absacce: returns a module-level namedtuple (b, a)"),
    ("C03", "neutral", [], S, _ABS_DEF + _ABS_BODY, _NT + _ABS_DEF + _ABS_BODY.replace("    return b, a\n", "    return _Coefs(a=a, b=b)\n"),
     "absacce: namedtuple built by keyword"),
    ("C03", "break", ["C03-R1"], S, _ABS_DEF + _ABS_BODY, _NT + _ABS_DEF + _ABS_BODY.replace("    return b, a\n", "    return _Coefs(a, b)\n"),
     "absacce: namedtuple fields filled in the wrong order"),
    ("C03", "neutral", [], S, _TAIL, _EQ_DIV, "srs: eqsine folded into a divisor (Q or 1)"),
    ("C03", "break", ["C03-R7"], S, _TAIL, _EQ_DIV.replace("Q if eqsine else 1", "1 if eqsine else Q"), "srs: divisor selected the wrong way round"),
]

_POOLK_NOIC = "            with mp.Pool(\n                processes=ncpu, initializer=_mk_par_globals, initargs=gvars\n            ) as pool:\n"
_POOLK_IC = "            with mp.Pool(\n                processes=ncpu, initializer=_mk_par_globals_ic, initargs=gvars\n            ) as pool:\n"
RECIPES += [
    ("C03", "neutral", [], S, _POOLK_NOIC, "            with mp.Pool(ncpu, _mk_par_globals, gvars) as pool:\n", "srs: Pool arguments by position"),
    ("C03", "neutral", [], S, _POOLK_IC, "            with mp.Pool(ncpu, _mk_par_globals_ic, (WN, SIG, ICVALS, SRSmax, HIST)) as pool:\n", "srs: Pool arguments by position, initargs as a display"),
    ("C03", "break", ["C03-R3"], S, _POOLK_IC, "            with mp.Pool(ncpu, _mk_par_globals_ic, (WN, SIG, SIG, SRSmax, HIST)) as pool:\n",
     "srs: positional initargs hand the signal to the workers as the steady-state values"),
    ("C03", "neutral", [], S, "            args = (coeffunc, Q, 1 / sr, methfunc, S)\n", "            args = (coeffunc, Q, sr**-1, methfunc, S)\n", "srs: the step as sr**-1"),
]

# ---- pass 5, round-4 seed I: a limiting-case arm selected by a threshold on the frequency instead of wn == 0
_RD_ZERO = "    if wn == 0:\n        # See notes above for the derivation of these coefficients:\n        b = np.array([-1.0, -4.0, -1.0]) * dT**2 / 6\n"
_RA_NZ = "    if wn != 0.0:\n        b *= (E * sin(B)) / B\n"
RECIPES += [
    ("C03", "break", ["C03-R1"], S, _RD_ZERO, _RD_ZERO.replace("if wn == 0:", "if B < 5e-3:"), "reldisp: limit numerator for B < 5e-3 (round-4 seed I)"),
    ("C03", "break", ["C03-R1"], S, _RD_ZERO, _RD_ZERO.replace("if wn == 0:", "if wn * dT < 5e-3:"), "reldisp: limit numerator for wn*dT < 5e-3 (sr/fn > 1257, inside the domain)"),
    ("C03", "break", ["C03-R1"], S, _RD_ZERO, _RD_ZERO.replace("if wn == 0:", "if wn < 1e-6:"), "reldisp: limit numerator below an absolute frequency (any step)"),
    ("C03", "neutral", [], S, _RD_ZERO, _RD_ZERO.replace("if wn == 0:", "if wn * dT < 1e-9:"), "reldisp: threshold far outside the documented domain (sr/fn <= 2000)"),
    ("C03", "neutral", [], S, _RD_ZERO, _RD_ZERO.replace("if wn == 0:", "if wn <= 0:"), "reldisp: wn <= 0 selects the zero-frequency arm"),
    ("C03", "neutral", [], S, _RD_ZERO, _RD_ZERO.replace("if wn == 0:", "if not wn > 0:"), "reldisp: not wn > 0"),
    ("C03", "break", ["C03-R1"], S, _RA_NZ, _RA_NZ.replace("if wn != 0.0:", "if B > 1e-4:"), "relacce: general numerator only above a threshold on B"),
    ("C03", "neutral", [], S, _RA_NZ, _RA_NZ.replace("if wn != 0.0:", "if B > 0:"), "relacce: general numerator for B > 0"),
]

# ---- pass 6 (N38): slice objects, ufunc calls with out=, a display indexed by the time code
_SER_NOIC = ("                resphist = signal.lfilter(b, a, sig, axis=0)\n                SRSmax[j] = methfunc(resphist[S:])\n"
             "                if getresp:\n                    resp[\"hist\"][:, :, j] = resphist[S:]\n")
_SER_KEEP = ("                resphist = signal.lfilter(b, a, sig, axis=0)\n                keep = slice(S, None)\n                SRSmax[j] = methfunc(resphist[keep])\n"
             "                if getresp:\n                    resp[\"hist\"][..., j] = resphist[keep]\n")
_W_NOHIST = "    resphist = signal.lfilter(b, a, SIG_, axis=0)\n    SRSmax_[j] = methfunc(resphist[S:])\n\n\ndef _dosrs(args):"
_S_SEL = "    S = M if ptr == 2 else 0\n"
_IC_ADD = "                    resphist += icvals\n"
RECIPES += [
    ("C03", "neutral", [], S, _SER_NOIC, _SER_KEEP, "srs: the evaluated window as a hoisted slice(S, None) object"),
    ("C03", "neutral", [], S, _SER_NOIC, _SER_KEEP.replace("slice(S, None)", "slice(S, None, None)"), "srs: slice(S, None, None)"),
    ("C03", "break", ["C03-R4"], S, _SER_NOIC, _SER_KEEP.replace("slice(S, None)", "slice(S)"), "srs: slice(S) is `:S` - the residual window becomes the primary one"),
    ("C03", "break", ["C03-R4"], S, _SER_NOIC, _SER_KEEP.replace("slice(S, None)", "slice(None, S)"), "srs: slice(None, S)"),
    ("C03", "break", ["C03-R4"], S, _SER_NOIC, _SER_KEEP.replace("slice(S, None)", "slice(0, None)"), "srs: slice object that ignores the start of the residual window"),
    ("C03", "neutral", [], S, _W_NOHIST, _W_NOHIST.replace("resphist[S:]", "resphist[slice(S, None)]"), "_dosrs_nohist: slice object in the worker"),
    ("C03", "neutral", [], S, _S_SEL, "    S = (0, 0, M)[ptr]\n", "srs: window start selected from a display by the time code"),
    ("C03", "neutral", [], S, _S_SEL, "    S = [0, 0, M][ptr]\n", "srs: window start selected from a list display"),
    ("C03", "break", ["C03-R4"], S, _S_SEL, "    S = (0, M, M)[ptr]\n", "srs: display gives the total window the residual start"),
    ("C03", "break", ["C03-R4"], S, _S_SEL, "    S = (M, 0, 0)[ptr]\n", "srs: display entries rotated"),
    ("C03", "neutral", [], S, _IC_ADD, "                    np.add(resphist, icvals, out=resphist)\n", "srs: add-back as np.add(..., out=resphist)"),
    ("C03", "break", ["C03-R3"], S, _IC_ADD, "                    np.subtract(resphist, icvals, out=resphist)\n", "srs: np.subtract(..., out=resphist) instead of the add-back"),
    ("C03", "break", ["C03-R3"], S, _IC_ADD, "                    np.add(resphist, icvals)\n", "srs: np.add without out= - the add-back is dropped"),
    ("C03", "neutral", [], S, _RA_NZ, _RA_NZ.replace("b *= (E * sin(B)) / B", "np.multiply(b, (E * sin(B)) / B, out=b)"), "relacce: np.multiply(..., out=b)"),
    ("C03", "break", ["C03-R1"], S, _RA_NZ, _RA_NZ.replace("b *= (E * sin(B)) / B", "np.multiply(b, (E * sin(B)) / B)"), "relacce: np.multiply without out= - the scaling is dropped"),
]
RECIPES += [
    ("C03", "neutral", [], S, _SER_NOIC, _SER_NOIC.replace("resphist[S:]", "resphist[S:N]"), "srs: window with its end spelled out (N rows of the filtered signal)"),
]
