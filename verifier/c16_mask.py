"""NaN-aware comparison masks decided by truth table (C16 R1/R2).

`nan_argmax(v1, v2)` is documented as `(v2 > v1) | (isnan(v1) & ~isnan(v2))`.  Whether an expression *is* that mask does not depend on how it is
spelled (De Morgan forms, flipped comparisons, `np.where`, `x != x` for isnan, helper functions, `operator.gt`): two element-wise boolean
expressions over the atoms  a ? b,  isnan(a),  isnan(b)  are equal iff they agree in every *feasible world* of one element pair:

    a < b, a == b, a > b            (neither is NaN)
    a NaN only, b NaN only, both    (every ordered comparison is False, `==` is False, `!=` is True - IEEE 754)

so a mask is evaluated in these six worlds and compared with the documented table.  Nothing here looks at the shape of the expression beyond
its operators; an operator that is not understood makes the mask *unknown* (the caller reports an analysis error, never a violation).
"""
from __future__ import annotations

WORLDS = (("lt", False, False), ("eq", False, False), ("gt", False, False), ("un", True, False), ("un", False, True), ("un", True, True))
CMP = ("gt", "ge", "eq", "ne")


class Unknown(Exception):
    pass


def _unabs(t):
    while isinstance(t, tuple) and len(t) == 3 and t[0] == "op" and t[1] in ("abs", "neg"):
        t = t[2]
    return t


def documented(kind):
    """truth table of nan_argmax(a, b) / nan_argmin(a, b): b beats a, or a is NaN and b is a number"""
    want = "lt" if kind == "nan_argmax" else "gt"
    return tuple((rel == want) or (na and not nb) for rel, na, nb in WORLDS)


def mirror(table):
    """the table with the roles of `<` and `>` exchanged"""
    by = dict(zip(WORLDS, table))
    return tuple(by[({"lt": "gt", "gt": "lt"}.get(rel, rel), na, nb)] for rel, na, nb in WORLDS)


def _is_nan_arg(x, a, b):
    """isnan(x): which operand is meant (isnan(abs(u)) is isnan(u))"""
    if x == a:
        return 0
    if x == b:
        return 1
    ua, ub, ux = _unabs(a), _unabs(b), _unabs(x)
    if ua != ub:
        if ux == ua:
            return 0
        if ux == ub:
            return 1
    raise Unknown(f"isnan of something that is not one of the compared values: {x!r}"[:160])


def value(t, a, b, world):
    """truth of the mask `t` for one element pair in `world`"""
    rel, na, nb = world
    if not isinstance(t, tuple) or not t:
        raise Unknown(repr(t))
    k = t[0]
    if k == "c" and isinstance(t[1], bool):
        return t[1]
    if k == "call":
        if t[1] in ("np.isnan", "math.isnan") and len(t[2]) == 1 and not t[3]:
            return (na, nb)[_is_nan_arg(t[2][0], a, b)]
        if t[1] in ("np.isfinite",) and len(t[2]) == 1 and not t[3]:
            raise Unknown("isfinite (infinities are not modelled)")
        if t[1] == "np.where" and len(t[2]) == 3 and not t[3]:
            return value(t[2][1] if value(t[2][0], a, b, world) else t[2][2], a, b, world)
        if t[1] in ("nan_argmax", "nan_argmin") and len(t[2]) == 2 and not t[3]:
            x, y = t[2]
            tab = dict(zip(WORLDS, documented(t[1])))
            if (x, y) == (a, b):
                return tab[world]
            if (x, y) == (b, a):
                return tab[({"lt": "gt", "gt": "lt"}.get(rel, rel), nb, na)]
        raise Unknown(f"call {t[1]}")
    if k == "op":
        n = t[1]
        if n in ("or_", "or"):
            return any([value(x, a, b, world) for x in t[2:]])
        if n in ("and_", "and"):
            return all([value(x, a, b, world) for x in t[2:]])
        if n == "xor" and len(t) == 4:
            return value(t[2], a, b, world) != value(t[3], a, b, world)
        if n in ("inv", "not") and len(t) == 3:
            return not value(t[2], a, b, world)
        if n in CMP and len(t) == 4:
            x, y = t[2], t[3]
            if x == y and x in (a, b):
                nan = na if x == a else nb
                return {"gt": False, "ge": not nan, "eq": not nan, "ne": nan}[n]
            if {x, y} != {a, b} or a == b:
                # the same test on boolean sub-masks: m == False etc. is not used by anything sensible
                raise Unknown(f"comparison of other values: {t!r}"[:160])
            r = rel if (x, y) == (a, b) else {"lt": "gt", "gt": "lt"}.get(rel, rel)     # relation of x to y
            if r == "un":
                return n == "ne"
            return {"gt": r == "gt", "ge": r in ("gt", "eq"), "eq": r == "eq", "ne": r != "eq"}[n]
        raise Unknown(f"operator {n}")
    raise Unknown(f"term {k}")


def table(t, a, b):
    return tuple(value(t, a, b, w) for w in WORLDS)


def operands(t, out=None):
    """the unordered pairs of values a mask compares with each other"""
    out = set() if out is None else out
    if isinstance(t, tuple) and t:
        if t[0] == "op" and t[1] in CMP and len(t) == 4 and t[2] != t[3]:
            out.add(frozenset((t[2], t[3])))
        elif t[0] == "op":
            for x in t[2:]:
                operands(x, out)
        elif t[0] == "call" and t[1] in ("nan_argmax", "nan_argmin") and len(t[2]) == 2 and t[2][0] != t[2][1]:
            out.add(frozenset(t[2]))
        elif t[0] == "call" and t[1] == "np.where":
            for x in t[2]:
                operands(x, out)
    return out


def _masklike(t):
    return isinstance(t, tuple) and len(t) >= 3 and ((t[0] == "op" and t[1] in ("or_", "and_", "inv", "xor", "or", "and", "not") + CMP) or
                                                      (t[0] == "call" and t[1] == "np.where" and len(t[2]) == 3))


def classify(t):
    """('nan_argmax' | 'nan_argmin', a, b) when the mask is that selector of the pair (a, b) whatever its spelling; None when it is some other
    mask; raises Unknown when the expression cannot be evaluated"""
    if isinstance(t, tuple) and len(t) == 4 and t[0] == "call" and t[1] in ("nan_argmax", "nan_argmin") and len(t[2]) == 2 and not t[3]:
        return t[1], t[2][0], t[2][1]
    prs = operands(t)
    if len(prs) != 1:
        raise Unknown(f"{len(prs)} pairs of compared values")
    x, y = sorted(next(iter(prs)), key=repr)
    for a, b in ((x, y), (y, x)):
        tab = table(t, a, b)
        for kind in ("nan_argmax", "nan_argmin"):
            if tab == documented(kind):
                return kind, a, b
    return None


def canon(t, _d=0):
    """the term with every sub-expression that is a nan_argmax / nan_argmin selector replaced by the call it equals"""
    if not isinstance(t, tuple) or not t or _d > 40:
        return t
    if _masklike(t):
        try:
            c = classify(t)
        except Unknown:
            c = None
        if c is not None:
            return ("call", c[0], (canon(c[1], _d + 1), canon(c[2], _d + 1)), ())
    if t[0] in ("c", "s", "g", "fn"):
        return t
    if t[0] == "call":
        return ("call", t[1], tuple(canon(x, _d + 1) for x in t[2]), tuple((k, canon(v, _d + 1)) for k, v in t[3]))
    return (t[0],) + tuple(canon(x, _d + 1) if isinstance(x, tuple) else x for x in t[1:])
