"""C12-R3 -- card grid, decided on values.

The writers are evaluated on *symbolic cards* (a name and n fields of given types, n around the line breaks): whatever the code looks like
(write-as-you-go loop, nested ifs, buffer-and-join) the result is an abstract text whose lines are parsed on the reference grid of the
property (8-column head, W-wide fields, 72 columns).  The generic readers are then evaluated on that very text (`_rdfixed`) and on the
comma form of the same card (`_rdcomma`) and must give back the fields, one for one.

Helper functions are followed (c12_exec `inline=`): text counts as written when it reaches `write` / `writelines` of the file *value*, a line
is consumed when `send` / `next` is applied to the iterator *value*, under whatever name a helper receives them.  What rdcards hands to the
readers is read from the values of the reader calls, found through the call graph from rdcards (any loop shape, any depth of helpers); when
those values cannot be determined the rule reports an analysis error, never a violation.

The choice of the reader is decided end to end on *concrete* first lines (card_lines): one free-field card for every place its first
separator can sit (first fields of 1 .. 8 characters: index 1 .. 8; padded and large-field spellings of the name), one small-field card per
name length, one large-field card for every place the writers put the '*' (index 1 .. 7).  rdcards is evaluated with that text as the current
line - every test on the line is computed, however it is spelled - and the reader call it reaches is then evaluated on the text handed over,
with the layout handed over: the fields of the card must come back.  A line whose paths disagree (an option of rdcards, a test the evaluation
cannot compute) is not decided; only a line that every path misreads is a violation.
"""
from __future__ import annotations

import ast
import itertools
from fractions import Fraction

from .core import AnchorError, Unsupported
from .e1_srcmodel import dotted
from .c12_str import Unk, Const, Param, Opaque, Lit, Fmt, Cat, Strip, Slice, StrOf, CallS, Tup, Len, IntOf, FloatOf, Round, cat, as_int, is_str, is_num
from .c12_exec import Engine, Interval, State, walk_value, _as_sequence, _FLIP
from .c12_text import (FIELD, is_field, field_of, atoms, atom_width, width, all_blank, rstrip, slice_text, first_char, split_lines,
                       split_commas, parse_fixed, FLOATW, BLANKS)

BULK = "pyyeti/nastran/bulk.py"
TYPES = {"str": "str", "np.str_": "str", "int": "int", "np.int32": "int", "np.int64": "int", "np.uint32": "int", "np.uint64": "int",
         "np.integer": "int", "float": "float", "np.float32": "float", "np.float64": "float", "np.floating": "float"}
BLANK = Opaque("blank-value", ())


class Crash(Exception):
    """the function under evaluation certainly raises for the symbolic card (every test on the path was decided)"""


def _type_classes(v):
    out = set()
    for n in walk_value(v):
        if isinstance(n, Opaque) and n.name.startswith("name:"):
            c = TYPES.get(n.name[5:])
            if c is None:
                return None
            out.add(c)
    return out


def _field_cond(test, st, eng):
    """type regime of a symbolic field: isinstance(field, types), field == '' """
    if isinstance(test, ast.Call) and dotted(test.func) == "isinstance" and len(test.args) == 2:
        x = eng.ev(test.args[0], st)
        if is_field(x):
            cl = _type_classes(eng.ev(test.args[1], st))
            if cl is None:
                return None
            t = x.args[1].s
            return ("str" if t == "blank" else t) in cl
    if isinstance(test, ast.Compare) and len(test.ops) == 1 and isinstance(test.ops[0], (ast.Eq, ast.NotEq)):
        a, b = eng.ev(test.left, st), eng.ev(test.comparators[0], st)
        if is_field(b):
            a, b = b, a
        if is_field(a) and b == Lit(""):
            return (a.args[1].s == "blank") == isinstance(test.ops[0], ast.Eq)
        if is_field(a) and isinstance(b, Lit):
            return isinstance(test.ops[0], ast.NotEq)
    # truth of stripped text
    v = None
    if isinstance(test, (ast.Call, ast.Name, ast.Attribute, ast.Subscript)):
        v = eng.ev(test, st)
    if isinstance(v, Strip) and v.chars is None:
        b = all_blank(v.s)
        if b is not None:
            return not b
    if v is not None and is_str(v) and not isinstance(v, Lit):
        w = width(v)
        if w:
            return True
    return None


def _text_post(v, st, eng):
    """strip / slice / len of card text computed on its atoms"""
    if isinstance(v, Strip) and v.chars is None and v.side == "r" and atoms(v.s) is not None:
        return rstrip(v.s)
    if isinstance(v, Strip) and v.chars is None and v.side == "b" and all_blank(v.s) is True:
        return Lit("")
    if isinstance(v, Slice) and atoms(v.s) is not None:
        lo = None if v.lo is None else as_int(v.lo)
        hi = None if v.hi is None else as_int(v.hi)
        if (v.lo is None or lo is not None) and (v.hi is None or hi is not None):
            return slice_text(v.s, lo, hi)
    if isinstance(v, Len):
        w = width(v.s)
        if w is not None:
            return Fraction(w)
    return v


def symbolic_card(name, shape):
    return Tup((Lit(name),) + tuple(FIELD(i, t) for i, t in enumerate(shape)))


FILE = Opaque("file", ())
ITER = Opaque("iterator", ())


X = "<real field>"          # the value of a real field when the writer is evaluated on it as a number (interval-split paths)


def _whole_test(vals):
    """is the recorded comparison `x == int(x)` (either order, also against round(x) / float(int(x))): -> True for ==, False for !=, else None"""
    if not vals or not isinstance(vals[0], (ast.Eq, ast.NotEq)):
        return None
    a, b = vals[1], vals[2]
    if b == Param(X):
        a, b = b, a
    if a != Param(X):
        return None
    if isinstance(b, FloatOf):
        b = b.s if hasattr(b, "s") else b
    if isinstance(b, (IntOf, Round)) and b.x == Param(X):
        return isinstance(vals[0], ast.Eq)
    return None


def _whole_fact(lf):
    """-> (whole, open): whole = True / False when the path has established that the value is / is not a whole number (None: not tested);
    open = source text of the recorded tests that are anything else"""
    whole, other = None, []
    for f in lf.state.facts:
        w = _whole_test(f[3] if len(f) > 3 else None)
        if w is None:
            other.append(f[0])
        else:
            whole = (w == f[1])
    return whole, other


class _Choice:
    """a path of the writer for the value of a real field: the leaf, what it writes for the field, and - when that is a rendering of the
    writer's own which real_field_widths has shown to fill W columns and to end in a non-blank - the formatter call it is equivalent to as
    far as the layout of a card goes"""

    def __init__(self, leaf, render, stands_for=None):
        self.leaf, self.render, self.stands_for = leaf, render, stands_for


def _fold_renderings(text, choice):
    """the writer's own rendering of real field i, piece by piece in the written text, becomes one atom of W columns"""
    from .c12_float import _subst
    if choice is None or choice.stands_for is None or isinstance(choice.render, CallS):
        return text
    parts = list(text.parts if isinstance(text, Cat) else (text,))
    fields = sorted({n for n in walk_value(text) if is_field(n) and n.args[1].s == "float"}, key=lambda f: f.args[0])
    for f in fields:
        pat = _subst(choice.render, Param(X), f)
        pat = list(pat.parts if isinstance(pat, Cat) else (pat,))
        for i in range(len(parts)):
            j, k, ok, pre, post = i, 0, True, None, None
            while k < len(pat) and ok:
                if j >= len(parts):
                    ok = False
                elif isinstance(pat[k], Lit) and isinstance(parts[j], Lit):
                    if k == 0 and k == len(pat) - 1:
                        ok = False                      # a rendering that is literal text only
                    elif k == 0:
                        ok = parts[j].s.endswith(pat[k].s)
                        pre = parts[j].s[:len(parts[j].s) - len(pat[k].s)]
                    elif k == len(pat) - 1:
                        ok = parts[j].s.startswith(pat[k].s)
                        post = parts[j].s[len(pat[k].s):]
                    else:
                        ok = parts[j] == pat[k]
                else:
                    ok = parts[j] == pat[k]
                j, k = j + 1, k + 1
            if ok and k == len(pat):
                new = ([Lit(pre)] if pre else []) + [CallS(choice.stands_for, (f,))] + ([Lit(post)] if post else [])
                parts[i:j] = new
                break
    return cat(*parts)


def _replay_cmp(choice):
    """comparison oracle of a symbolic-card run in which every real field has a value of the path `choice` (a leaf of real_field_paths):
    a comparison on a real field is decided by the interval of that path, or as the path recorded it"""
    if choice is None:
        return None
    choice = choice.leaf
    from .c12_float import _subst

    def cmp(op, a, b, st, eng):
        fs = {n for v in (a, b) for n in walk_value(v) if is_field(n) and n.args[1].s == "float"}
        if len(fs) != 1:
            return None
        f = next(iter(fs))
        a2, b2 = _subst(a, f, Param(X)), _subst(b, f, Param(X))
        if is_num(a2) and not is_num(b2) and type(op) in _FLIP:
            a2, b2, op = b2, a2, _FLIP[type(op)]()
        if is_num(b2) and type(op) in _FLIP:
            saved, eng.param = eng.param, X
            try:
                shape = eng._param_shape(a2)
                if shape is not None:
                    truths = {t for t, _ in eng.split(shape, op, b2, State({}, choice.iv))}
                    if len(truths) == 1:
                        return truths.pop()
            finally:
                eng.param = saved
        for fct in choice.state.facts:
            old = fct[3] if len(fct) > 3 else None
            if old and type(old[0]) is type(op) and ((old[1], old[2]) == (a2, b2)):
                return fct[1]
        return None
    return cmp


def _writer_hooks(q):
    def call(nm, args, kw, node, st, eng):
        if isinstance(node.func, ast.Attribute) and node.func.attr in ("write", "writelines") and len(args) == 1 and not kw \
                and eng.ev(node.func.value, st) == FILE:
            st.effects = st.effects + (("<file>." + node.func.attr, tuple(args), (), node),)
            return Const(None)
        if nm == "print" and isinstance(node.func, ast.Name) and "print" not in st.env and kw.get("file") == FILE and set(kw) <= {"file", "end", "sep", "flush"} \
                and all(is_str(a) for a in args) and all(isinstance(kw.get(k, Lit("")), Lit) for k in ("end", "sep")):
            # print of text to the file: the pieces joined by `sep`, then `end`
            sep, end = kw.get("sep", Lit(" ")), kw.get("end", Lit("\n"))
            text = cat(*[x for i, a in enumerate(args) for x in ((sep, a) if i else (a,))], end)
            st.effects = st.effects + (("<file>.write", (text,), (), node),)
            return Const(None)
        return NotImplemented
    return call


def _written(eng, lf, q):
    _no_escape(eng, lf, FILE, f"{q}: the file")
    out = []
    for nm, args, kw, node in lf.state.effects:
        if nm == "<file>.write":
            out.append(args[0])
        elif nm == "<file>.writelines":
            if not isinstance(args[0], Tup):
                raise Unsupported(f"{q}: writelines of {type(args[0]).__name__}")
            out.extend(args[0].items)
    if any(not is_str(o) for o in out):
        raise Unsupported(f"{q}: written text is not modelled ({[type(o).__name__ for o in out if not is_str(o)][:3]})")
    return cat(*out)


def real_field_paths(ctx, q, name):
    """the writer evaluated on a card of one real field whose *value* is followed: every comparison on it splits its interval (as in the
    formatters), so a fast path / special case of the writer for some values is a path of its own.
    -> [(leaf, rendering of the field)]: what the path writes after the 8-column name, without the newline"""
    cache = ctx.__dict__.setdefault("_c12_realpaths", {})
    if q in cache:
        return cache[q]
    fn = ctx.src.func(BULK, q)
    params = [a.arg for a in fn.args.args]
    if len(params) < 2:
        raise AnchorError(f"{q}: parameters")
    env = {params[0]: FILE, params[1]: Tup((Lit(name), Param(X)))}

    def cond(test, st, eng):
        if isinstance(test, ast.Call) and dotted(test.func) == "isinstance" and len(test.args) == 2 and eng.ev(test.args[0], st) == Param(X):
            cl = _type_classes(eng.ev(test.args[1], st))
            return None if cl is None else "float" in cl
        if isinstance(test, ast.Compare) and len(test.ops) == 1 and isinstance(test.ops[0], (ast.Eq, ast.NotEq)):
            a, b = eng.ev(test.left, st), eng.ev(test.comparators[0], st)
            if (a == Param(X) and isinstance(b, Lit)) or (b == Param(X) and isinstance(a, Lit)):
                return isinstance(test.ops[0], ast.NotEq)          # a number is not a text
        return _field_cond(test, st, eng)

    eng = Engine(ctx, BULK, fn, param=X, cond=cond, call=_writer_hooks(q), env=env, post=_text_post, strict_locals=True, inline=lambda n: n not in FLOATW)
    allv = eng.run()
    out = []
    for lf in allv:
        if lf.kind not in ("fall", "return"):
            if lf.kind == "raise" and isinstance(lf.value, Lit) and not lf.state.facts:
                out.append((lf, None))            # every value of the interval ends in the exception
            continue
        lines = split_lines(_written(eng, lf, q))
        if not lines or any(not isinstance(ln, Lit) for ln in lines[1:]):
            # (a large-field card is filled up to an even number of lines: further lines of literal text only)
            raise Unsupported(f"{q}: {len(lines)} lines written for a card of one real field")
        parts = list(lines[0].parts if isinstance(lines[0], Cat) else (lines[0],))
        head = ""
        while parts and isinstance(parts[0], Lit) and len(head) < 8:
            head += parts.pop(0).s
        if len(head) < 8:
            raise Unsupported(f"{q}: the name of a card of one real field is not written as literal text of 8 columns")
        rest = ([Lit(head[8:])] if len(head) > 8 else []) + parts
        out.append((lf, cat(*rest)))
    cache[q] = out
    return out


def run_writer(ctx, q, name, shape, choice=None):
    """-> abstract text written for the card, or raises Unsupported.  The writer is evaluated with the helpers it calls (whatever they are
    named, wherever the per-field formatting lives); text counts as written when it is handed to `write` / `writelines` of the *file value*,
    under whatever name a helper receives it.  The public float formatters stay calls: their result is one field of known width.
    `choice`: a path of real_field_paths - the real fields of the card have values that take it (comparisons on them are decided so)."""
    fn = ctx.src.func(BULK, q)
    params = [a.arg for a in fn.args.args]
    if len(params) < 2:
        raise AnchorError(f"{q}: parameters")
    env = {params[0]: FILE, params[1]: symbolic_card(name, shape)}

    def call(nm, args, kw, node, st, eng):
        if isinstance(node.func, ast.Attribute) and node.func.attr in ("write", "writelines") and len(args) == 1 and not kw \
                and eng.ev(node.func.value, st) == FILE:
            st.effects = st.effects + (("<file>." + node.func.attr, tuple(args), (), node),)
            return Const(None)
        if nm == "print" and isinstance(node.func, ast.Name) and "print" not in st.env and kw.get("file") == FILE and set(kw) <= {"file", "end", "sep", "flush"} \
                and all(is_str(a) for a in args) and all(isinstance(kw.get(k, Lit("")), Lit) for k in ("end", "sep")):
            # print of text to the file: the pieces joined by `sep`, then `end`
            sep, end = kw.get("sep", Lit(" ")), kw.get("end", Lit("\n"))
            text = cat(*[x for i, a in enumerate(args) for x in ((sep, a) if i else (a,))], end)
            st.effects = st.effects + (("<file>.write", (text,), (), node),)
            return Const(None)
        return NotImplemented

    eng = Engine(ctx, BULK, fn, cond=_field_cond, call=call, cmp=_replay_cmp(choice), env=env, post=_text_post, strict_locals=True,
                 inline=lambda n: n not in FLOATW)
    allv = eng.run()
    leaves = [lf for lf in allv if lf.kind in ("fall", "return")]      # paths that raise write no card
    crash = [lf for lf in allv if lf.kind == "raise" and isinstance(lf.value, Lit) and not lf.state.facts]
    if crash and not leaves:
        raise Crash(f"{q} raises {crash[0].value.s} for this card")
    texts = []
    for lf in leaves:
        _no_escape(eng, lf, FILE, f"{q}: the file")
        out = []
        for nm, args, kw, node in lf.state.effects:
            if nm == "<file>.write":
                out.append(args[0])
            elif nm == "<file>.writelines":
                if not isinstance(args[0], Tup):
                    raise Unsupported(f"{q}: writelines of {type(args[0]).__name__}")
                out.extend(args[0].items)
        if any(not is_str(o) for o in out):
            raise Unsupported(f"{q}: written text is not modelled ({[type(o).__name__ for o in out if not is_str(o)][:3]})")
        texts.append(cat(*out))
    if not texts or any(t != texts[0] for t in texts):
        raise Unsupported(f"{q}: {len(texts)} different texts for one card (undecided: {[f[0] for lf in leaves for f in lf.state.facts][:3]})")
    return _fold_renderings(texts[0], choice)


def _no_escape(eng, lf, obj, what):
    """the file / the line iterator must be used only where the evaluation sees it: once it is handed to code that is not followed
    (a class, a library function) what is written / how many lines are taken is not determined"""
    for nm, args, kw, node in lf.state.effects:
        if nm.startswith("<"):
            continue
        fn = eng.mod.funcs.get(nm)
        if fn is not None and "." not in nm and eng.inline is not None and eng.inline(nm):
            continue                                 # followed: its own use of the object is part of the path
        vals = list(args or ()) + [v for _, v in (kw or ())]
        if args is None or any(x == obj for v in vals for x in walk_value(v)):
            raise Unsupported(f"{what} is handed to `{nm}`, which is not followed")


def formatters_in(text):
    """names of the module functions whose results are fields of the text"""
    return {n.name for n in walk_value(text) if isinstance(n, CallS)}


def expected_slots(shape):
    return [("blank" if t == "blank" else FIELD(i, t)) for i, t in enumerate(shape)]


def trim(seq, blank):
    seq = list(seq)
    while seq and seq[-1] == blank:
        seq.pop()
    return seq


def _free_width_field(p):
    """the rendering of one symbolic field in as many characters as its value has"""
    if isinstance(p, StrOf) and is_field(p.x):
        return True
    if isinstance(p, Strip) and p.chars is None:
        return _free_width_field(p.s) or (isinstance(p.s, Fmt) and is_field(p.s.arg))
    return isinstance(p, Fmt) and is_field(p.arg) and p.spec.width is None and p.spec.prec is None and p.spec.typ in ("s", "d", None)


def check_grid(text, W, per, conchars, shape):
    """parse the written text on the reference grid -> problem text or None"""
    lines = split_lines(text)
    got = []
    for k, ln in enumerate(lines):
        if atoms(ln) is None:
            # a piece of the line has no known width.  A field rendered without a width (str(field), '{}'.format(field)) provably does not
            # fill its slot for every value; any other piece is text this model does not understand - undecided, not a violation
            odd = [p for p in (ln.parts if isinstance(ln, Cat) else (ln,)) if atom_width(p) is None]
            if not all(_free_width_field(p) for p in odd):
                raise Unsupported(f"line {k + 1} of the written text holds a piece of unknown layout ({', '.join(type(p).__name__ for p in odd[:3])})")
            return f"line {k + 1}: a field is written without a fixed width"
        head, slots, problem = parse_fixed(ln, W, k == 0)
        if problem:
            return f"line {k + 1}: {problem}"
        if k > 0:
            if not head or head[0] not in conchars:
                return f"line {k + 1} starts with {head[:1]!r}, which the generic reader does not accept as a continuation of a {W}-wide card"
        if len(slots) > per:
            return f"line {k + 1} holds {len(slots)} fields"
        if k < len(lines) - 1 or slots:
            got.extend(slots + ["blank"] * (per - len(slots)))
    want = expected_slots(shape)
    if trim(got, "blank") != trim(want, "blank"):
        i = next((j for j, (a, b) in enumerate(zip(got + ["-"] * len(want), want + ["-"] * len(got))) if a != b), None)
        return f"field {i + 1 if i is not None else '?'} of {len(shape)} is not in line {1 + (i or 0) // per}, position {1 + (i or 0) % per} of the grid"
    nl = -(-max(len(shape), 1) // per)
    if len(lines) not in (nl, nl + 1):
        return f"{len(lines)} physical lines for {len(shape)} fields"
    return None


# ---------------------------------------------------------------------- readers
def run_reader(ctx, q, lines, n, conchar, fixed=True):
    """evaluate _rdfixed / _rdcomma on abstract lines -> list of values read"""
    fn = ctx.src.func(BULK, q)
    params = [a.arg for a in fn.args.args]
    want = ["fiter", "s", "n", "conchar", "blank", "tolist", "keep_name"] if fixed else ["fiter", "s", "conchar", "blank", "tolist", "keep_name"]
    if len(params) != len(want):
        raise AnchorError(f"{q}: signature {params}")
    vals = [ITER, lines[0]] + ([Fraction(n)] if fixed else []) + [Lit(conchar), BLANK, Const(True), Const(False)]
    env = dict(zip(params, vals))

    def taken(st):
        return sum(1 for e in st.effects if e[0] == "<iterator>.next")

    def call(name, args, kw, node, st, eng):
        # the next line: asked of the *iterator value* (send / next), whatever the function at hand calls it
        if (isinstance(node.func, ast.Attribute) and node.func.attr in ("send", "__next__") and eng.ev(node.func.value, st) == ITER) \
                or (name == "next" and args and args[0] == ITER):
            k = 1 + taken(st)
            st.effects = st.effects + (("<iterator>.next", (), (), node),)
            return lines[k] if k < len(lines) else Const(None)
        if name == "nas_sscanf" and args:
            x = args[0]
            if isinstance(x, Opaque) and x.name in ("part", "parts"):
                return Opaque("misread", (x,))
            if not is_str(x):
                return Unk("nas_sscanf of " + type(x).__name__)
            b = all_blank(x)
            if b is True:
                return Const(None)
            at = atoms(x)
            if at is None:
                return Unk("nas_sscanf of text of unknown layout")
            fs = [field_of(a) for a, _ in (at or []) if field_of(a) is not None]
            if at is not None and len(fs) == 1 and all(isinstance(a, Lit) and a.s.strip(BLANKS) == "" for a, _ in at if field_of(a) is None):
                return fs[0]
            if at is not None and not fs and b is False:
                return Lit("".join(a.s for a, _ in at).strip())
            return Opaque("misread", (x,))
        if isinstance(node.func, ast.Attribute) and node.func.attr in ("split", "partition", "rpartition") and args \
                and isinstance(args[0], Lit) and len(args[0].s) == 1 and not kw \
                and (len(args) == 1 or (node.func.attr == "split" and len(args) == 2 and as_int(args[1]) is not None)):
            # card text cut at a character: only literal pieces can hold it (fields are numbers / names without '$', ',', '*')
            recv = eng.ev(node.func.value, st)
            if is_str(recv) and atoms(recv) is not None:
                toks = split_commas(recv, args[0].s).items
                if node.func.attr == "split":
                    m = as_int(args[1]) if len(args) == 2 else -1
                    if 0 <= m < len(toks) - 1:       # at most m cuts: the rest stays one piece
                        rest = [x for i, t in enumerate(toks[m:]) for x in ((args[0], t) if i else (t,))]
                        toks = toks[:m] + (cat(*rest),)
                    return Tup(toks)
                if len(toks) == 1:
                    return Tup((recv, Lit(""), Lit(""))) if node.func.attr == "partition" else Tup((Lit(""), Lit(""), recv))
                cut = 1 if node.func.attr == "partition" else len(toks) - 1
                glue = lambda ts: cat(*[x for i, t in enumerate(ts) for x in ((args[0], t) if i else (t,))])      # noqa: E731
                return Tup((glue(toks[:cut]), args[0], glue(toks[cut:])))
        if isinstance(node.func, ast.Attribute) and node.func.attr in ("find", "index") and len(args) == 1 and isinstance(args[0], Lit):
            recv = eng.ev(node.func.value, st)
            if is_str(recv) and not isinstance(recv, Lit) and atoms(recv) is not None and len(args[0].s) == 1:
                # position of a character in card text: only literal pieces can hold it (fields are numbers / names)
                pos = 0
                for a, w in atoms(recv):
                    if isinstance(a, Lit) and args[0].s in a.s:
                        return Fraction(pos + a.s.index(args[0].s))
                    pos += w
                return Fraction(-1) if node.func.attr == "find" else Unk("index: not found")
        return NotImplemented

    def cond(test, st, eng):
        r = _field_cond(test, st, eng)
        if r is not None:
            return r
        if isinstance(test, ast.Compare) and len(test.ops) == 1 and isinstance(test.ops[0], (ast.In, ast.NotIn)):
            a, b = eng.ev(test.left, st), eng.ev(test.comparators[0], st)
            if isinstance(a, Lit) and isinstance(b, Lit):
                return (a.s in b.s) == isinstance(test.ops[0], ast.In)
        return None

    def post(v, st, eng):
        v = _text_post(v, st, eng)
        if isinstance(v, Slice) and v.lo is None and as_int(v.hi) == 1 and is_str(v.s):
            c = first_char(v.s)
            if c is not None:
                return Lit(c)
        return v

    # helpers are followed (comment stripping, field conversion wrappers, per-line loops ...); nas_sscanf is the number reader of C12-R4
    eng = Engine(ctx, BULK, fn, cond=cond, call=call, env=env, post=post, strict_locals=True, inline=lambda nm: nm != "nas_sscanf")
    leaves = eng.run()
    rets = [lf for lf in leaves if lf.kind == "return"]
    for lf in leaves:
        _no_escape(eng, lf, ITER, f"{q}: the line iterator")
    crash = [lf for lf in leaves if lf.kind == "raise" and isinstance(lf.value, Lit) and not lf.state.facts]
    if crash and not rets:
        raise Crash(f"{q} raises {crash[0].value.s} for this card")
    if not rets or any(lf.value != rets[0].value for lf in rets) or any(lf.kind == "fall" for lf in leaves):
        raise Unsupported(f"{q}: {len(leaves)} paths for one card (undecided: {[f[0] for lf in leaves for f in lf.state.facts][:3]})")
    v = rets[0].value
    if not isinstance(v, Tup):
        raise Unsupported(f"{q}: returns {type(v).__name__}")
    for x in v.items:
        wrong = any(isinstance(n, Opaque) and n.name == "misread" for n in walk_value(x))
        if not wrong and not (is_field(x) or x == BLANK or isinstance(x, (Lit, Const)) or is_num(x)):
            raise Unsupported(f"{q}: a value read is not determined ({type(x).__name__})")
    return list(v.items), taken(rets[0].state)


def comma_lines(name, shape, lead=",", short=False, marker=""):
    """the comma-separated form of a card: 8 data fields per line; `lead` starts a continuation line (its first field is the continuation
    field), `short` leaves out the trailing blank fields of a line, `marker` puts a continuation field (10th field) on full lines"""
    out = []
    starts = list(range(0, max(len(shape), 1), 8))
    for k in starts:
        toks = []
        for i in range(k, min(k + 8, len(shape))):
            toks.append(None if shape[i] == "blank" else StrOf(FIELD(i, shape[i])))
        if short:
            while toks and toks[-1] is None:
                toks.pop()
        parts = [Lit(name if k == 0 else lead.rstrip(","))]
        for t in toks:
            parts.append(Lit(","))
            if t is not None:
                parts.append(t)
        if marker and len(toks) == 8 and k != starts[-1]:
            parts.append(Lit("," + marker))
        out.append(cat(*parts))
    return out


def blank_heads(lines):
    """the same small-field card with blank continuation fields instead of '+'"""
    out = []
    for k, ln in enumerate(lines):
        a = atoms(ln)
        if k and a and isinstance(a[0][0], Lit) and a[0][0].s[:8] == "+       ":
            ln = cat(Lit(" " * 8 + a[0][0].s[8:]), *[x for x, _ in a[1:]])
        out.append(ln)
    return out


def shapes(per):
    """card shapes around the line breaks: (description, [field types])"""
    def mixed(n):
        # left-justified strings never end a line here: how many blanks trail them is not known, so the stripped line length would not be
        kinds = ["int", "float", "str", "blank", "str"]
        out = [kinds[i % len(kinds)] for i in range(n)]
        for i in range(n):
            if (i % per == per - 1 or i == n - 1) and out[i] in ("str", "blank"):
                out[i] = "int" if i % 2 else "float"
        return out
    out = []
    for n in (1, per - 1, per, per + 1, 2 * per, 2 * per + 1, 3 * per + 2):
        out.append((f"{n} integer fields", ["int"] * n))
    for n in (per, 2 * per + 1):
        out.append((f"{n} real fields", ["float"] * n))
        out.append((f"{n} fields of mixed types", mixed(n)))
    out.append((f"{3 * per} fields, the second line blank", ["int"] * per + ["blank"] * per + ["float"] * per))
    out.append((f"{3 * per + 1} fields, two blank lines", ["int"] * (per - 1) + ["blank"] * (2 * per + 1) + ["int"]))
    out.append((f"{2 * per} fields, blank run across the line break", ["int"] * (per - 2) + ["blank"] * 4 + ["float"] * (per - 2)))
    out.append((f"{per + 3} fields, blank first line", ["blank"] * per + ["int"] * 3))
    # a continuation line that ends in blank fields (short once stripped) and is followed by another line: the field count must catch up
    out.append((f"{3 * per} fields, the second line ends in blank fields", ["int"] * (per + 2) + ["blank"] * (per - 2) + ["float"] * per))
    out.append(("60 integer fields", ["int"] * 60))                               # the longest card of the property's domain
    out.append(("58 fields of mixed types", mixed(58)))
    return out


READERS = ("_rdfixed", "_rdcomma")
LINE = Param("<line>")
LINES = Opaque("line-iterator", ())


def _is_generator(fn):
    stack = list(fn.body)
    while stack:
        n = stack.pop()
        if isinstance(n, (ast.Yield, ast.YieldFrom)):
            return True
        if not isinstance(n, (ast.FunctionDef, ast.AsyncFunctionDef, ast.Lambda, ast.ClassDef)):
            stack.extend(ast.iter_child_nodes(n))
    return False


def _reaching(mod, targets):
    """module-level functions from which a call of one of `targets` is reachable (call graph over plain names)"""
    calls = {}
    for nm, fn in mod.funcs.items():
        if "." in nm or "#" in nm:
            continue
        # a function is reached by calling it or by handing it on as a value (`reader = _rdfixed`)
        calls[nm] = {n.id for n in ast.walk(fn) if isinstance(n, ast.Name) and isinstance(n.ctx, ast.Load) and n.id in mod.funcs}
    reach = set(targets)
    grew = True
    while grew:
        grew = False
        for nm, cs in calls.items():
            if nm not in reach and cs & reach:
                reach.add(nm)
                grew = True
    return reach


class _DispatchEngine(Engine):
    """rdcards is evaluated for one card: a loop body is run once (its test taken to hold), a line asked of the line iterator is the
    first line of the card (`self.line`: concrete text, or the symbol <line>); a path ends once it has handed the line to a reader"""

    @property
    def line(self):
        # shared by the engines of followed helpers (they are created by the base class): kept on the context
        return self.ctx.__dict__.get("_c12_dispatch_line", LINE)

    def _seen_reader(self, st, since):
        return any(e[0] in READERS for e in st.effects[since:])

    def _generic(self, s, st, bind=None):
        out = []
        start = st.fork()
        if bind is not None:
            self.assign(s.target, bind, start)
        n0 = len(st.effects)
        for st2, o, pay in self.block(s.body, start):
            if o in ("next", "continue", "break"):
                if self._seen_reader(st2, n0):
                    out.append((st2, "return", (Const(None), s)))
                    continue
                for n in ast.walk(s):
                    if isinstance(n, ast.Name) and isinstance(n.ctx, ast.Store):
                        st2.env[n.id] = Unk("assigned in a loop")
                out.append((st2, "next", None))
            else:
                out.append((st2, o, pay))
        return out

    def _is_card_loop(self, s):
        """may an iteration of the loop take a line from the iterator or reach a reader?  (by name: a loop that cannot is an ordinary loop)"""
        reach = self.ctx.__dict__.get("_c12_reach")
        if reach is None:
            reach = self.ctx.__dict__["_c12_reach"] = _reaching(self.mod, READERS)
        for n in ast.walk(s):
            if isinstance(n, ast.Name) and isinstance(n.ctx, ast.Load) and (n.id in reach or n.id == "next"):
                return True
            if isinstance(n, ast.Attribute) and n.attr in ("send", "__next__"):
                return True
            if isinstance(n, (ast.Yield, ast.YieldFrom)):
                return True
        return False

    def while_loop(self, s, st, bound=400):
        if not self._is_card_loop(s):
            # a scan of the line with a counter: run as written when every test is decided
            try:
                return Engine.while_loop(self, s, st.fork(), bound)
            except Unsupported:
                pass
        return self._generic(s, st)

    def _for_loop(self, s, st, it):
        if it == LINES:
            return self._generic(s, st, self.line)
        if isinstance(it, Tup) and len(it.items) <= 2:
            return Engine._for_loop(self, s, st, it)
        seq = _as_sequence(it)
        if isinstance(seq, Tup) and len(seq.items) <= 200 and all(isinstance(x, Lit) or is_num(x) for x in seq.items):
            return Engine._for_loop(self, s, st, seq)       # a loop over concrete characters / numbers (a scan of the line): run as written
        return self._generic(s, st, Unk("loop item"))


# ---- the cards the dispatch is decided on: one concrete first line for every way a card of the property's domain can begin
CARD = ("1", "2.5", "", "ABC")                      # an integer, a real, a blank and a string field
NAMES = ("A", "AB", "ABC", "GRID", "CARDX", "CARDXY", "CARDXYZ", "CARDXYZW")          # first fields of 1 .. 8 characters


def card_lines():
    """-> [(form, what, text)] with form 'comma' | 'small' | 'large'.  The first field of a card has at most 8 characters, so the first
    separator of a free-field card sits at index 1 .. 8; the writers end the name of a large-field card with '*', i.e. at index 1 .. 7"""
    body = ",".join(CARD)
    out = []
    for nm in NAMES:
        out.append(("comma", f"first field of {len(nm)} character{'s' if len(nm) > 1 else ''}, first separator at index {len(nm)}", f"{nm},{body}\n"))
    out.append(("comma", "large-field spelling of an 8-character first field, '*' at index 7, first separator at index 8", f"CARDXYZ*,{body}\n"))
    out.append(("comma", "large-field spelling of the name, first separator at index 5", f"GRID*,{body}\n"))
    out.append(("comma", "name padded with blanks to 8 characters, first separator at index 8", f"GRID    ,{body}\n"))
    out.append(("comma", "blanks around the fields", "GRID, " + " , ".join(CARD) + "\n"))
    for nm in NAMES:
        out.append(("small", f"name of {len(nm)} character{'s' if len(nm) > 1 else ''}",
                    f"{nm:<8s}{CARD[0]:>8s}{CARD[1]:>8s}{CARD[2]:8s}{CARD[3]:<8s}\n"))
    for nm in NAMES[:7]:
        out.append(("large", f"'*' at index {len(nm)}", f"{nm + '*':<8s}{CARD[0]:>16s}{CARD[1]:>16s}{CARD[2]:16s}{CARD[3]:<16s}\n"))
    return out


CARD_VALUES = [BLANK if t == "" else Lit(t) for t in CARD]


def dispatch_calls(ctx, line):
    """the reader calls rdcards makes for a card whose first line is `line` (concrete text, or the symbol <line>), on every path through its
    option handling: [(reader, arguments by the reader's signature, call node)], distinct ones.  The calls are read from the *values* reached
    from rdcards - directly or through helpers (call graph), in whatever loop.  The line iterator is the value of a call to a generator of
    the module, the current line is what `next` / `send` of that value gives; every test on the line is decided on its text."""
    cache = ctx.__dict__.setdefault("_c12_dispatch", {})
    if line in cache:
        return cache[line]
    fn = ctx.src.func(BULK, "rdcards")
    mod = ctx.src.mod(BULK)
    reach = _reaching(mod, READERS)
    if "rdcards" not in reach:
        raise AnchorError("rdcards: no call path to _rdfixed / _rdcomma")

    def follow(nm):
        return nm not in READERS and nm != "rdcards"

    def call(name, args, kw, node, st, eng):
        if name in mod.funcs and name not in st.env and _is_generator(mod.funcs[name]):
            return LINES
        if name == "next" and args and args[0] == LINES:
            return line
        if isinstance(node.func, ast.Attribute) and node.func.attr in ("send", "__next__") and eng.ev(node.func.value, st) == LINES:
            return line
        return NotImplemented

    eng = _DispatchEngine(ctx, BULK, fn, env={}, lenient=True, call=call, inline=follow, exceptions=True)
    ctx.__dict__["_c12_dispatch_line"] = line
    eng.max_states = 40000              # option handling before the card loop doubles the paths a few times; they are cheap
    try:
        leaves = eng.run()
    except Unsupported as e:
        raise Unsupported(f"rdcards: {e}")
    out = []
    for lf in leaves:
        for nm, args, kw, node in lf.state.effects:
            if nm not in READERS or args is None:
                continue
            full = _by_signature(ctx, nm, args, kw)
            item = (nm, tuple(full[:4 if nm == "_rdfixed" else 3]), node)           # iterator, line, layout: what decides the fields read
            if not any(o[0] == item[0] and o[1] == item[1] for o in out):
                out.append(item)
    cache[line] = out
    return out


def _read_through(ctx, calls):
    """run each reader call of one concrete card line -> [(verdict, detail)] with verdict 'ok' | 'wrong' | 'order' | 'open'"""
    res = []
    for nm, args, node in calls:
        fixed = nm == "_rdfixed"
        it, s = (args + (None, None))[:2]
        shown = f"{nm}({', '.join(_short(a) for a in args[:4 if fixed else 3])}, ...)"
        if s == LINES or isinstance(it, Lit):
            res.append(("order", shown))
            continue
        n = as_int(args[2]) if fixed and len(args) > 2 and args[2] is not None and is_num(args[2]) else None
        cc = args[3 if fixed else 2] if len(args) > (3 if fixed else 2) else None
        if it != LINES or not isinstance(s, Lit) or not isinstance(cc, Lit) or (fixed and (n is None or n <= 0)):
            res.append(("open", f"the arguments of {shown} are not determined"))
            continue
        try:
            got, _ = run_reader(ctx, nm, [s], n, cc.s, fixed)
        except Crash as e:
            res.append(("wrong", {"handed to": shown, "problem": str(e)}))
            continue
        except Unsupported as e:
            res.append(("open", f"{shown}: the reader is not modelled on this text ({e})"))
            continue
        ok = trim(got, BLANK) == CARD_VALUES
        res.append(("ok" if ok else "wrong", {"handed to": shown, "fields read": [_short(x) for x in trim(got, BLANK)][:8],
                                              "fields of the card": [_short(x) for x in CARD_VALUES]}))
    return res


def rdcards_dispatch(ctx):
    """what the generic reader does with the first line of a card, decided on concrete lines (card_lines): per line the reader it is handed
    to, the text handed over and the layout arguments; the (field width, continuation characters) of fixed-field cards with / without a '*'
    ending the name, the continuation characters of the comma reader, and per line whether the reader chosen returns the card's fields"""
    found, comma, order, unbound, stripped = {}, set(), [], [], set()
    where = None
    per_line = []
    for form, what, text in card_lines():
        calls = dispatch_calls(ctx, Lit(text))
        res = _read_through(ctx, calls)
        node = calls[0][2] if calls else None
        where = where or node
        # the layout a line is read with counts only when every path hands the line over with that layout: where the paths differ, a test
        # on the line was not decided (or an option of rdcards chooses) - reported per line below as not decided, never as a wrong layout
        layouts = {(nm, args[2:4] if nm == "_rdfixed" else args[2:3]) for nm, args, _ in calls}
        for (nm, args, _), (verdict, detail) in zip(calls, res):
            if verdict == "order":
                order.append(nm)
                continue
            if verdict == "open" and isinstance(detail, str) and "not determined" in detail and detail not in unbound:
                unbound.append(detail)
            if len(layouts) != 1:
                continue
            if nm == "_rdfixed" and form in ("small", "large") and len(args) >= 4:
                found.setdefault(form == "large", set()).add((args[2], args[3]))
                if isinstance(args[1], Lit):
                    stripped.add(args[1].s == args[1].s.rstrip(BLANKS))
            if nm == "_rdcomma" and form == "comma" and len(args) >= 3:
                comma.add(args[2])
        per_line.append((form, what, text, res, node))
    if where is None:
        raise AnchorError("rdcards: no path of a card reaches _rdfixed / _rdcomma")
    return found, comma, where, order, unbound, stripped == {True}, per_line


def _short(v):
    from .c12_float import describe
    if v is None or v == LINES or v == BLANK:
        return "None" if v is None else "<line iterator>" if v == LINES else "<blank>"
    return describe(v)


def _by_signature(ctx, name, args, kw):
    names = [a.arg for a in ctx.src.func(BULK, name).args.args]
    full = list(args) + [None] * max(0, len(names) - len(args))
    for k, v in (kw or ()):
        if k in names:
            full[names.index(k)] = v
    return full


class _Soft:
    """obligations evaluated for a path that the analysis cannot show some value to take: a failure there proves nothing (not decided)"""

    def __init__(self, ctx):
        self._ctx = ctx

    def __getattr__(self, k):
        return getattr(self._ctx, k)

    def fail(self, what, where=None, detail=None, **kw):
        self._ctx.error(what + ": not decided - the path depends on a test on the value that is not modelled", where, {"would report": detail})

    def check(self, ok, what, where=None, detail=None, **kw):
        if ok:
            self._ctx.check(ok, what, where, detail, **kw)
        else:
            self.fail(what, where, detail)


def real_field_widths(ctx, q, fmt, name, W):
    """the width obligation of a real field decided by value: every path of the writer for a value of a real field (fast paths, special
    cases) renders it in exactly W columns, for every sign / decade / rounding case of the values that take the path - either by handing it
    to a public formatter (C12-R1/R2/R2b decide those) or by a fixed-notation rendering decided on the column model.
    -> [(path or None, text for messages, certain)]: the paths the symbolic cards are then written for (None: the writer makes no test on
    the value)"""
    from .c12_float import _abs_range, decades, regimes, feasible, fact_precisions, describe, KMIN, POINT
    from .c12_model import Reg, fixed_models, precisions_in, width_bounds
    fn = ctx.src.func(BULK, q)
    try:
        paths = real_field_paths(ctx, q, name)
    except (Crash, Unsupported, AnchorError):
        return [(None, "", True)]           # not followed by value: the symbolic cards decide (a test on the value is then reported there)
    live = [(lf, v) for lf, v in paths]
    if not live:
        return [(None, "", True)]
    out = []
    many = len({v for _, v in live}) > 1 or any(lf.state.facts for lf, _ in live)
    for lf, v in live:
        whole, other = _whole_fact(lf)
        certain = not other
        C = ctx if certain else _Soft(ctx)
        how = f"values in {lf.iv}" + ("" if whole is None else " that are whole numbers" if whole else " that are not whole numbers")
        what = f"{q}: a real field ({how}) is written in exactly {W} columns"
        entry = (_Choice(lf, v), f" [real fields: {how}]", certain)
        if many and v is not None and fixed_models(v, Reg(False, 1), X) is None and any(n == Param(X) for n in walk_value(v)):
            # (a path that writes literal text for the value - `if field == 0.0: write("      0.")` - is decided here alone: in the text
            # of a symbolic card nothing would tell which field the literal stands for)
            out.append(entry)
        if v is None:
            C.fail(what, lf.node, f"the writer raises {lf.value.s}")
            continue
        if fixed_models(v, Reg(False, 1), X) is None:
            lo, hi = width_bounds(v, lambda nm: FLOATW.get(nm))
            if lo == W and hi == W:
                C.check(True, what, lf.node)
            elif (hi is not None and hi < W) or lo > W:
                C.fail(what, lf.node, {"rendering": describe(v), "width between": [lo, hi]})
            else:
                ctx.error(what + ": the width of the rendering cannot be bounded", lf.node, {"rendering": describe(v), "width between": [lo, hi]})
            continue
        # a rendering of the writer's own (it bypasses the formatter): the columns per sign, decade and rounding case
        precs = precisions_in(v, X) | fact_precisions(lf, X)
        bad, cut, n, models = [], [], 0, []
        for neg in (False, True):
            rng = _abs_range(lf.iv, neg)
            if rng is None:
                continue
            for k in decades(rng):
                for reg in regimes(rng, k, precs, neg):
                    if not feasible(lf, reg, X):
                        continue
                    if whole is True and (k < 1 or 0 <= reg.carry_upto < POINT):
                        continue            # no whole number below 1 but zero (below); a whole number does not round up
                    if whole is False and k > 16:
                        continue            # every double of that size is a whole number
                    ms = fixed_models(v, reg, X)
                    n += 1
                    models.extend(ms or [])
                    for m in ms or [None]:
                        side = "-" if neg else ""
                        if m is None or m.width != W or m.corrupt:
                            bad.append({"values": f"{side}[1e{k - 1}, 1e{k})", "columns": getattr(m, "width", None), "problem": m.corrupt if m else "not modelled"})
                        elif m.lossy and whole is not True:
                            cut.append(f"{side}[1e{k - 1}, 1e{k})")
        zero = lf.iv.contains(Interval(Fraction(0), True, Fraction(0), True))
        if zero:
            n += 1
            for m in fixed_models(v, Reg(False, KMIN), X) or [None]:
                if m is None or m.width != W or m.corrupt:
                    bad.append({"values": "0.0", "columns": getattr(m, "width", None), "problem": m.corrupt if m else "not modelled"})
        if many and not bad and n:
            # the symbolic cards are written for this path too; its rendering counts as one W-wide field when it cannot end in a blank
            if all(m.pad_r == 0 for m in models):
                entry[0].stands_for = fmt
            out.append(entry)
        C.check(not bad, what + f" ({n} sign / decade / rounding cases of `{describe(v)}`)", lf.node, bad[:3] or None, nontrivial=bool(n))
        C.check(not cut, f"{q}: a real field ({how}) rendered by `{describe(v)}` keeps its value (the fraction is cut only where the path has "
                         f"established a whole number)", lf.node, cut[:3] or None, nontrivial=bool(n))
    return out or [(None, "", True)]


WRITERS = (("wtcard8", "format_float8", "GRID", 8, 8), ("wtcard16", "format_float16", "GRID*", 16, 4), ("wtcard16d", "format_double16", "DMIG*", 16, 4))


def r3_card_grid(ctx):
    ctx.assume("C12-R3: a field value fits the column it is written into (integers of at most W digits, strings of at most W characters); "
               "names and string fields hold no '$', ',' or '*'")
    # ---- what the generic reader expects
    found, comma, loop, order, unbound, first_stripped, per_line = rdcards_dispatch(ctx)
    if unbound:
        ctx.error("rdcards: the arguments of a reader call are not determined", loop, unbound[:4])
    ctx.check(not order, "rdcards: the readers receive the line iterator first and the current line second", loop, order or None)
    # the choice of the reader, end to end: whichever reader a line is handed to (with whatever layout, after whatever preparation of the
    # text) must return the fields of the card - so a free-field card is recognised wherever its first separator can sit (index 1 .. 8) and
    # a large-field card wherever the writers put the '*' (index 1 .. 7), by whatever test
    forms = {"comma": "free-field (comma-separated)", "small": "small-field", "large": "large-field"}
    for form, what, text, res, node in per_line:
        inst = f"rdcards: the {forms[form]} card {text.rstrip()!r} ({what}) is handed to a reader that returns its fields one for one"
        verdicts = {v for v, _ in res}
        if not res:
            ctx.error(inst + ": no path hands the line to _rdfixed / _rdcomma", loop)
        elif verdicts == {"ok"}:
            ctx.ok(inst, node)
        elif verdicts <= {"wrong", "order"} and "wrong" in verdicts:
            ctx.fail(inst, node, [d for v, d in res if v == "wrong"][:2])
        elif verdicts == {"order"}:
            pass                            # reported above
        else:
            # readers that differ with an option of rdcards, or a call whose arguments / text the evaluation does not determine
            ctx.error(inst + ": not decided", node, [d for v, d in res if v != "ok"][:3])
    conch = {}
    for star, W in ((True, 16), (False, 8)):
        got = found.get(star, set())
        what = f"rdcards: a card {'with' if star else 'without'} '*' in its name field is read with {W}-wide fields"
        if not got or not all(is_num(a) and isinstance(b, Lit) for a, b in got):
            # nothing the source contradicts: the dispatch could not be bound to values
            ctx.error(what + ": the field width / continuation characters handed to the fixed-field reader are not determined", loop,
                      [(str(a), str(b)) for a, b in got])
            continue
        ok = len(got) == 1 and next(iter(got))[0] == Fraction(W)
        ctx.check(ok, what, loop, None if ok else [(str(a), str(b)) for a, b in got])
        if ok:
            conch[W] = next(iter(got))[1].s
    if len(conch) == 2:
        ok = "*" in conch[16] and "+" in conch[8] and " " in conch[8]
        ctx.check(ok, "rdcards: '*' continues a large-field card, blank or '+' a small-field card", loop, conch)
    if not comma or not all(isinstance(c, Lit) for c in comma):
        ctx.error("rdcards: the continuation characters handed to the comma reader are not determined", loop, [str(c) for c in comma])
        cch = None
    else:
        ok = len(comma) == 1 and set(" +,") <= set(next(iter(comma)).s)
        ctx.check(ok, "rdcards: the comma reader accepts blank, '+' and ',' continuations", loop, [str(c) for c in comma])
        cch = next(iter(comma)).s if ok else " +,"
    if len(conch) != 2 or cch is None:
        return                              # reported above; the cards cannot be read back without knowing what the reader is handed
    # the three writers render real fields with their own formatter (single- vs double-precision style), wherever the shared code lives
    choices = {}
    for q, fmt, name, W, per in WRITERS:
        fn = ctx.src.func(BULK, q)
        choices[q] = real_field_widths(ctx, q, fmt, name, W)
        try:
            used = set()
            for choice, _, _ in choices[q]:
                used |= formatters_in(run_writer(ctx, q, name, ["float", "int", "float"], choice))
        except (Crash, Unsupported) as e:
            ctx.error(f"{q}: the writer is not modelled", fn, str(e))
            continue
        if not used or not used <= set(FLOATW):
            ctx.error(f"{q}: real fields are rendered by {fmt}: the rendering of a real field is not a call of a public formatter", fn, sorted(used))
            continue
        ctx.check(used == {fmt}, f"{q}: real fields are rendered by {fmt}", fn, None if used == {fmt} else sorted(used))
    # ---- writers on the reference grid, readers on the written text
    for q, fmt, name, W, per in WRITERS:
        wfn = ctx.src.func(BULK, q)
        for (desc, shape), (choice, cdesc, certain) in itertools.product(shapes(per), choices[q]):
            if choice is not None and "float" not in shape:
                if choice is not choices[q][0][0]:
                    continue                # a card without real fields: once
                cdesc = ""
            tag = q + cdesc
            C = ctx if certain else _Soft(ctx)
            try:
                text = run_writer(ctx, q, name, shape, choice)
            except Crash as e:
                C.fail(f"{tag}: card of {desc}: the card is written", wfn, str(e))
                continue
            except Unsupported as e:
                C.error(f"{tag}: card of {desc}: the writer is not modelled", wfn, str(e))
                continue
            try:
                problem = check_grid(text, W, per, conch[W], shape)
            except Unsupported as e:
                C.error(f"{tag}: card of {desc}: the written text is not modelled", wfn, str(e))
                continue
            C.check(problem is None, f"{tag}: card of {desc}: name in 8 columns, every field in its own {W}-wide slot, {per} per line, "
                                       f"continuation lines headed by 8 columns starting with a character the reader accepts", wfn, problem)
            if problem is not None:
                continue
            rfn = ctx.src.func(BULK, "_rdfixed")
            lines = split_lines(text)
            # continuation lines arrive raw; the first one as rdcards hands it over (right-stripped if that is what the call passes)
            head = _text_post(Strip(lines[0], None, "r"), None, None) if first_stripped else lines[0]
            lines = [head if is_str(head) else lines[0]] + [cat(ln, Lit("\n")) for ln in lines[1:]]
            want = trim([BLANK if s == "blank" else s for s in expected_slots(shape)], BLANK)
            try:
                got, used = run_reader(ctx, "_rdfixed", lines, W, conch[W], True)
            except Crash as e:
                C.fail(f"_rdfixed reads the {tag} card of {desc} back field for field ({len(lines)} lines)", rfn, str(e))
                continue
            except Unsupported as e:
                C.error(f"_rdfixed on the {tag} card of {desc}: the reader is not modelled", rfn, str(e))
                continue
            ok = trim(got, BLANK) == want
            C.check(ok, f"_rdfixed reads the {tag} card of {desc} back field for field ({len(lines)} lines)", rfn,
                      None if ok else _diff(got, want, used, len(lines)))
            if W == 8 and len(lines) > 1 and " " in conch[8]:
                try:
                    got, used = run_reader(ctx, "_rdfixed", blank_heads(lines), W, conch[W], True)
                    ok = trim(got, BLANK) == want
                    C.check(ok, f"_rdfixed reads the {tag} card of {desc} alike when its continuation fields are blank", rfn,
                              None if ok else _diff(got, want, used, len(lines)))
                except Crash as e:
                    C.fail(f"_rdfixed reads the {tag} card of {desc} alike when its continuation fields are blank", rfn, str(e))
                except Unsupported as e:
                    C.error(f"_rdfixed on the {tag} card of {desc} with blank continuation fields: the reader is not modelled", rfn, str(e))
            if fmt == "format_double16":
                continue
            cfn = ctx.src.func(BULK, "_rdcomma")
            if W != 8 or choice is not choices[q][0][0]:
                continue                # the comma form does not depend on the field width (nor on the values): once per shape
            for lead, short, marker, how in ((",", False, "", "',' continuations"), ("+,", False, "", "'+,' continuations"),
                                             (" ,", True, "", "' ,' continuations, trailing blank fields of a line left out"),
                                             ("+C1,", False, "+C1", "continuation fields '+C1' at both ends")):
                cl = [cat(ln, Lit("\n")) for ln in comma_lines(name.rstrip("*"), shape, lead, short, marker)]
                try:
                    gotc, usedc = run_reader(ctx, "_rdcomma", cl, None, cch, False)
                except Crash as e:
                    C.fail(f"_rdcomma reads the comma form ({how}) of the card of {desc} like the fixed form", cfn, str(e))
                    continue
                except Unsupported as e:
                    C.error(f"_rdcomma on the comma form ({how}) of the card of {desc}: the reader is not modelled", cfn, str(e))
                    continue
                ok = trim(gotc, BLANK) == want
                C.check(ok, f"_rdcomma reads the comma form ({how}) of the card of {desc} like the fixed form", cfn,
                          None if ok else _diff(gotc, want, usedc, len(cl)))


def _diff(got, want, used, nlines):
    def t(v):
        if is_field(v):
            return f"field{as_int(v.args[0]) + 1}"
        if v == BLANK:
            return "blank"
        return type(v).__name__ if not isinstance(v, (Lit, Opaque)) else (v.s if isinstance(v, Lit) else v.name)
    g, w = trim(got, BLANK), want
    i = next((j for j in range(max(len(g), len(w))) if j >= len(g) or j >= len(w) or g[j] != w[j]), None)
    return {"lines consumed": f"{used} of {nlines}", "fields read": len(g), "fields written": len(w),
            "first difference at field": None if i is None else i + 1,
            "read": [t(x) for x in g[max(0, (i or 0) - 2):(i or 0) + 3]], "written": [t(x) for x in w[max(0, (i or 0) - 2):(i or 0) + 3]]}
